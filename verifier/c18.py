"""C18 -- DOF-set partitions and look-ups (partial claim)."""
from __future__ import annotations

import ast
import hashlib
import os
import re

from . import e2_formula as F
from .core import AnchorError, Unsupported
from .e1_srcmodel import dotted, walk_no_nested
from .e2_eval import is_unknown
from .sem import split_call, place
from .c18_fold import Folder, FoldRaise, raw_module, raw_func
from .c18_sem import (explore, app, head, same, vkey, unfn_m, strip, find, walk, contains, const_of, sym_of, norm_atom, depends_on_sym, is_empty,
                      is_boolean, rewrite)

N2P = "pyyeti/nastran/n2p.py"
OP2 = "pyyeti/nastran/op2.py"
LOCATE = "pyyeti/locate.py"

BASE = ("m", "s", "o", "q", "r", "c", "b", "e")
# MSC/NX Nastran Quick Reference Guide, "Degree-of-Freedom Sets": each superset as the union of mutually
# exclusive base sets (the same hierarchy is drawn in mkusetmask's docstring)
MEMBERS = {
    "l": "bc", "t": "bcr", "a": "bcrq", "d": "bcrqe", "f": "bcrqo", "fe": "bcrqoe",
    "n": "bcrqos", "ne": "bcrqose", "g": "bcrqosm", "p": "bcrqosme",
}
# NDDL name of the bit that belongs to each set (compared with the bit table in the code's own comment)
NDDL = {"m": ["M"], "s": ["SG", "SB"], "o": ["O"], "q": ["Q"], "r": ["R"], "c": ["C"], "b": ["B"], "e": ["E"],
        "l": ["L"], "t": ["T"], "a": ["A"], "d": ["D"], "f": ["F"], "fe": ["FE"], "n": ["N"], "ne": ["NE"],
        "g": ["G"], "p": ["P"], "u1": ["U1"], "u2": ["U2"], "u3": ["U3"], "u4": ["U4"], "u5": ["U5"], "u6": ["U6"]}
# documented exception (docstring paragraph on MSC.Nastran): b also owns the NDDL "S" bit; op2 clears it on s-set DOF
EXTRA = {"b": ["S"]}


def _is_mask_table(t):
    return isinstance(t, dict) and len(t) >= 8 and all(isinstance(k, str) for k in t) \
        and all(isinstance(v, int) and not isinstance(v, bool) for v in t.values())


def mask_table(ctx):
    """(table, mkusetmask, mkusetmask): the mask table is the *value* `mkusetmask()` returns - however the source builds it (dict literal in
    the function, module-level table, loop / reduce over a data table, private helpers); see c18_fold.py.  Folded once per run."""
    hit = getattr(ctx, "_c18_masks", None)
    if hit is None:
        fn = raw_func(ctx, N2P, "mkusetmask")
        fo = Folder(ctx, N2P)
        try:
            try:
                table = fo.call("mkusetmask")
            except FoldRaise as e:
                if "missing argument" not in e.what:
                    raise
                table = fo.call("mkusetmask", None)
        except FoldRaise as e:
            raise AnchorError(f"mkusetmask: mask dictionary not found (the call without a set name raises: {e.what})")
        if not _is_mask_table(table):
            raise AnchorError(f"mkusetmask: mask dictionary not found (the call without a set name returns {str(table)[:80]!r})")
        hit = ctx._c18_masks = (dict(table), fn, fo)
    return hit[0], hit[1], hit[1]


def mask_folder(ctx):
    mask_table(ctx)
    return ctx._c18_masks[2]


def mask_of(ctx, request):
    """value of mkusetmask(request) for a literal string: ("ok", int) / ("raise", text) / ("odd", value)"""
    fo = mask_folder(ctx)
    try:
        v = fo.call("mkusetmask", request)
    except FoldRaise as e:
        return "raise", e.what
    if isinstance(v, int) and not isinstance(v, bool):
        return "ok", v
    return "odd", str(v)[:80]


# MSC/NX Nastran NDDL "USET" bit positions (public data-block definition; bit 0 = least significant), kept here as published
# constants so that the rule does not depend on a source comment surviving
NDDL_BITS = {"M": 0, "S": 1, "O": 2, "R": 3, "G": 4, "N": 5, "F": 6, "A": 7, "L": 8, "SG": 9, "SB": 10, "E": 11, "P": 12, "NE": 13, "FE": 14,
             "D": 15, "J": 16, "SA": 17, "K": 18, "KS": 19, "C": 20, "B": 21, "Q": 22, "T": 23, "FR": 24, "V": 25, "U6": 26, "U5": 27,
             "U4": 28, "U3": 29, "U2": 30, "U1": 31}


def nddl_bits(ctx):
    """the NDDL bit table; when mkusetmask still carries its own copy in a comment block, the two must agree"""
    return dict(NDDL_BITS)


_NDDL_NAME = re.compile(r"[A-Z][A-Z0-9]*$")


def nddl_bits_from_comment(ctx):
    """bit table from the comment block next to the mask definitions, wherever in n2p.py it sits (code <-> comment sibling): comment lines
    made of (bit number, NDDL name) pairs"""
    m = ctx.src.mod(N2P)
    bits = {}
    for ln in m.source.split("\n"):
        s = ln.strip()
        if s.startswith("#"):
            toks = s[1:].split()
            if len(toks) >= 4 and len(toks) % 2 == 0 and all(t.isdigit() for t in toks[::2]) and all(_NDDL_NAME.match(t) for t in toks[1::2]):
                for i in range(0, len(toks), 2):
                    bits[toks[i + 1]] = int(toks[i])
    return bits


def _bitsof(x):
    return [i for i in range(64) if (x >> i) & 1]


def r1_lattice(ctx):
    table, tnode, fn = mask_table(ctx)
    bits = nddl_bits(ctx)
    cbits = nddl_bits_from_comment(ctx)
    if cbits:
        ok = all(bits.get(k) == v for k, v in cbits.items())
        ctx.check(ok, "mkusetmask: the bit table quoted in its comment block is the NDDL USET table", fn,
                  None if ok else {k: (v, bits.get(k)) for k, v in cbits.items() if bits.get(k) != v}, nontrivial=False)
    want_keys = set(BASE) | set(MEMBERS) | {f"u{i}" for i in range(1, 7)}
    ok = set(table) == want_keys
    ctx.check(ok, "mask table defines exactly the documented sets", tnode,
              None if ok else {"missing": sorted(want_keys - set(table)), "extra": sorted(set(table) - want_keys)}, nontrivial=False)
    if not want_keys <= set(table):
        return
    # 1. base sets pairwise disjoint, non-empty
    for i, x in enumerate(BASE):
        ctx.check(table[x] != 0, f"base set {x} has a non-empty mask", tnode, nontrivial=False)
        for y in BASE[i + 1:]:
            ok = table[x] & table[y] == 0
            ctx.check(ok, f"base sets {x} and {y} have disjoint masks (every DOF is in exactly one base set)", tnode,
                      None if ok else {x: _bitsof(table[x]), y: _bitsof(table[y])})
    basebits = 0
    for x in BASE:
        basebits |= table[x]
    # 2. X in Y  <=>  mask[X] & mask[Y] != 0, and then mask[X] is wholly inside mask[Y]
    for y, mem in MEMBERS.items():
        for x in BASE:
            inter = table[x] & table[y]
            if x in mem:
                ok = inter == table[x]
                ctx.check(ok, f"{x} is a documented member of {y}: mask[{x}] is contained in mask[{y}]", tnode,
                          None if ok else {x: _bitsof(table[x]), y: _bitsof(table[y])})
            else:
                ok = inter == 0
                ctx.check(ok, f"{x} is not a member of {y}: mask[{x}] & mask[{y}] == 0", tnode,
                          None if ok else {"common bits": _bitsof(inter)})
    # 3. private bits
    priv = {}
    for y in MEMBERS:
        p = table[y] & ~basebits
        own = [bits[n] for n in NDDL[y] if n in bits]
        ok = all((table[y] >> b) & 1 for b in own) and len(own) == len(NDDL[y])
        ctx.check(ok, f"superset {y} carries its own NDDL bit {NDDL[y]}", tnode, None if ok else {"mask bits": _bitsof(table[y])})
        priv[y] = sum(1 << b for b in own)
        # every other non-base bit inside mask[y] must be the private bit of a subset of y
        for b in _bitsof(p & ~priv[y]):
            owners = [z for z in MEMBERS if z != y and any(bits.get(n) == b for n in NDDL[z])]
            ok = bool(owners) and all(set(MEMBERS[z]) <= set(mem_y) for z in owners for mem_y in [MEMBERS[y]])
            ctx.check(ok, f"bit {b} inside mask[{y}] belongs to a subset of {y}", tnode,
                      None if ok else {"bit": b, "owners": owners})
    # 6. private bit of Z inside mask[Y]  =>  Z subset of Y   (so superset bits Nastran sets cannot create false members)
    for z in MEMBERS:
        for y in MEMBERS:
            if z == y:
                continue
            inside = priv[z] and (table[y] & priv[z]) == priv[z]
            sub = set(MEMBERS[z]) <= set(MEMBERS[y])
            ok = (not inside) or sub
            ctx.check(ok, f"private bit of {z} lies in mask[{y}] only if {z} is a subset of {y}", tnode,
                      None if ok else {"z": z, "y": y}, nontrivial=inside)
    # base bits agree with the NDDL table; the documented exception for b
    for x in BASE:
        own = sum(1 << bits[n] for n in NDDL[x] + EXTRA.get(x, []) if n in bits)
        ok = table[x] == own
        ctx.check(ok, f"mask[{x}] is exactly the NDDL bit(s) {NDDL[x] + EXTRA.get(x, [])}", tnode,
                  None if ok else {"mask": _bitsof(table[x]), "nddl": _bitsof(own)})
    # 4. user sets: single bits outside everything else
    allbits = 0
    for y in list(BASE) + list(MEMBERS):
        allbits |= table[y]
    seen = 0
    for i in range(1, 7):
        u = table[f"u{i}"]
        ok = bin(u).count("1") == 1 and u & allbits == 0 and u & seen == 0 and u == 1 << bits.get(f"U{i}", -99 if True else 0)
        ctx.check(ok, f"user set u{i} is the single NDDL bit U{i}, disjoint from all other sets", tnode,
                  None if ok else {"mask": _bitsof(u)})
        seen |= u
    # 5. a set name gives the table entry; an 'x+y' request gives the OR of the masks of the named sets.  Decided on the values mkusetmask
    # returns (every name; every name combined with its neighbour and with two supersets; some longer requests) - a loop with |=, reduce(or_), a helper are all the same to this check
    bad = {}
    for x in table:
        st, v = mask_of(ctx, x)
        if st != "ok" or v != table[x]:
            bad[x] = {"mkusetmask(name)": v if st == "ok" else f"{st}: {v}", "mkusetmask()[name]": table[x]}
    ctx.check(not bad, "mkusetmask(name) is the table entry mkusetmask()[name] for every set name", fn, dict(list(bad.items())[:4]) or None)
    names = sorted(table)
    # every name with its neighbour (both orders) and with two supersets it shares bits with or not; some longer requests
    reqs = [(x, y) for x, y in zip(names, names[1:] + names[:1])] + [(y, x) for x, y in zip(names, names[1:] + names[:1])]
    reqs += [(x, y) for x in names for y in ("a", "n") if y in table and x != y]
    reqs += [("a", "o", "m"), ("b", "b"), ("l", "t", "q", "e"), ("u1", "p", "s")]
    reqs = [r for r in reqs if all(x in table for x in r)]
    bad, odd = [], []
    for r in reqs:
        want = 0
        for x in r:
            want |= table[x]
        st, v = mask_of(ctx, "+".join(r))
        if st == "ok" and v == want:
            continue
        (bad if st in ("ok", "raise") else odd).append({"request": "+".join(r), "returned": v if st == "ok" else f"{st}: {v}", "OR of the masks": want})
    if odd and not bad:
        ctx.error("mkusetmask('x+y'): the value returned for a combined request is not an integer", fn, odd[:3])
    else:
        ctx.check(not bad, "mkusetmask('x+y') ORs the masks of the named sets", fn,
                  None if not bad else {"mismatches": len(bad), "first": bad[:3],
                                        "consequence": "masks that share bits ('a+b', 'l+t') carry into other sets' bits when added"})


# ------------------------------------------------------------------------------------------------------------------
# value helpers shared by the rules below (see c18_sem.py: every function is evaluated on symbols once per regime)
NONE = F.sym("None")


def _is_call(v, names, sig):
    """{parameter: value} if v is a call of one of `names` (last dotted component), else None"""
    sc = split_call(v)
    if sc is None or sc[0].split(".")[-1] not in names:
        return None
    return place(sc[1], sc[2], sig)


def _cmp_pair(v, op, a, b):
    x = app(v, "cmp:" + op)
    return bool(x) and len(x) == 2 and ((same(x[0], a) and same(x[1], b)) or (same(x[0], b) and same(x[1], a)))


def _col(x, j):
    return F.fn("idx", x, F.fn("tuple", F.fn("slice", NONE, NONE, NONE), F.const(j)))


def _member(v):
    """(p, q) if v is the membership test  (p & q) != 0  (also  .astype(bool) / bool() of the and)"""
    a = app(v, "cmp:NotEq")
    if a and len(a) == 2:
        for x, z in ((a[0], a[1]), (a[1], a[0])):
            if const_of(z) == 0:
                b = app(x, "mask:BitAnd")
                if b and len(b) == 2:
                    return b
    a = app(v, "astype")
    if a and sym_of(a[1]) in ("bool", "np.bool_"):
        b = app(a[0], "mask:BitAnd")
        if b and len(b) == 2:
            return b
    return None


def _member_wrong(v):
    """text when v is *recognisably not* a membership vector although it is built from a word/mask combination compared with a constant:
    the inverted test `(w & m) == 0`, or `|` / `^` in place of `&`; None when it is a membership test or a form the rules do not know"""
    for op in ("NotEq", "Eq"):
        a = app(v, "cmp:" + op)
        if a and len(a) == 2:
            for x, z in ((a[0], a[1]), (a[1], a[0])):
                h = head(x) or ""
                if const_of(z) == 0 and h.startswith("mask:") and (op == "Eq" or h != "mask:BitAnd"):
                    return f"{h[5:]} ... {op} 0"
                if const_of(z) not in (None, 0) and h.startswith("mask:"):
                    return f"{h[5:]} ... {op} {const_of(z)}"          # compared with a non-zero constant: not `some bit of the mask is set`
    return None


def _mentions(c, node, name):
    if c is not None:
        return depends_on_sym(c, name)
    return node is not None and any(isinstance(n, ast.Name) and n.id == name for n in ast.walk(node))


def _flag(p, name):
    """truth of the boolean parameter `name` on path p: True / False, None when no test of the path looks at it, "odd" when a test does in a
    form this rule does not know (known: the flag itself, `not`, bool(flag), flag is / == True / False)"""
    raw = F.sym(name)
    out = None
    for c, d, node in p.atoms():
        if not _mentions(c, node, name):
            continue
        got = None
        if c is not None and same(c, raw):
            got = d
        b = _is_call(c, ("bool",), ["x"]) if c is not None else None
        if b and same(b.get("x"), raw):
            got = d
        for op in ("cmp:Is", "cmp:Eq"):
            a = app(c, op) if c is not None else None
            if a and len(a) == 2:
                for x, z in ((a[0], a[1]), (a[1], a[0])):
                    if same(x, raw) and sym_of(z) in ("True", "False"):
                        got = d if sym_of(z) == "True" else (not d)
        if got is None:
            return "odd"
        out = got
    return out


def _is_literal(p, name, lit):
    """truth of `name == lit` (lit: the repr of a string literal) on path p: True / False / None (not tested) / "odd" (name is tested in a form
    this rule does not know; known: ==, !=, in / not in a one-element tuple)"""
    raw, val = F.sym(name), F.sym(lit)
    out = None
    for c, d, node in p.atoms():
        if not _mentions(c, node, name):
            continue
        got = None
        a = app(c, "cmp:Eq") if c is not None else None
        if a and len(a) == 2 and ((same(a[0], raw) and same(a[1], val)) or (same(a[1], raw) and same(a[0], val))):
            got = d
        a = app(c, "cmp:In") if c is not None else None
        if a and len(a) == 2 and same(a[0], raw) and app(a[1], "tuple") and len(app(a[1], "tuple")) == 1 and same(app(a[1], "tuple")[0], val):
            got = d
        if got is None:
            if c is not None and _is_call(c, ("isinstance",), ["obj", "cls"]) is not None:
                continue            # a type test says nothing about the value
            return "odd"
        out = got
    return out


def _first(paths, pred):
    for p in paths:
        if pred(p):
            return p
    return None


def _show(v):
    if isinstance(v, tuple):
        return [_show(x) for x in v]
    return repr(v)[:300]


# ------------------------------------------------------------------------------------------------------------------
def r1b_producer(ctx):
    fn, paths = explore(ctx, OP2, "OP2._rdop2uset")
    table, _, _ = mask_table(ctx)
    bits = nddl_bits(ctx)
    sbit = 1 << bits["S"]
    rets = [p for p in paths if p.returned]
    if not rets:
        raise AnchorError("_rdop2uset: no returning path")
    # the value returned is the raw record U, or U with U[M] replaced by U[M] & ~k, M = (U & mkusetmask('s')) != 0
    found = []          # (path, U, M, cleared bits)
    plain = []
    odd = []
    for p in rets:
        a = app(p.ret, "upd")
        if not a:
            plain.append(p)
            continue
        U, M, val = a
        cleared = None
        sel = app(val, "idx")
        if sel and len(sel) == 2 and same(sel[1], M) and app(sel[0], "mask:BitAnd") and len(app(sel[0], "mask:BitAnd")) == 2:
            # (words & k)[sel] is words[sel] & k for a scalar k
            x, k = app(sel[0], "mask:BitAnd")
            x, k = (x, k) if same(x, U) else (k, x)
            if same(x, U):
                val = F.fn("mask:BitAnd", *sorted([F.fn("idx", U, M), k], key=lambda v: repr(vkey(v))))
        b = app(val, "mask:BitAnd")
        if b and len(b) == 2:
            for x, k in ((b[0], b[1]), (b[1], b[0])):
                if same(x, F.fn("idx", U, M)):
                    inv = app(k, "invert")
                    c = const_of(strip(inv[0])) if inv else None
                    if c is not None and c.denominator == 1:
                        cleared = int(c)
                    elif const_of(k) is not None and const_of(k).denominator == 1:
                        cleared = ~int(const_of(k)) & 0xFFFFFFFF
        if cleared is None:
            odd.append(p)
        else:
            found.append((p, U, M, cleared))
    if odd:
        ctx.error("_rdop2uset: store into the USET words not recognised as `words[sel] & ~bit`", odd[0].ret_node, _show(odd[0].ret))
        return
    if not found and any(find(p.ret, lambda x: (head(x) or "").startswith(("mask:", "kw:where", "kw:out", "invert"))) or
                         any(find(e, lambda x: (head(x) or "").startswith("mask:")) for e in getattr(p.ev, "escaped", [])) for p in plain):
        # nothing recognised as a store, yet the value returned is not the record as read: a bit operation in a form this rule does not know
        ctx.error("_rdop2uset: the value returned is computed from the USET words by a bit operation this rule does not recognise as "
                  "`words[sel] = words[sel] & ~bit`", plain[0].ret_node, _show(plain[0].ret))
        return
    sel_ok = bool(found)
    sel_odd = None
    for p, U, M, cleared in found:
        m = _member(M)
        good, known = False, False
        if m:
            for w, k in ((m[0], m[1]), (m[1], m[0])):
                c = _is_call(k, ("mkusetmask",), ["nasset"])
                name = sym_of(c.get("nasset")) if c is not None else None
                i = app(k, "idx")           # mkusetmask()['s']
                if i and _is_call(i[0], ("mkusetmask",), ["nasset"]) is not None and not _is_call(i[0], ("mkusetmask",), ["nasset"]):
                    name = sym_of(i[1])
                if name is not None and name.startswith("'") and same(w, U):
                    known = True
                    good = name == "'s'"
        elif _member_wrong(M):
            known = True
        if not known:
            sel_odd = sel_odd or M          # selected in a way the rule does not know: nothing provable
        sel_ok = sel_ok and good
    if not sel_ok and sel_odd is not None:
        ctx.error("_rdop2uset: how the DOF whose S bit is cleared are selected is not recognised (rule knows (words & mkusetmask('s')) != 0)", fn,
                  _show(sel_odd))
        return
    if not ctx.check(sel_ok, "_rdop2uset selects the s-set DOF with mkusetmask('s')", fn,
                     None if sel_ok else [_show(f[2]) for f in found] or "no store into the USET words"):
        return
    # every regime in which some s-set DOF exists returns the cleared words
    bad = [p for p in plain if not any(app(c, "any") and same(app(c, "any")[0], found[0][2]) and d is False for c, d, _ in p.atoms())]
    unread = [p for p in bad if any(c is not None and contains(c, found[0][2]) and not app(c, "any") for c, d, _ in p.atoms())]
    if unread and all(c == sbit for _, _, _, c in found):
        ctx.error("_rdop2uset: a test on the selected s-set DOF is not recognised (rule knows any(sel) and counts of sel)", unread[0].ret_node,
                  {"regime": unread[0].describe()})
        return
    ok = all(c == sbit for _, _, _, c in found) and not bad
    ctx.check(ok, "_rdop2uset clears exactly the NDDL S bit (the bit mkusetmask gives to b) on s-set DOF, in place", found[0][0].ret_node,
              None if ok else {"cleared": [c for _, _, _, c in found], "S bit": sbit, "uncleared regimes": [p.describe() for p in bad]})
    ok = table["b"] & sbit == sbit and table["s"] & sbit == 0
    ctx.check(ok, "the S bit is owned by mask['b'] and not by mask['s'] (so un-cleared s-set words would test as b-set)", fn)
    # who-may-define: no literal copy of a multi-bit set mask anywhere else in the package
    multi = {v for k, v in table.items() if bin(v).count("1") > 1}
    hits = []
    defining = mask_folder(ctx).literals         # the literals mkusetmask's value is folded from, wherever in n2p.py they sit
    for rel in ctx.src.all_py():
        for lineno, col, value, func in _int_literals(ctx, rel, multi):
            if rel == N2P and (lineno, col) in defining:
                continue
            hits.append(f"{rel}:{lineno} literal {value}")
    # docstring example outputs are strings, not int constants, so they do not count
    ctx.check(not hits, "no module carries a literal copy of a multi-bit set mask (who-may-define: mkusetmask only)", N2P + ":1", hits)
    # positive control for the expected-zero rule
    ctl_src = f"def f():\n    x = {table['b']}\n    y = 0x{table['a']:X}\n    z = {table['g']:_}\n"
    found_ctl = [t for t in _NUM.findall(ctl_src) if _tok_int(t) in multi]
    tree = ast.parse(ctl_src)
    found_ast = [n for n in ast.walk(tree) if isinstance(n, ast.Constant) and n.value in multi]
    ctx.check(len(found_ctl) == 3 and len(found_ast) == 3, "positive control: the literal-mask detector matches planted copies (decimal, hex, grouped digits)",
              N2P + ":1", nontrivial=False)


_NUM = re.compile(r"(?<![\w.])(0[xX][0-9a-fA-F_]+|0[oO][0-7_]+|0[bB][01_]+|[0-9][0-9_]*)(?![\w.])")


def _tok_int(t):
    try:
        return int(t.replace("_", ""), 0)
    except ValueError:
        try:
            return int(t.replace("_", ""))
        except ValueError:
            return None


class _Scanned:
    """a file that was read and scanned for integer literals but not parsed: it counts as consulted (digest in the evidence); the full
    module model is built only if somebody asks for more than that"""

    def __init__(self, src, rel, raw):
        self.__dict__["_src"] = src
        self.rel = rel
        self.digest = hashlib.sha256(raw).hexdigest()[:16]

    def __getattr__(self, name):
        from .e1_srcmodel import Module
        real = self.__dict__.get("_real")
        if real is None:
            src = self.__dict__["_src"]
            real = self.__dict__["_real"] = Module(src.repo, self.rel)
            src.mods[self.rel] = real
        return getattr(real, name)


def _int_literals(ctx, rel, wanted):
    """(line, column, value, enclosing function) of every integer literal of the file whose value is in `wanted`.  A file is parsed only when its
    text holds a numeric token with such a value (tokens inside strings / comments only cost the parse)."""
    src = ctx.src
    m = src.mods.get(rel)
    if m is None or isinstance(m, _Scanned):
        path = os.path.join(src.repo, rel)
        with open(path, "rb") as f:
            raw = f.read()
        text = raw.decode("utf-8")
        if not any(_tok_int(t) in wanted for t in _NUM.findall(text)):
            if m is None:
                src.mods[rel] = _Scanned(src, rel, raw)
            return []
        tree = ast.parse(text, filename=path)
        if m is None:
            src.mods[rel] = _Scanned(src, rel, raw)
    else:
        tree = m.tree
    out = []

    def visit(node, func):
        for c in ast.iter_child_nodes(node):
            f = c.name if isinstance(c, (ast.FunctionDef, ast.AsyncFunctionDef)) else func
            if isinstance(c, ast.Constant) and isinstance(c.value, int) and not isinstance(c.value, bool) and c.value in wanted:
                out.append((c.lineno, c.col_offset, c.value, func))
            visit(c, f)
    visit(tree, None)
    return out


# ------------------------------------------------------------------------------------------------------------------
def r2_mksetpv(ctx):
    """decided on the value `mksetpv` returns in every regime (isinstance tests x containment test)"""
    fn, paths = explore(ctx, N2P, "mksetpv")
    args = [a.arg for a in fn.args.args]
    if len(args) < 3:
        raise AnchorError("mksetpv(uset, major, minor)")
    major, minor = args[1], args[2]
    rets = [p for p in paths if p.returned]
    if not rets:
        raise AnchorError("mksetpv: no returning path")

    def role(pair, name):
        """(how the mask of `name` enters, the other operand) for a membership pair"""
        raw = F.sym(name)
        for m, w in ((pair[0], pair[1]), (pair[1], pair[0])):
            if same(m, raw):
                return "raw", w, m
            c = _is_call(m, ("mkusetmask",), ["nasset"])
            if c is not None and same(c.get("nasset"), raw):
                return "resolved", w, m
        return None

    info = []
    shape_ok = True
    for p in rets:
        a = app(p.ret, "idx")
        A, B = (a[0], a[1]) if a and len(a) == 2 else (None, None)
        nz = app(B, "idx") if B is not None else None
        if nz and const_of(nz[1]) == 0 and app(nz[0], "nonzero") and is_boolean(app(nz[0], "nonzero")[0]):
            B = app(nz[0], "nonzero")[0]            # X[np.flatnonzero(M)] selects what X[M] selects, in the same order
        mA, mB = (_member(A) if A is not None else None), (_member(B) if B is not None else None)
        info.append((p, A, B, mA, mB))
        shape_ok = shape_ok and mA is not None and mB is not None
    bad = _first(info, lambda t: t[3] is None or t[4] is None)
    if bad is not None:
        # a violation when the value returned is not a selection X[Y] of vectors at all, or a vector is recognisably not a membership test;
        # a selection of two boolean vectors computed in a way the rule does not know is an analysis error
        A, B = bad[1], bad[2]
        def hides(x):
            # a call of a local name (a closure, a function object handed around) may read anything of the enclosing function
            return bool(find(x, lambda y: (head(y) or "").startswith("call:") and "." not in head(y)[5:] and head(y)[5:] not in _PLAIN_CALLS))
        kinds = ["none" if x is None else ("member" if _member(x) is not None else ("wrong" if _member_wrong(x) else
                 ("odd" if depends_on_sym(x, args[0]) or hides(x) else "unrelated"))) for x in (A, B)]
        if "odd" in kinds and not ({"none", "wrong", "unrelated"} & set(kinds)):
            ctx.error("mksetpv: how the membership vectors are computed is not recognised (rule knows (word & mask) != 0, .astype(bool) and the "
                      "ufunc spellings)", bad[0].ret_node, {"returned": _show(bad[0].ret), "regime": bad[0].describe()})
            return
    if not ctx.check(shape_ok, "mksetpv computes both membership vectors as (word & mask) != 0", bad[0].ret_node if bad else fn,
                     None if shape_ok else {"returned": _show(bad[0].ret), "regime": bad[0].describe()}):
        return
    # which operand is which mask; the value returned is  pvminor[pvmajor]
    roles = []
    for p, A, B, mA, mB in info:
        roles.append((p, role(mA, minor), role(mB, major), role(mA, major), role(mB, minor)))
    ok = all(rn is not None and rj is not None for _, rn, rj, _, _ in roles)
    if not ok:
        # a violation only when the masks are recognised and sit the wrong way round; an unknown way of turning `major` / `minor` into a
        # mask is something this rule cannot lower
        t = _first(roles, lambda t: t[1] is None or t[2] is None)
        mA, mB = next((i[3], i[4]) for i in info if i[0] is t[0])
        def opaque(pair, name):
            # the mask operand (the one that is not the table words) does depend on the right argument, but in a form this rule does not know
            ms = [x for x in pair if not depends_on_sym(x, args[0])]
            return role(pair, name) is None and len(ms) == 1 and depends_on_sym(ms[0], name)
        if opaque(mA, minor) or opaque(mB, major):
            ctx.error("mksetpv: the way a set argument becomes a mask is not recognised (rule knows the integer itself and mkusetmask(name))",
                      t[0].ret_node, {"regime": t[0].describe(), "membership operands": [_show(list(mA)), _show(list(mB))]})
            return
    okw = ok and all(same(rn[1], rj[1]) and depends_on_sym(rn[1], args[0]) for _, rn, rj, _, _ in roles)
    ctx.check(okw or not ok, "mksetpv tests major and minor membership on the same USET words (taken from the table)", fn,
              None if okw or not ok else [(_show(rn[1]), _show(rj[1])) for _, rn, rj, _, _ in roles][:1])
    # string arguments resolved through mkusetmask, integer masks used as they are
    for nm, k in ((major, 2), (minor, 1)):
        if not ok:
            break
        good, why, odd = True, None, None
        for t in roles:
            p, r = t[0], t[k]
            isstr = None
            for c, d, node in p.atoms():
                if not _mentions(c, node, nm) or (c is not None and (contains(c, t[1][1]) if t[1] else False)):
                    continue            # tests on the membership vectors are not tests of the argument's type
                ic = _is_call(c, ("isinstance",), ["obj", "cls"]) if c is not None else None
                cls = None
                if ic and same(ic.get("obj"), F.sym(nm)):
                    cs = app(ic.get("cls"), "tuple") or [ic.get("cls")]
                    names = {sym_of(x) for x in cs}
                    cls = "str" if names == {"str"} else ("int" if names and names <= _INT_TYPES else None)
                if cls is None:
                    b = app(c, "mask:BitAnd") if c is not None else None
                    if b:
                        continue        # the mask-level shortcut `minor & ~major` is judged with the refusal
                    if ic is not None and not same(ic.get("obj"), F.sym(nm)):
                        continue        # isinstance(<something else>, nm): not a test of the argument's type
                    odd = (p, node)
                else:
                    isstr = d if cls == "str" else (not d)     # the argument is a set name or an integer mask
            want = {True: "resolved", False: "raw"}.get(isstr)
            if want is None or r[0] != want:
                good = False
                why = {"regime": p.describe(), "mask used": _show(r[2])}
        if odd is not None and not good:
            ctx.error(f"mksetpv: a test on `{nm}` is not recognised (rule knows isinstance(.., str) and isinstance(.., int / np.integer))", odd[1],
                      {"regime": odd[0].describe()})
        else:
            ctx.check(good, f"mksetpv resolves a string `{nm}` through mkusetmask", fn, why)
    # refusal: every regime in which some DOF is in minor but not in major ends in the raise.  A test any(f(pvminor, pvmajor)) /
    # all(f(...)) is decided by the truth table of f over (in minor, in major): it is the containment test iff f == minor and not major
    refusal_ok, detail, undecidable = True, None, None
    norm = {id(t[0]): (t[1], t[2]) for t in info}
    for p, rn, rj, _, _ in (roles if ok else []):
        A, B = norm[id(p)]
        d = None                    # truth of `some DOF is in minor and not in major` on this path
        wrong, opaque = None, None
        for c, dd, node in p.atoms():
            if c is None or not (contains(c, A) or contains(c, B)):
                continue
            red = "any" if app(c, "any") else ("all" if app(c, "all") else None)
            tt = _truth_table(app(c, red)[0], A, B, red) if red else None
            if tt is None:
                opaque = node
            elif red == "any" and tt == (False, False, True, False):
                d = dd
            elif red == "all" and tt == (True, True, False, True):
                d = not dd
            else:
                wrong = (node, red, tt)
        if d is False:
            continue
        if d is None:
            if wrong is not None:
                refusal_ok = False
                detail = {"regime": p.describe(), "test": ast.unparse(wrong[0])[:120],
                          "truth table over (minor, major) = (0,0) (0,1) (1,0) (1,1)": [wrong[1]] + list(wrong[2]), "needed": "any(minor and not major)"}
            elif opaque is not None:
                undecidable = (p, opaque)
            else:
                refusal_ok = False
                detail = {"regime": p.describe(), "missing test": "any(~pvmajor & pvminor)"}
            continue
        # the containment test was true and the function still returned: some other test kept it from raising
        extra = [(c, dd, node) for c, dd, node in p.atoms()
                 if c is not None and not contains(c, A) and not contains(c, B) and _is_call(c, ("isinstance",), ["obj", "cls"]) is None]

        def mask_short(c, dd, inner, outer):
            # truth(inner mask & ~outer mask) is False: the inner mask has no bit outside the outer mask
            b = app(c, "mask:BitAnd")
            if not (b and dd is False):
                return False
            return any(bool(app(y, "invert")) and same(x, inner) and same(app(y, "invert")[0], outer) for x, y in ((b[0], b[1]), (b[1], b[0])))

        if any(mask_short(c, dd, rn[2], rj[2]) for c, dd, _ in extra):
            continue                # minor mask inside major mask: no DOF can be in minor only, the regime is empty
        # tests on the two masks themselves (bit operations and their truth): decided over every pair of 4-bit masks.  Some DOF can be in minor
        # and not in major exactly when the minor mask has a bit outside the major mask; the regime is non-empty iff such a pair passes the tests
        consts = set()
        fs = [_mask_fn(c, rn[2], rj[2], consts) for c, dd, _ in extra]
        world = _mask_world(consts) if extra and all(f is not None for f in fs) else None
        if world is not None:
            wit = next(((m, j) for m in world for j in world
                        if m & ~j and all(bool(f(m, j)) == dd for f, (c, dd, _) in zip(fs, extra))), None)
            if wit is None:
                continue
            refusal_ok = False
            detail = {"regime": p.describe(), "consequence": "a minor set that spills outside the major set is not refused",
                      "witness (minor mask, major mask)": [bin(wit[0]), bin(wit[1])]}
            continue
        if not extra or any(mask_short(c, dd, rj[2], rn[2]) for c, dd, _ in extra):
            refusal_ok = False
            detail = {"regime": p.describe(), "consequence": "a minor set that spills outside the major set is not refused "
                      "(e.g. major 'b', minor 'a' with a q-set DOF in the table: major & ~minor == 0)"}
        else:
            undecidable = (p, extra[0][2])
    if ok:
        if not [p for p in paths if p.raised is not None]:
            refusal_ok = False
            detail = detail or "no regime ends in a raise"
        if undecidable is not None and refusal_ok:
            ctx.error("mksetpv: the refusal depends on a test this rule cannot interpret", undecidable[1], {"regime": undecidable[0].describe()})
        else:
            ctx.check(refusal_ok, "mksetpv raises when some minor-set DOF is outside the major set (~major & minor)", fn, detail)
    # result: minor restricted to major, in table order
    bad = _first(roles, lambda t: t[1] is None or t[2] is None)
    ctx.check(ok, "mksetpv returns pvminor[pvmajor] (major-set length, minor-set DOF true, table order)", rets[-1].ret_node,
              None if ok else {"returned": _show(bad[0].ret), "regime": bad[0].describe()})


def _mask_fn(c, M, J, consts=None):
    """the value c as a Python function of two concrete integer masks (M -> m, J -> j), or None when c is built from anything but the two masks,
    integer constants, & | ^ ~ << >>, + - *, comparisons, not / bool / int, .bit_count() / .bit_length();  the integer constants met are
    added to `consts`"""
    import operator
    CMP = {"Eq": operator.eq, "NotEq": operator.ne, "Gt": operator.gt, "GtE": operator.ge, "Lt": operator.lt, "LtE": operator.le}
    BIT = {"mask:BitAnd": operator.and_, "mask:BitOr": operator.or_, "mask:BitXor": operator.xor}
    SHIFT = {"op:LShift": lambda x, n: x << n if 0 <= n < 64 else 0, "op:RShift": lambda x, n: x >> n if 0 <= n < 64 else 0}

    def build(x):
        if same(x, M):
            return lambda m, j: m
        if same(x, J):
            return lambda m, j: j
        k = const_of(x)
        if k is not None:
            if k.denominator != 1:
                return None
            if consts is not None:
                consts.add(int(k))
            return lambda m, j, k=int(k): k
        if sym_of(x) in ("True", "False"):
            return lambda m, j, k=(sym_of(x) == "True"): k
        u = unfn_m(x)
        if u is None:
            # a sum / product of such values
            try:
                if not x.d.is_const() or sym_of(x) is not None:
                    return None
                den = x.d.const_value()
                terms = []
                for mono, coef in x.n.t.items():
                    fs = []
                    for aid, e in mono:
                        f = build(F.Rat(F.Poly.atom(aid)))
                        if f is None or e < 1:
                            return None
                        fs.append((f, e))
                    terms.append((coef / den, fs))
            except Exception:  # noqa
                return None

            def poly(m, j):
                tot = 0
                for coef, fs in terms:
                    t = coef
                    for f, e in fs:
                        t = t * int(f(m, j)) ** e
                    tot += t
                return int(tot) if tot == int(tot) else tot
            return poly
        nm, args = u
        if any(isinstance(a, str) for a in args):
            return None
        fs = [build(a) for a in args]
        if any(f is None for f in fs):
            return None
        if nm in BIT and len(fs) == 2:
            return lambda m, j, op=BIT[nm]: op(int(fs[0](m, j)), int(fs[1](m, j)))
        if nm in SHIFT and len(fs) == 2:
            return lambda m, j, op=SHIFT[nm]: op(int(fs[0](m, j)), int(fs[1](m, j)))
        if nm == "invert" and len(fs) == 1:
            return lambda m, j: (not fs[0](m, j)) if isinstance(fs[0](m, j), bool) else ~fs[0](m, j)
        if nm in ("not",) and len(fs) == 1:
            return lambda m, j: not fs[0](m, j)
        if nm in ("call:bool", "call:int", "call:operator.index") and len(fs) == 1:
            return fs[0]
        if nm in ("call:.bit_count", "call:int.bit_count") and len(fs) == 1:
            return lambda m, j: bin(int(fs[0](m, j)) & 0xFFFFFFFFFFFF).count("1")
        if nm in ("call:.bit_length", "call:int.bit_length") and len(fs) == 1:
            return lambda m, j: int(fs[0](m, j)).bit_length()
        if nm.startswith("cmp:") and nm[4:] in CMP and len(fs) == 2:
            return lambda m, j, op=CMP[nm[4:]]: op(fs[0](m, j), fs[1](m, j))
        if nm in ("bool:And", "bool:Or") and fs:
            return (lambda m, j: all(f(m, j) for f in fs)) if nm == "bool:And" else (lambda m, j: any(f(m, j) for f in fs))
        return None
    return build(c)


def _mask_world(consts, width=32):
    """integer masks over a few bit positions that tell apart everything a bit-level test with the constants `consts` can tell apart: two
    positions out of every class of positions with the same membership in all the constants (at least four positions, at most eight);
    None when the constants split the word into too many classes"""
    classes = {}
    for b in range(width):
        classes.setdefault(tuple((k >> b) & 1 for k in sorted(consts)), []).append(b)
    per = 2 if 2 * len(classes) <= 8 else 1
    if per * len(classes) > 8:
        return None
    pos = []
    for sig, bs in sorted(classes.items()):
        pos += bs[:per]
    rest = [b for b in range(width) if b not in pos]
    while len(pos) < 4 and rest:
        pos.append(rest.pop(0))
    masks = []
    for sel in range(1 << len(pos)):
        masks.append(sum(1 << b for i, b in enumerate(pos) if (sel >> i) & 1))
    return masks


_PLAIN_CALLS = {"mkusetmask", "int", "bool", "len", "abs", "str", "float", "isinstance", "min", "max", "sum", "any", "all", "list", "tuple", "range"}
_INT_TYPES = {"int", "np.integer", "numbers.Integral", "np.int64", "np.int32", "np.uint32", "np.uint64", "np.signedinteger", "np.unsignedinteger", "Integral"}
_BOOL_CMP = {"Gt": lambda x, y: x and not y, "Lt": lambda x, y: y and not x, "GtE": lambda x, y: x or not y, "LtE": lambda x, y: y or not x,
             "Eq": lambda x, y: x == y, "NotEq": lambda x, y: x != y}


def _truth_table(v, A, B, red="any"):
    """value of the mask expression v for (A, B) = (0,0), (0,1), (1,0), (1,1), or None when v is not built from A, B, ~, &, |, ^, A[~B] and the
    comparisons > >= < <= == != of two such (boolean) vectors"""
    def ev(x, a, b):
        if same(x, A):
            return a
        if same(x, B):
            return b
        u = unfn_m(x)
        if u is None:
            return None
        nm, args = u
        if nm == "astype" and len(args) == 2 and sym_of(args[1]) in ("bool", "np.bool_"):
            return ev(args[0], a, b)
        if nm == "upd" and len(args) == 3 and sym_of(args[2]) in ("True", "False"):
            x, m = ev(args[0], a, b), ev(args[1], a, b)         # X[mask] = False  is  X & ~mask;  X[mask] = True  is  X | mask
            if x is None or m is None:
                return None
            return (x or m) if sym_of(args[2]) == "True" else (x and not m)
        if nm in ("call:.copy", "call:np.copy") and len(args) == 1:
            return ev(args[0], a, b)
        vals = [ev(y, a, b) for y in args if not isinstance(y, str)]
        if any(t is None for t in vals):
            return None
        if nm in ("invert", "not") and len(vals) == 1:
            return not vals[0]
        if nm.startswith("cmp:") and len(vals) == 2 and nm[4:] in _BOOL_CMP:
            return _BOOL_CMP[nm[4:]](vals[0], vals[1])          # on booleans  a > b  is  a & ~b,  a <= b  is  ~a | b, ...
        if nm == "mask:BitAnd" and len(vals) == 2:
            return vals[0] and vals[1]
        if nm == "mask:BitOr" and len(vals) == 2:
            return vals[0] or vals[1]
        if nm == "mask:BitXor" and len(vals) == 2:
            return vals[0] != vals[1]
        if nm == "idx" and len(vals) == 2:
            return vals[0] and vals[1]          # X[mask].any(): some element selected by the mask is true
        return None
    def top(a, b):
        # all(X[mask]): every element selected by the mask is true -  not mask or X  per element (any(X[mask]) is  mask and X, as inside)
        i = app(v, "idx")
        if red == "all" and i and len(i) == 2:
            x, m = ev(i[0], a, b), ev(i[1], a, b)
            return None if x is None or m is None else ((not m) or x)
        return ev(v, a, b)

    out = tuple(top(a, b) for a, b in ((False, False), (False, True), (True, False), (True, True)))
    return None if any(t is None for t in out) else out


# ------------------------------------------------------------------------------------------------------------------
def _size_forms(arrays):
    out = []
    for x in arrays:
        out += [F.fn("attr:size", x), F.fn("call:len", x), F.fn("idx", F.fn("attr:shape", x), F.const(0))]
    return out


def _clamp_kind(x, ss, arrays):
    """how the index value x derives from the insertion index ss:  'raw' (ss itself), 'clamped' (ss with == size mapped into range), None.
    The insertion index lies in 0..size, so a condition on it selects  only the == size cells / every cell but those / all / none  - decided on
    the value of the condition (any spelling of  ss == size,  ss >= size,  ss > size - 1,  ss < size,  size <= ss ...)"""
    if same(x, ss):
        return "raw"
    sizes = _size_forms(arrays)

    def is_size(v):
        return any(same(v, n) for n in sizes)

    def is_last(v):
        return any(same(v, n - 1) for n in sizes)

    def cells(cond):
        """which cells of the insertion index satisfy cond: "size" (exactly those == size), "below" (exactly those < size), "all", "none";
        None: another set or not a comparison of the index with the size"""
        canon, pol, truth = norm_atom(cond)
        if truth is not None:
            return "all" if truth else "none"
        if canon is None:
            return None
        out = None
        e = app(canon, "cmp:Eq")
        if e and len(e) == 2:
            k = next((const_of(e[0] - e[1] - (ss - n)) for n in sizes if const_of(e[0] - e[1] - (ss - n)) is not None), None)
            if k is None:
                k = next((-const_of(e[0] - e[1] - (n - ss)) for n in sizes if const_of(e[0] - e[1] - (n - ss)) is not None), None)
            if k is not None:
                out = "size" if k == 0 else ("none" if k < 0 else None)          # ss == size - k
        g = app(canon, "cmp:Gt")
        if g and len(g) == 2 and not is_unknown(g[0]) and not is_unknown(g[1]):
            delta = g[0] - g[1]
            k1 = next((const_of(delta - (ss - n)) for n in sizes if const_of(delta - (ss - n)) is not None), None)
            k2 = next((const_of(delta - (n - ss)) for n in sizes if const_of(delta - (n - ss)) is not None), None)
            if k1 is not None and k1.denominator == 1:
                out = "none" if k1 <= 0 else ("size" if k1 == 1 else None)       # ss >= size - k1 + 1
            elif k2 is not None and k2.denominator == 1:
                out = "all" if k2 >= 1 else ("below" if k2 == 0 else None)       # ss <= size + k2 - 1
        if out is None or pol:
            return out
        return {"size": "below", "below": "size", "all": "none", "none": "all"}[out]

    def at_size(val, here):
        """what the cells whose insertion index == size receive: `val`, written over `here` (forms that equal the size on exactly those cells:
        the index itself, the index selected by the == size mask) or over the size forms, or a constant"""
        c = next((const_of(val - n) for n in list(here) + sizes if const_of(val - n) is not None), None)
        if c in (-1, -2):
            return "clamped"        # size-1, or size-2 (size-2 is -1 for one key: also the last one)
        if c is not None and c >= 0:
            return "raw"            # still >= size: out of range
        k = const_of(val)
        if k in (0, -1):
            return "clamped"        # first / last position: in range whenever there is a key at all
        if k is not None and k >= 1:
            return "raw"            # out of range for a table of k keys or fewer
        return None

    a = app(x, "upd")
    if a and same(a[0], ss):
        # which cells the store reaches
        cs = cells(a[1])
        if cs is None:
            return None
        if cs in ("none", "below"):
            return "raw"            # the == size cells are left as they are
        if cs == "all":
            return "raw"            # every position is overwritten / shifted: not a clamp of the == size cells
        return at_size(a[2], [F.fn("idx", ss, a[1])])
    if not is_unknown(x) and not isinstance(x, tuple):
        # index - (index == size)  /  index - (index >= size): a boolean subtracted as 0 / 1
        d = ss - x
        if norm_atom(d)[0] is not None and (head(norm_atom(d)[0]) or "").startswith("cmp:"):
            cs = cells(d)
            if cs == "size":
                return "clamped"
            if cs == "none":
                return "raw"        # index - (index > size): never subtracts, == size stays
    c = _is_call(x, ("minimum", "fmin"), ["x1", "x2"])
    if c and ((same(c.get("x1"), ss) and is_last(c.get("x2"))) or (same(c.get("x2"), ss) and is_last(c.get("x1")))):
        return "clamped"
    if c and ((same(c.get("x1"), ss) and is_size(c.get("x2"))) or (same(c.get("x2"), ss) and is_size(c.get("x1")))):
        return "raw"                # min(index, size): == size stays
    c = _is_call(x, ("clip",), ["a", "a_min", "a_max"])
    if c:
        lo, hi = c.get("a_min", c.get("min")), c.get("a_max", c.get("max"))         # np.clip(a, a_min, a_max) / a.clip(min=, max=)
        if same(c.get("a"), ss) and is_last(hi) and (lo is None or const_of(lo) == 0 or sym_of(lo) == "None"):
            return "clamped"
        if same(c.get("a"), ss) and (hi is None or sym_of(hi) == "None" or is_size(hi)):
            return "raw"                # no upper bound below the size
    c = _is_call(x, ("where",), ["condition", "x", "y"])
    if c and c.get("condition") is not None and c.get("x") is not None and c.get("y") is not None:
        # np.where(cond, x, y): out of range on the == size cells is a fact whatever the other cells get; in range there counts only if the
        # other cells keep the index
        cs = cells(c["condition"])
        yes, no = c["x"], c["y"]
        if cs == "size":
            k = at_size(yes, [ss])
            return k if k == "raw" or same(no, ss) else None
        if cs == "below":
            k = at_size(no, [ss])
            return k if k == "raw" or same(yes, ss) else None
        if cs == "none":
            return "raw" if same(no, ss) else None
        if cs == "all":
            return "raw" if same(yes, ss) else None
    a = app(x, "op:Mod")
    if a and same(a[0], ss) and is_size(a[1]):
        return "clamped"            # wraps == size to 0: any in-range position will do, the re-check decides
    return None


class _Lookup:
    """one checked sorted look-up on one path: searched keys H, requested keys N, sorter I, positions P = I[clamped insertion index]"""
    pass


def _analyse_lookup(p, cache):
    """regimes that differ only in tests which do not involve the look-up share one analysis"""
    node, s = p.sites[0]
    obs = [p.ret] + [c for c, _, _ in p.atoms() if c is not None]
    # what the regime observes of the requested keys apart from the search itself (a membership test of another kind: np.isin(requested, table))
    side = [o for o in obs if not contains(o, s["value"]) and not isinstance(s["v"], tuple) and not is_unknown(s["v"]) and contains(o, s["v"])]
    obs = [o for o in obs if contains(o, s["value"])]
    key = (vkey(s["value"]), tuple(sorted({repr(vkey(o)) for o in obs})), tuple(sorted({repr(vkey(o)) for o in side})))
    if key not in cache:
        cache[key] = _analyse_lookup1(p, obs, side)
    return cache[key]


_HANDS_ON = ("attr:values", "attr:array", "call:.to_numpy", "call:.copy", "call:np.copy", "call:.view_same")


def _bare(v):
    """v without the wrappers that hand an array on element by element (.values / .to_numpy() / .copy() - `keys` and `keys.to_numpy()` are the
    same keys to a sorted search), wherever in the value they sit"""
    if isinstance(v, (tuple, list)):
        return type(v)(_bare(x) for x in v)
    if v is None or is_unknown(v):
        return v

    def f(name, args):
        if name in _HANDS_ON and len(args) == 1 and not isinstance(args[0], str):
            return args[0]
        return None
    try:
        return rewrite(v, f)
    except Unsupported:
        return v


def _analyse_lookup1(p, obs, aside=()):
    node, s = p.sites[0]
    L = _Lookup()
    obs = [_bare(o) for o in obs]
    L.node, L.H, L.N, L.I, L.ss = node, _bare(s["a"]), _bare(s["v"]), _bare(s["sorter"]), _bare(s["value"])
    L.res = {}            # obligation -> ("ok" | "fail" | "error", detail)
    L.P = None
    L.base = L.H
    L.sorted_copy = False
    # the sorter sorts the searched keys
    if sym_of(L.I) == "None":
        a = app(L.H, "idx")
        if a and same(a[1], F.fn("argsort", a[0])):
            L.base, L.I, L.sorted_copy = a[0], a[1], True
            L.res["sorter"] = ("ok", None)
        else:
            L.res["sorter"] = ("error", "searchsorted without a sorter on keys not recognised as sorted: " + _show(L.H))
    elif same(L.I, F.fn("argsort", L.H)):
        L.res["sorter"] = ("ok", None)
    elif head(L.I) == "argsort":
        L.res["sorter"] = ("fail", {"sorter": _show(L.I), "searched": _show(L.H)})
    else:
        L.res["sorter"] = ("error", "sorter not recognised as argsort of the searched keys: " + _show(L.I))
    side = sym_of(s["side"])
    L.res["side"] = ("ok", None) if side == "'left'" else ("error", "side = " + _show(s["side"]))
    if L.res["sorter"][0] == "error":
        return L
    L.obs = obs
    arrays = [L.I, L.H, L.base]
    uses = find(obs, lambda x: bool(app(x, "idx")) and same(app(x, "idx")[0], L.I) and contains(app(x, "idx")[1], L.ss))
    if not uses:
        # a regime that only looks at the keys in sorted order (sorted_keys[index], e.g. on the way to the raise): the positions it would return
        # are sorter[that index]
        srt = [F.fn("idx", L.base, L.I)] + ([L.H] if L.sorted_copy else [])
        keys = find(obs, lambda x: bool(app(x, "idx")) and any(same(app(x, "idx")[0], k) for k in srt) and contains(app(x, "idx")[1], L.ss))
        uses = [F.fn("idx", L.I, app(x, "idx")[1]) for x in keys]
    kinds = {}
    for u in uses:
        kinds.setdefault(_clamp_kind(app(u, "idx")[1], L.ss, arrays), u)
    if not uses:
        stray = find(obs, lambda x: bool(app(x, "idx")) and contains(app(x, "idx")[1], L.ss))
        direct = [x for x in stray if same(app(x, "idx")[0], L.base) and not L.sorted_copy and _clamp_kind(app(x, "idx")[1], L.ss, arrays) is not None]
        if direct:
            L.res["sorter-map"] = ("fail", {"use": _show(direct[0]), "consequence": "an index into the sorted order is applied to the unsorted keys"})
        else:
            L.res["sorter-map"] = ("error", "the insertion index is not used in the recognised `sorter[index]` form")
        return L
    L.res["sorter-map"] = ("ok", None)
    if "raw" in kinds:
        if any(contains(e, L.ss) for e in getattr(p.ev, "escaped", [])):
            L.res["clamp"] = ("error", "the insertion index is handed to a call statement this rule does not know (it may be clamped in place there)")
        else:
            L.res["clamp"] = ("fail", {"use": _show(kinds["raw"]), "consequence": "a key above the maximum gives index == size: IndexError"})
        return L
    if None in kinds:
        L.res["clamp"] = ("error", "index derived from the insertion point in a way this rule does not know: " + _show(app(kinds[None], "idx")[1]))
        return L
    L.res["clamp"] = ("ok", None)
    L.P = kinds["clamped"]
    L.C = app(L.P, "idx")[1]
    if side == "'right'":
        # the unshifted right insertion point is the position after an exact match: the re-check rejects every request that is present
        L.res["side"] = ("fail", {"side": "right", "consequence": "sorter[index] is the key after the requested one"})
    # any other use of the (clamped) insertion index, outside P
    at_p = lambda x: same(x, L.P)
    idx_c = find(obs, lambda x: bool(app(x, "idx")) and same(app(x, "idx")[1], L.C) and not same(x, L.P), at_p)
    for x in idx_c:
        b = app(x, "idx")[0]
        if (L.sorted_copy and same(b, L.H)) or same(b, F.fn("idx", L.base, L.I)):
            continue                # the sorted keys at the clamped index: the keys found
        if same(b, L.base):
            L.res["sorter-map"] = ("fail", {"use": _show(x), "consequence": "an index into the sorted order is applied to the unsorted keys"})
        else:
            L.res["sorter-map"] = ("error", "the clamped insertion index also indexes " + _show(b))
        return L
    done = lambda x: same(x, L.P) or any(same(x, y) for y in idx_c)
    if any((same(x, L.C) or same(x, L.ss)) for x in walk(obs, done) if not done(x)):
        L.res["sorter-map"] = ("error", "the insertion index is also used outside `sorter[index]`")
        return L
    # exact re-check: the keys found at P are compared with the requested keys
    found = [F.fn("idx", L.base, L.P), F.fn("idx", F.fn("idx", L.base, L.I), L.C)] + ([F.fn("idx", L.H, L.C)] if L.sorted_copy else [])
    L.found = found

    def is_ne(x):
        return any(_cmp_pair(x, "NotEq", k, L.N) for k in found)

    def is_eq(x):
        return any(_cmp_pair(x, "Eq", k, L.N) for k in found)

    L.is_ne, L.is_eq = is_ne, is_eq
    L.is_match = lambda m: is_eq(m) or (bool(app(m, "invert")) and is_ne(app(m, "invert")[0]))
    L.is_mismatch = lambda m: is_ne(m) or (bool(app(m, "invert")) and is_eq(app(m, "invert")[0]))
    if find(obs, lambda x: is_ne(x) or is_eq(x)):
        L.res["recheck"] = ("ok", None)
    elif find(obs, lambda x: any(same(x, k) for k in found)):
        L.res["recheck"] = ("error", "the keys found are read back but not in a recognised ==/!= comparison with the requested keys")
    elif aside or any(same(x, L.N) for x in walk(obs, lambda x: same(x, L.ss))):
        # the requested keys are looked at again after the search (np.isin(requested, table), a set operation, ...): possibly a membership
        # test of another kind - nothing this rule can prove either way
        L.res["recheck"] = ("error", "the requested keys are used again after the search, in a form this rule does not know as the exact re-check")
    else:
        L.res["recheck"] = ("fail", {"positions": _show(L.P), "consequence": "a missing key silently yields the position of a neighbour"})
    return L


LOOKUP_TEXT = [
    ("sorter", "look-up: the sorter is the argsort of the searched keys"),
    ("side", "look-up: searchsorted returns the left insertion point (the first key >= the request)"),
    ("sorter-map", "look-up: positions are mapped back through the sorter (sorter[index])"),
    ("clamp", "look-up: the insertion index is clamped (== size -> in range) before it indexes the sorter"),
    ("recheck", "look-up: found positions are re-checked for exact equality with the requested keys"),
]


def _report_lookup(ctx, name, looks):
    """one obligation per look-up item, over all regimes that reach the look-up; False if the chain could not be established"""
    complete = True
    for key, text in LOOKUP_TEXT:
        rs = [(L, L.res[key]) for L in looks if key in L.res]
        if not rs:
            complete = False
            continue
        worst = None
        for L, (st, det) in rs:
            if st == "fail" and (worst is None or worst[1][0] != "fail"):
                worst = (L, (st, det))
            elif st == "error" and worst is None:
                worst = (L, (st, det))
        if worst is None:
            ctx.ok(f"{name} {text}", rs[0][0].node)
        elif worst[1][0] == "fail":
            ctx.fail(f"{name} {text}", worst[0].node, worst[1][1])
            complete = False
        else:
            ctx.error(f"{name} {text}", worst[0].node, worst[1][1])
            complete = False
    return complete and all(L.P is not None and L.res.get("recheck", ("",))[0] == "ok" for L in looks)


def _lookup_paths(ctx, rel, qual):
    fn, paths = explore(ctx, rel, qual)
    reach = [p for p in paths if p.sites]
    if not reach:
        raise AnchorError(f"{qual}: no searchsorted look-up reached")
    if any(len(p.sites) != 1 for p in reach):
        raise AnchorError(f"{qual}: one searchsorted site expected")
    unk = _first(reach, lambda p: p.returned and (p.ret is None or any(is_unknown(x) for x in (p.ret if isinstance(p.ret, tuple) else (p.ret,)))))
    if unk is not None:
        raise Unsupported(f"{qual}: returned value not lowered in the regime `{unk.describe()}`: {_show(unk.ret)}")
    return fn, paths, reach


def _selector_kind(x, L):
    """what the selector x keeps of the requested keys: 'match' (the exact-match mask or its nonzero index), 'mismatch' (its complement), None"""
    if L.is_match(x):
        return "match"
    if L.is_mismatch(x):
        return "mismatch"
    a = app(x, "idx")
    if a and const_of(a[1]) == 0 and app(a[0], "nonzero"):
        return _selector_kind(app(a[0], "nonzero")[0], L)
    return None


def _anymis(p, L):
    """truth of `some requested key was not found` on the path (None: never tested; "odd": a test looks at the outcome of the re-check in a
    form this rule does not know)"""
    odd = False
    for c, d, _ in p.atoms():
        if c is None:
            continue
        c = _bare(c)
        a = app(c, "any")
        if a and L.is_mismatch(a[0]):
            return d
        a = app(c, "all")
        if a and L.is_match(a[0]):
            return not d
        a = app(c, "any") or app(c, "all")
        if a and (L.is_match(a[0]) or L.is_mismatch(a[0])):
            continue                # any(found == requested) / all(found != requested): understood, and no statement about `some key missing`
        if find(c, lambda y: L.is_eq(y) or L.is_ne(y) or any(same(y, k) for k in L.found)):
            odd = True
    return "odd" if odd else None


def r3_checked_lookup(ctx):
    bound = set()
    bound |= _r3_mkdofpv(ctx) or set()
    bound |= _r3_mat_intersect(ctx) or set()
    # other sorted-search sites in the anchored modules: every sorter-based look-up must be one the obligations above were bound to
    # (wherever it sits: in the anchored function or in a helper it calls)
    others = []
    for rel in (N2P, LOCATE):
        m = raw_module(ctx, rel)
        for q, f in m.funcs.items():
            for c in _searchsorted_sites(f):
                kw = {k.arg for k in c.keywords}
                if ("sorter" in kw or len(c.args) >= 4 - (dotted(c.func) != "np.searchsorted")) and id(c) not in bound:
                    others.append(f"{rel}:{c.lineno} {q}")
    ctx.check(not others, "no other sorter-based look-up exists in n2p.py / locate.py without this rule being bound to it",
              N2P + ":1", others)


def _searchsorted_sites(fn):
    out = []
    for n in walk_no_nested(fn):
        if isinstance(n, ast.Call) and (dotted(n.func) == "np.searchsorted" or (isinstance(n.func, ast.Attribute) and n.func.attr == "searchsorted")):
            out.append(n)
    return out


_WIDE_TYPES = {"int", "float", "np.int64", "np.intp", "np.int_", "np.float64", "np.longlong", "'int64'", "'i8'", "'float64'", "'f8'", "'int'", "'float'"}
_AS_ARRAY = ("attr:values", "attr:array", "attr:_values", "call:.to_numpy", "call:.copy", "call:np.copy", "call:.view_same", "call:np.ravel", "call:.ravel",
             "call:.flatten", "call:np.squeeze")


def _plain_keys(v):
    """a key vector without the wrappers that hand every element on unchanged and in place: .values / .to_numpy() / .copy() / .ravel() of a
    vector, a conversion to a 64-bit number type (ids and components are small integers) - wherever in the expression they sit"""
    if v is None or is_unknown(v) or isinstance(v, tuple):
        return v

    def f(name, args):
        if name in _AS_ARRAY and len(args) == 1 and not isinstance(args[0], str):
            return args[0]
        if name == "astype" and len(args) == 2 and sym_of(args[1]) in _WIDE_TYPES:
            return args[0]
        return None
    try:
        return _last_axis(rewrite(v, f))
    except Unsupported:
        return v


def _last_axis(v):
    """T[..., j] written as T[:, j]: the same column of a table of rows (the request list and an array USET table are two-dimensional)"""
    if v is None or is_unknown(v):
        return v
    if isinstance(v, tuple):
        return tuple(_last_axis(x) for x in v)

    def f(name, args):
        if name == "tuple" and len(args) == 2 and not isinstance(args[0], str) and sym_of(args[0]) == "Ellipsis":
            return F.fn("tuple", F.fn("slice", NONE, NONE, NONE), args[1])
        return None
    try:
        return rewrite(v, f)
    except Unsupported:
        return v


def _positions_of_mask(s):
    """M when the selection s is the vector of positions of the true elements of the boolean vector M (np.flatnonzero(M), np.nonzero(M)[0],
    np.where(M)[0]); None otherwise"""
    i = app(s, "idx")
    if i and len(i) == 2 and const_of(i[1]) == 0 and app(i[0], "nonzero"):
        return app(i[0], "nonzero")[0]
    return None


def _same_selection(a, b):
    return same(_positions_of_mask(a) or a, _positions_of_mask(b) or b)


def _full_slice(q):
    s = app(q, "slice") or app(q, "call:slice")           # the index `:` or the object slice(None)
    return bool(s) and all(not isinstance(z, str) and sym_of(z) == "None" for z in s)


def _label_rows(ix):
    """(table, [row selections, in the order applied]) when the value ix is the row labels (the MultiIndex) of a selection of rows of a
    table:  T.index;  T.loc[s].index / T[s].index / T.iloc[s].index / T.loc[s, :].index  (rows selected, then their labels);
    T.index[s] / T.index.take(s)  (labels selected);  any nesting of these.  None: another way of getting labels"""
    sels = []
    x, labels = ix, True
    for _ in range(8):
        x = _plain_keys(x) if labels else x
        i = app(x, "idx")
        if labels:
            a = app(x, "attr:index")
            if a:
                x, labels = a[0], False
                continue
            if i and len(i) == 2 and head(i[1]) != "tuple":
                if not _full_slice(i[1]):
                    sels.append(i[1])           # IX[:] selects every label
                x = i[0]
                continue
            return None
        if i and len(i) == 2:
            base, sel = i[0], i[1]
            for acc in ("attr:loc", "attr:iloc"):
                if app(base, acc):
                    base = app(base, acc)[0]
                    t = app(sel, "tuple")
                    if t and len(t) == 2 and _full_slice(t[1]):
                        sel = t[0]
            if head(sel) == "tuple" or sym_of(sel) is not None and sym_of(sel).startswith("'"):
                return None             # a column selection / a 2-D selection: not a selection of rows
            if not _full_slice(sel):
                sels.append(sel)
            x = base
            continue
        if unfn_m(x) is not None:
            return None                 # a table computed some other way
        return x, sels[::-1]
    return None


def _uset_level_order(ctx):
    """names of the row-label levels of a USET DataFrame in the order its producer `make_uset` lays them out (names=[..] of the
    pd.MultiIndex it builds: ("id", "dof")), or None when that cannot be read - a level addressed by position is then not decidable"""
    try:
        fn = raw_func(ctx, N2P, "make_uset")
    except Exception:  # noqa
        return None
    found = []
    for n in ast.walk(fn):
        if isinstance(n, ast.Call) and isinstance(n.func, ast.Attribute) and n.func.attr in ("from_arrays", "from_tuples", "from_product", "from_frame"):
            for k in n.keywords:
                if k.arg == "names" and isinstance(k.value, (ast.List, ast.Tuple)) \
                        and all(isinstance(e, ast.Constant) and isinstance(e.value, str) for e in k.value.elts):
                    found.append([e.value for e in k.value.elts])
    return found[0] if len(found) == 1 and len(found[0]) == 2 else None


def _column_pick(x):
    """(table, j) when x is column j of a two-dimensional table: table[:, j]"""
    i = app(x, "idx")
    t = app(i[1], "tuple") if i and len(i) == 2 else None
    if t and len(t) == 2 and _full_slice(t[0]) and const_of(t[1]) is not None:
        return i[0], const_of(t[1])
    return None


def _labels_as_table(U):
    """the row labels IX when the table U is the list / array of the label tuples of IX (np.array(IX.tolist()), np.array(list(IX)),
    IX.to_frame().to_numpy(), IX.to_numpy() of tuples is NOT a table): column j of U is level j of IX"""
    x = U
    for _ in range(6):
        x = _plain_keys(x)
        u = unfn_m(x)
        if u is None:
            return None
        if u[0] in ("call:.tolist", "call:list", "call:np.array", "call:np.asarray", "call:.to_list", "call:np.vstack") and len(u[1]) == 1:
            x = u[1][0]
            continue
        if u[0] == "call:.to_frame" and not isinstance(u[1][0], str):
            x = u[1][0]
            continue
        return x if _label_rows(x) is not None and not same(x, U) else None
    return None


def _r3_mkdofpv(ctx):
    fn, paths, reach = _lookup_paths(ctx, N2P, "mkdofpv")
    cache = {}
    looks = {id(p): _analyse_lookup(p, cache) for p in reach}
    bound = {id(p.sites[0][0]) for p in reach}
    if not _report_lookup(ctx, "mkdofpv", list(looks.values())):
        return bound
    strict = F.sym("strict")
    if "strict" not in [a.arg for a in fn.args.args + fn.args.kwonlyargs]:
        raise AnchorError("mkdofpv(..., strict=...)")
    # the request list D behind the requested keys N = D[:, 0] * 10 + D[:, 1]
    rows = []
    for p in reach:
        L = looks[id(p)]
        # the array whose columns the requested keys are built from (an element of it is read with a 2-D index)
        ds = find(L.N, lambda x: bool(app(x, "idx")) and head(app(x, "idx")[1]) == "tuple")
        D = app(ds[0], "idx")[0] if ds else None
        rows.append((p, L, D))
    # classify what each regime does after the look-up
    def outcome(p, L, D):
        if p.raised is not None:
            return "raise"
        r = _bare(p.ret)
        if not (isinstance(r, tuple) and len(r) == 2) or D is None:
            return "unknown"
        if same(r[0], L.P) and same(r[1], D):
            return "full"
        a, b = app(r[0], "idx"), app(r[1], "idx")
        fa, fb = bool(a) and same(a[0], L.P), bool(b) and same(b[0], D)
        ua, ub = same(r[0], L.P), same(r[1], D)
        # what each selection keeps: the exact matches (as a mask or as its index vector - the same rows in the same order), their complement,
        # or something this rule does not know
        ka = _selector_kind(a[1], L) if fa else None
        kb = _selector_kind(b[1], L) if fb else None
        if fa and fb:
            if ka == "match" and kb == "match":
                return "filtered"
            if "mismatch" in (ka, kb):
                return "misfiltered"
            return "unknown"
        if (fa and ub and ka is not None) or (ua and fb and kb is not None):
            return "misfiltered"        # one of the two is filtered by the re-check, the other returned whole
        return "unknown"

    outs = [(p, L, D, outcome(p, L, D), _anymis(p, L), _flag(p, "strict")) for p, L, D in rows]
    unk = _first(outs, lambda t: t[5] == "odd")
    if unk is not None:
        ctx.error("mkdofpv: a test on `strict` is not recognised (rule knows the flag itself, not, bool(), is / == True / False)", fn,
                  {"regime": unk[0].describe()})
        return bound
    unk = _first(outs, lambda t: t[3] == "unknown")
    if unk is not None:
        ctx.error("mkdofpv: value returned after the look-up not recognised", unk[0].ret_node, {"regime": unk[0].describe(), "returned": _show(unk[0].ret)})
        return bound
    unk = _first(outs, lambda t: t[4] == "odd")
    if unk is not None and not any(t[4] in (True, False) for t in outs):
        ctx.error("mkdofpv: the test on the outcome of the exact re-check is not recognised (rule knows any(found != requested), all(found == requested), "
                  "counts of the mismatches)", fn, {"regime": unk[0].describe()})
        return bound
    outs = [(t[0], t[1], t[2], t[3], None if t[4] == "odd" else t[4], t[5]) for t in outs]
    # mismatch and strict: must raise
    bad = _first(outs, lambda t: t[4] is not False and t[5] is not False and t[3] != "raise")
    ctx.check(bad is None, "mkdofpv: strict=True raises when a requested DOF is missing", (bad[0].ret_node if bad else None) or fn,
              None if bad is None else {"regime": bad[0].describe(), "outcome": bad[3]})
    # mismatch and not strict: positions and DOF list filtered by the same exact-match mask
    bad = _first(outs, lambda t: t[4] is not False and t[5] is not True and ((t[3] == "raise" and t[5] is False) or t[3] in ("full", "misfiltered")))
    ctx.check(bad is None, "mkdofpv: strict=False filters positions and the returned DOF list by the same exact-match mask",
              (bad[0].ret_node if bad else None) or fn, None if bad is None else {"regime": bad[0].describe(), "outcome": bad[3], "returned": _show(bad[0].ret)})
    # no mismatch: every request is answered
    bad = _first(outs, lambda t: t[4] is False and t[3] not in ("full", "filtered"))
    have = any(t[4] is False or (t[4] is None and t[3] == "filtered") for t in outs)
    ctx.check(bad is None and have, "mkdofpv returns (pv, dof): all positions and the whole request when every DOF was found", (bad[0].ret_node if bad else None) or fn,
              None if bad is None else {"regime": bad[0].describe(), "outcome": bad[3]})
    # key construction identical on both sides: id*10 + component
    def mult(v, X):
        """k if v == X[:, 0] * k + X[:, 1] for a constant k, else None"""
        k = const_of((v - _col(X, 1)) / _col(X, 0)) if X is not None and not is_unknown(v) else None
        return k if k is not None and same(v, _col(X, 0) * k + _col(X, 1)) else None

    def pure(v, is_sel):
        """v is plain arithmetic (+ - * /) over selections of one table: every atom satisfies is_sel.  Such a key that is not id*k + component is
        provably another function of the table than the documented (id, component) pair; a key built with other operations (shifts, |, calls)
        is something this rule cannot judge"""
        if v is None or is_unknown(v) or isinstance(v, tuple):
            return False
        atoms = [F.Rat(F.Poly.atom(a)) for a in sorted(v.n.atoms() | v.d.atoms())]
        return bool(atoms) and all(is_sel(a) for a in atoms)

    ks = {mult(_plain_keys(L.N), D) for p, L, D in rows}
    kN = ks.pop() if len(ks) == 1 else None
    okN = kN is not None and kN > 6          # components 0..6 must not run into the id
    okH = True
    enc_odd = None
    if kN is None and len(ks) <= 1:
        N0, D0 = _plain_keys(rows[0][1].N), rows[0][2]
        if not (D0 is not None and pure(N0, lambda a: bool(app(a, "idx")) and same(app(a, "idx")[0], D0))):
            enc_odd = "requested keys: " + _show(N0)         # not arithmetic on the request's columns: cannot be judged
    part_ok, part_seen, part_bad, part_odd = True, False, None, None
    uset = F.sym(fn.args.args[0].arg)
    nasset = fn.args.args[1].arg

    def restricted(p, rows_of):
        """judge the rows the table keys are built from: rows_of = (table, [row selections in the order applied]) or None (form not known).
        A DataFrame table is restricted to the requested set by mksetpv(uset, 'p', nasset) unless that set is 'p' (all DOF)"""
        nonlocal part_ok, part_seen, part_bad, part_odd
        if rows_of is None or not same(rows_of[0], uset) or len(rows_of[1]) > 1:
            part_odd = (p, None if rows_of is None else rows_of[0])
            return
        isp = _is_literal(p, nasset, "'p'")
        if not rows_of[1]:
            if isp == "odd":
                part_odd = (p, uset)
            elif isp is not True:
                part_ok, part_bad = False, (p, uset)
            return
        s = rows_of[1][0]
        s = _positions_of_mask(s) or s          # X[np.flatnonzero(M)] selects what X[M] selects, in the same order
        c = _is_call(s, ("mksetpv",), ["uset", "major", "minor"])
        g = bool(c) and same(c.get("uset"), uset) and sym_of(c.get("major")) == "'p'" and same(c.get("minor"), F.sym(nasset))
        part_seen = part_seen or g
        if c is None:
            part_odd = (p, s)               # restricted, but not by a call this rule knows
        elif not g:
            part_ok, part_bad = False, (p, s)

    order = _uset_level_order(ctx)

    def level_of(x):
        """{"self": row labels, "level": quoted level name} when x reads one level of row labels: IX.get_level_values(name or position)"""
        c = _is_call(x, ("get_level_values",), ["self", "level"])
        if not c or c.get("level") is None or c.get("self") is None:
            return None
        k = const_of(c["level"])
        if k is not None and order is not None and k.denominator == 1 and -2 <= int(k) < 2:
            return {"self": c["self"], "level": F.sym(repr(order[int(k)]))}          # by position: the layout make_uset gives the labels
        return c

    def by_name(v):
        """columns 0 / 1 of the table of label tuples of IX are its levels, in the order make_uset lays them out"""
        def f(name, args):
            if name != "idx" or len(args) != 2 or isinstance(args[0], str):
                return None
            nm = sym_of(args[1]) if not isinstance(args[1], str) else None
            if nm is not None and nm.startswith("'") and order is not None and nm[1:-1] in order:
                # IX.to_frame()[name] / T.reset_index()[name]: the level `name` of the row labels as a column
                fr = unfn_m(args[0])
                if fr and fr[0] == "call:.to_frame" and not isinstance(fr[1][0], str) and _label_rows(fr[1][0]) is not None:
                    return F.fn("call:.get_level_values", fr[1][0], args[1])
                if fr and fr[0] == "call:.reset_index" and len(fr[1]) == 1 and _label_rows(F.fn("attr:index", fr[1][0])) is not None:
                    return F.fn("call:.get_level_values", F.fn("attr:index", fr[1][0]), args[1])
                return None
            cp = _column_pick(F.fn("idx", args[0], args[1]))
            ix = _labels_as_table(cp[0]) if cp else None
            if ix is not None and order is not None and cp[1].denominator == 1 and -2 <= int(cp[1]) < 2:
                return F.fn("call:.get_level_values", ix, F.sym(repr(order[int(cp[1])])))
            return None
        try:
            return rewrite(v, f)
        except Unsupported:
            return v

    for p, L, D in rows:
        H = by_name(_plain_keys(strip(L.base)))           # the table keys (for a search in a sorted copy: the keys the copy was made from)
        tab = find(H, lambda x: _column_pick(x) is not None)
        if tab:
            U = app(tab[0], "idx")[0]
            good = kN is not None and same(H, _col(U, 0) * kN + _col(U, 1))
            if not good and kN is not None and mult(H, U) is None and not pure(H, lambda a: bool(app(a, "idx")) and same(app(a, "idx")[0], U)):
                enc_odd = enc_odd or "table keys: " + _show(H)
            # a plain array table has no set information: its rows are the p-set, any other request is refused
            isp = _is_literal(p, nasset, "'p'")
            if isp == "odd" or not same(strip(U), uset):
                part_odd = (p, U)               # the columns of something else than the table handed in: not something this rule can judge
            elif isp is not True:
                part_ok, part_bad = False, (p, U)
        else:
            lv = find(H, lambda x: level_of(x) is not None)
            ids = [x for x in lv if sym_of(level_of(x)["level"]) == "'id'"]
            dfs = [x for x in lv if sym_of(level_of(x)["level"]) == "'dof'"]
            good = len(ids) == 1 and len(dfs) == 1 and kN is not None and same(H, ids[0] * kN + dfs[0])
            if any(sym_of(level_of(x)["level"]) is None or not sym_of(level_of(x)["level"]).startswith("'") for x in lv):
                enc_odd = enc_odd or "index levels addressed by position: " + _show(H)        # which level is the id depends on the table
            if not good and kN is not None and not (len(ids) == 1 and len(dfs) == 1 and const_of((H - dfs[0]) / ids[0]) is not None) \
                    and not pure(H, lambda a: level_of(a) is not None):
                enc_odd = enc_odd or "table keys: " + _show(H)
            if good:
                # both levels are read from the row labels of one and the same selection of rows of the table - whether the labels are taken
                # after the rows were selected (uset.loc[pv].index) or selected themselves (uset.index[pv])
                r1, r2 = _label_rows(level_of(ids[0])["self"]), _label_rows(level_of(dfs[0])["self"])
                if r1 is None or r2 is None:
                    enc_odd = enc_odd or "row labels the index levels are read from: " + _show(level_of((ids if r1 is None else dfs)[0])["self"])
                elif not (same(r1[0], r2[0]) and len(r1[1]) == len(r2[1]) and all(_same_selection(a, b) for a, b in zip(r1[1], r2[1]))):
                    good = False            # id and component read from different selections of rows: the keys pair unrelated labels
                else:
                    restricted(p, r1)
        okH = okH and good
    if enc_odd is not None:
        # a violation only when both sides are id*k + component with different / too small k; another way of packing (id, component) into one
        # key is something this rule cannot judge
        ctx.error("mkdofpv: how (id, component) pairs are packed into search keys is not recognised (rule knows id*k + component)", fn, enc_odd)
        return bound
    ctx.check(okN and okH, "mkdofpv: table keys and requested keys are the same encoding id*k + component (k = 10 > 6 on both sides)", fn,
              None if okN and okH else {"requested": _show(rows[0][1].N), "table": _show(rows[0][1].H)})
    if not okH:
        pass                        # the table keys were not recognised: nothing can be said about the table they come from
    elif part_ok and part_odd is not None:
        ctx.error("mkdofpv: how the table is restricted to the requested set is not recognised (rule knows uset.loc[mksetpv(uset, 'p', nasset)])", fn,
                  {"regime": part_odd[0].describe(), "table": _show(part_odd[1])})
        return bound
    else:
        ctx.check(part_ok and part_seen, "mkdofpv: a DataFrame table is restricted to the requested set by mksetpv(uset, 'p', nasset) before the look-up "
                                         "(positions are positions within that set); an array table is searched only for nasset == 'p'", fn,
                  None if part_ok and part_seen else ({"regime": part_bad[0].describe(), "table": _show(part_bad[1])} if part_bad else "no partition found"))
    # the request is expanded (ids -> 6 DOF, 123456 -> digits) before the keys are built
    par = fn.args.args[2].arg
    good, odd = True, None
    for p, L, D in rows:
        c = _is_call(D, ("expanddof",), ["dof", "grids_only"]) if D is not None else None
        if c is None and D is not None and not same(strip(D), F.sym(par)):
            odd = D                 # expanded some other way: not something this rule can judge
        g = c.get("grids_only") if c else None
        if g is not None and app(g, "call:bool") and len(app(g, "call:bool")) == 1:
            g = app(g, "call:bool")[0]              # expanddof only looks at the truth of the flag
        if c and g is not None and not same(g, F.sym("grids_only")) and depends_on_sym(g, "grids_only") and same(c.get("dof"), F.sym(par)):
            odd = D                 # the flag is handed on in a converted form: nothing to prove
        good = good and bool(c) and same(c.get("dof"), F.sym(par)) and same(g, F.sym("grids_only"))
    if not good and odd is not None:
        ctx.error("mkdofpv: how the request is expanded is not recognised (rule knows expanddof(dof, grids_only))", fn, _show(odd))
    else:
        ctx.check(good, "mkdofpv: the requested keys are built from expanddof(dof, grids_only)", fn, None if good else _show(rows[0][2]))
    return bound


def _key_view(v):
    """(raw array, dtype it is converted to) for a search key that is a byte view of a converted array"""
    v = strip(v, names=())
    c = _is_call(v, ("_bytes_view",), ["arr", "dtype"])
    if c and c.get("arr") is not None and c.get("dtype") is not None:
        return c["arr"], c["dtype"]
    a = _is_call(v, ("view",), ["self", "dtype"])
    if a and a.get("self") is not None:
        v = a["self"]
    conv = app(v, "astype")
    if conv:
        return conv[0], conv[1]
    return None


def _r3_mat_intersect(ctx):
    fn, paths, reach = _lookup_paths(ctx, LOCATE, "mat_intersect")
    cache = {}
    looks = {id(p): _analyse_lookup(p, cache) for p in reach}
    bound = {id(p.sites[0][0]) for p in reach}
    # the keys that are searched and re-checked are byte views of both inputs in ONE common, lossless type
    same_ok, common_ok, det = True, True, None
    for p in reach:
        L = looks[id(p)]
        kh, kn = _key_view(L.base), _key_view(L.N)
        if kh is None or kn is None:
            ctx.error("mat_intersect: search keys not recognised as converted views of the inputs", L.node, {"haystack": _show(L.H), "needles": _show(L.N)})
            return bound
        (hraw, th), (nraw, tn) = kh, kn
        if not same(th, tn):
            same_ok = False
            det = det or sorted([_show(th), _show(tn)])
            continue
        c = split_call(th)
        good = False
        if c and c[0].split(".")[-1] in ("result_type", "promote_types") and len(c[1]) == 2 and not c[2]:
            want = [(F.fn("attr:dtype", hraw), F.fn("attr:dtype", nraw)), (hraw, nraw)]
            good = any((same(c[1][0], a) and same(c[1][1], b)) or (same(c[1][0], b) and same(c[1][1], a)) for a, b in want)
        elif not (c or same(th, F.fn("attr:dtype", hraw)) or same(th, F.fn("attr:dtype", nraw))):
            ctx.error("mat_intersect: common dtype of the search keys not recognised", L.node, _show(th))
            return bound
        if not good:
            common_ok = False
            det = det or _show(th)
    ctx.check(same_ok, "mat_intersect: haystack and needles are viewed in the same dtype before the search and the re-check", fn, None if same_ok else det)
    if same_ok:
        ctx.check(common_ok, "mat_intersect: that dtype is np.result_type of both inputs (a conversion that is exact for both; casting the "
                             "needles to the haystack type would make 3.9 match 3 and survive the re-check)", fn, None if common_ok else det)
    if not (same_ok and common_ok):
        return bound
    chain = _report_lookup(ctx, "mat_intersect", list(looks.values()))
    d1, d2 = fn.args.args[0].arg, fn.args.args[1].arg
    if chain:
        def sel_kind(x, L):
            """x as a row selector: 'match' - the index vector nonzero(exact-match mask)[0]; 'mismatch' - that of the complement; else None"""
            a = app(x, "idx")
            if a and const_of(a[1]) == 0 and app(a[0], "nonzero"):
                m = app(a[0], "nonzero")[0]
                return "match" if L.is_match(m) else ("mismatch" if L.is_mismatch(m) else None)
            if a and const_of(a[1]) not in (None, 0, -1) and app(a[0], "nonzero") and L.is_match(app(a[0], "nonzero")[0]):
                return "mismatch"           # nonzero() of a vector has one entry: any index but 0 is not the match index
            return None

        exact_ok, trim_ok, order_ok = True, True, True
        det, odd = None, None
        for p in reach:
            L = looks[id(p)]
            if not p.returned:
                continue
            r = _bare(p.ret)
            if not (isinstance(r, tuple) and len(r) == 2):
                ctx.error("mat_intersect: value returned after the look-up not recognised", p.ret_node, _show(r))
                return bound
            kv = _key_view(L.N)
            nraw = kv[0] if kv else L.N
            from_d1 = depends_on_sym(nraw, d1) and not depends_on_sym(nraw, d2)
            from_d2 = depends_on_sym(nraw, d2) and not depends_on_sym(nraw, d1)
            if not (from_d1 or from_d2):
                ctx.error("mat_intersect: cannot tell which input the requested keys come from", L.node, _show(nraw))
                return bound
            # r[0] indexes D1, r[1] indexes D2
            need_sel, hay_pos = (r[0], r[1]) if from_d1 else (r[1], r[0])
            uses_recheck = lambda x: bool(find(x, lambda y: L.is_eq(y) or L.is_ne(y)))
            ks = sel_kind(need_sel, L)
            if ks != "match":
                a = app(hay_pos, "idx")
                if sel_kind(hay_pos, L) == "match" and (same(need_sel, L.P) or (app(need_sel, "idx") and same(app(need_sel, "idx")[0], L.P))):
                    order_ok = False
                elif ks == "mismatch" or not uses_recheck(need_sel):
                    exact_ok = False            # the complement is kept, or the rows returned do not depend on the re-check at all
                else:
                    odd = (p, need_sel)
                    continue
                det = det or {"regime": p.describe(), "returned": _show(r)}
                continue
            a = app(hay_pos, "idx")
            kt = _selector_kind(a[1], L) if a and same(a[0], L.P) else None
            if kt == "match":
                continue
            if kt == "mismatch" or same(hay_pos, L.P) or not uses_recheck(hay_pos):
                trim_ok = False
                det = det or {"regime": p.describe(), "returned": _show(r)}
            else:
                odd = (p, hay_pos)
        if odd is not None and exact_ok and trim_ok and order_ok:
            ctx.error("mat_intersect: how the outputs are derived from the exact-match re-check is not recognised "
                      "(rule knows nonzero(match)[0] for the requested rows and positions[that index or the match mask])", odd[0].ret_node,
                      {"regime": odd[0].describe(), "output": _show(odd[1])})
            return bound
        ctx.check(exact_ok, "mat_intersect: only exact matches are kept (the rows of the requested keys where haystack[pv2] == needles)", fn, None if exact_ok else det)
        ctx.check(trim_ok, "mat_intersect: haystack positions are trimmed by the same match vector", fn, None if trim_ok else det)
        ctx.check(order_ok, "mat_intersect: the first output indexes D1 and the second D2 whichever input is searched (D1[pv1] == D2[pv2])", fn,
                  None if order_ok else det)
    # leaving without a search is right only when no row of D1 can equal a row of D2: different numbers of columns
    early = [p for p in paths if p.returned and not p.sites]
    bad, odd = None, None
    for p in early:
        cols = None
        for c, d, _ in p.atoms():
            a = app(c, "cmp:Eq") if c is not None else None
            if a and all(bool(app(x, "idx")) and head(app(x, "idx")[0]) == "attr:shape" and const_of(app(x, "idx")[1]) == 1 for x in a) \
                    and {depends_on_sym(x, d1) for x in a} == {True, False} and {depends_on_sym(x, d2) for x in a} == {True, False}:
                cols = d
        empty = isinstance(p.ret, tuple) and len(p.ret) == 2 and all(is_empty(x) for x in p.ret)
        if cols is True or (cols is False and not empty):
            bad = p
        elif cols is None:
            odd = p
    if bad is None and odd is not None:
        ctx.error("mat_intersect: a regime returns without the look-up for a reason this rule does not know", odd.ret_node, odd.describe())
    else:
        ctx.check(bad is None, "mat_intersect: the empty result without a search is returned only when the column counts differ", (bad.ret_node if bad else None) or fn,
                  None if bad is None else {"regime": bad.describe(), "returned": _show(bad.ret)})
    return bound


# ------------------------------------------------------------------------------------------------------------------
_FLIP = {"Gt": "Lt", "Lt": "Gt", "GtE": "LtE", "LtE": "GtE", "Eq": "Eq", "NotEq": "NotEq"}


def _elem_test(c):
    """(reduction, X, op, constant) for a test value that compares the elements (any / all) or the maximum of an array X with a constant"""
    for red in ("any", "all"):
        a = app(c, red)
        if a:
            u = unfn_m(a[0])
            if u and u[0].startswith("cmp:") and u[0][4:] in _FLIP and len(u[1]) == 2:
                x, y = u[1]
                if const_of(y) is not None and const_of(x) is None:
                    return red, x, u[0][4:], const_of(y)
                if const_of(x) is not None and const_of(y) is None:
                    return red, y, _FLIP[u[0][4:]], const_of(x)
            return None
    u = unfn_m(c)
    if u and u[0].startswith("cmp:") and u[0][4:] in _FLIP and len(u[1]) == 2:
        x, y = u[1]
        op = u[0][4:]
        if const_of(x) is not None:
            x, y, op = y, x, _FLIP[op]
        m = _is_call(x, ("max", "amax"), ["a"])
        if m and m.get("a") is not None and const_of(y) is not None:
            return "max", m["a"], op, const_of(y)
        m = _is_call(x, ("min", "amin"), ["a"])
        if m and m.get("a") is not None and const_of(y) is not None:
            return "min", m["a"], op, const_of(y)         # understood; says nothing about the largest element
    return None


def _exceeds(c):
    """(X, bound, negated) if the test value says `some element of X > bound` (negated: `no element ...`); X holds integers"""
    e = _elem_test(c)
    if e is None:
        return None
    red, x, op, k = e
    if red in ("any", "max"):
        if op == "Gt":
            return x, k, False
        if op == "GtE":
            return x, k - 1, False
    if red in ("all", "max"):
        # all(X <= k) / max(X) <= k: no element exceeds k
        if op == "LtE":
            return x, k, True
        if op == "Lt":
            return x, k - 1, True
    return None


def _some_exceed(p, arr, bound):
    """truth on path p of `some element of arr > bound` (None: not tested)"""
    for c, d, _ in p.atoms():
        e = _exceeds(_last_axis(c)) if c is not None else None
        if e and same(e[0], arr) and e[1] == bound:
            return d != e[2]
    return None


def _range_of(v):
    """(start, stop) of a value that is range(stop) / range(start, stop) / np.arange(...) with integer constants (step 1), else None"""
    v = strip(v)
    sc = split_call(v)
    if sc is None or sc[0] not in ("range", "np.arange") or sc[2] or not 1 <= len(sc[1]) <= 2:
        a = app(v, "comp")          # [k for k in range(..)] / list(range(..)) hold the same items
        if a and len(a) == 2 and same(a[0], F.sym("@v0")) and app(a[1], "gen") and len(app(a[1], "gen")) == 1:
            return _range_of(app(a[1], "gen")[0])
        if sc is not None and sc[0] in ("list", "tuple", "np.array", "np.asarray") and len(sc[1]) == 1 and not sc[2]:
            return _range_of(sc[1][0])
        return None
    ks = [const_of(x) for x in sc[1]]
    if any(k is None or k.denominator != 1 for k in ks):
        return None
    ks = [int(k) for k in ks]
    return (0, ks[0]) if len(ks) == 1 else (ks[0], ks[1])


def _cross_rows(v):
    """(X, R) when v holds the rows [x, r] for x in X (outer, in order) for r in R (inner, in order) - the id expansion - in one of the
    spellings:  [[x, r] for x in X for r in R]  (or the loop nest that appends the same rows);
    np.column_stack((np.repeat(X, len(R)), np.tile(R, len(X))))  (also np.c_[..], np.vstack / np.array of the two, transposed);
    itertools.product(X, R)"""
    gr = _grid_rows(v)
    if gr is not None:
        return (gr[1], gr[2]) if gr[0] == "rows" else None
    v = strip(v)
    a = app(v, "comp")
    if a and len(a) == 3:
        g1, g2 = app(a[1], "gen"), app(a[2], "gen")
        if g1 and g2 and len(g1) == 1 and len(g2) == 1 and same(a[0], F.fn("tuple", F.sym("@v0"), F.sym("@v1"))):
            return g1[0], g2[0]
        return None
    sc = split_call(v)
    if sc is not None and sc[0] in ("list", "tuple") and len(sc[1]) == 1 and not sc[2]:
        return _cross_rows(sc[1][0])
    if sc is not None and sc[0] in ("itertools.product", "product") and len(sc[1]) == 2 and not sc[2]:
        return sc[1][0], sc[1][1]
    tc = _two_columns(v)
    if tc is None:
        return None
    cols, nrows = tc
    rep = _is_call(cols[0], ("repeat",), ["a", "repeats"])
    til = _is_call(cols[1], ("tile",), ["A", "reps"])
    if not rep or not til or rep.get("a") is None or til.get("A") is None or "axis" in rep:
        return None
    X, R = rep["a"], til["A"]
    rng = _range_of(R)
    nR = _size_forms([R]) + ([F.const(rng[1] - rng[0])] if rng is not None else [])
    nX = _size_forms([X, strip(X)])
    n_ok = any(same(rep.get("repeats"), n) for n in nR)
    m_ok = any(same(til.get("reps"), n) for n in nX)
    if nrows is not None and not any(same(nrows, a * b) for a in nX for b in nR):
        return None                 # a buffer whose row count is not (number of ids) x (number of components)
    return (X, R) if n_ok and m_ok else None


def _axis_vector(x):
    """(X, axis) when the value x is the vector X laid along one axis of a two-dimensional broadcast: axis 0 for a column vector
    (X[:, None], X.reshape(-1, 1), np.expand_dims(X, 1), np.atleast_2d(X).T), axis 1 for a row vector (X itself, X[None, :],
    X.reshape(1, -1), np.atleast_2d(X)); None otherwise"""
    i = app(x, "idx")
    if i and len(i) == 2:
        parts = app(i[1], "tuple") or [i[1]]
        kinds = ["new" if sym_of(q) in ("None", "np.newaxis") else ("all" if _full_slice(q) or sym_of(q) == "Ellipsis" else None) for q in parts]
        if kinds == ["all", "new"]:
            return i[0], 0
        if kinds in (["new", "all"], ["new"]):
            return i[0], 1
        return None
    c = _is_call(x, ("reshape",), ["a", "s0", "s1"])
    if c and c.get("a") is not None:
        shp = [c.get("s0"), c.get("s1")]
        if shp[1] is None and shp[0] is not None and app(shp[0], "tuple") and len(app(shp[0], "tuple")) == 2:
            shp = list(app(shp[0], "tuple"))
        ks = [const_of(z) if z is not None else None for z in shp]
        if ks == [-1, 1]:
            return c["a"], 0
        if ks == [1, -1]:
            return c["a"], 1
        return None
    c = _is_call(x, ("expand_dims",), ["a", "axis"])
    if c and c.get("a") is not None and const_of(c.get("axis")) in (0, 1, -1):
        return c["a"], (0 if const_of(c["axis"]) in (1, -1) else 1)
    t = app(x, "attr:T")
    if t and _is_call(t[0], ("atleast_2d",), ["a"]):
        return _is_call(t[0], ("atleast_2d",), ["a"])["a"], 0
    c = _is_call(x, ("atleast_2d",), ["a"])
    if c and c.get("a") is not None:
        return c["a"], 1
    if unfn_m(x) is None or head(x) in ("call:np.arange", "call:range", "astype", "call:np.ravel", "call:.ravel", "call:.reshape"):
        return x, 1                 # a plain vector broadcasts along the last axis
    return None


def _grid_rows(v):
    """the id x component product written with broadcasting: ("rows", X, R) when v holds the rows [x, r] for x in X (outer) for r in R (inner);
    ("wrong", text) when it recognisably holds them component-major; None when v is not of these forms.  Forms: a buffer of shape
    (len(X), len(R), 2) whose planes [..., 0] / [..., 1] are stored from a column vector of X and a row vector of R, reshaped to (-1, 2);
    np.meshgrid(X, R, indexing="ij") raveled into two columns; np.broadcast_arrays(column of X, R) raveled into two columns"""
    v0 = v
    v = strip(v)
    # planes of a 3-axis buffer
    written, x = {}, v
    while app(x, "upd"):
        base, ix, val = app(x, "upd")
        e = app(ix, "tuple")
        if not (e and len(e) in (2, 3) and const_of(e[-1]) is not None and all(_full_slice(q) or sym_of(q) == "Ellipsis" for q in e[:-1])):
            written = None
            break
        written.setdefault(int(const_of(e[-1])), val)
        x = base
    a = app(x, "alloc")
    shp = app(a[1], "tuple") if a else None
    if written and shp and len(shp) == 3 and const_of(shp[2]) == 2 and len(written) == 2:
        c0, c1 = written.get(0, written.get(-2)), written.get(1, written.get(-1))
        if c0 is None or c1 is None or not app(v0, "call:.reshape"):
            return None
        r = app(v0, "call:.reshape")[1:]
        r = list(app(r[0], "tuple")) if len(r) == 1 and app(r[0], "tuple") else list(r)
        if [const_of(z) for z in r] != [-1, 2]:
            return None
        a0, a1 = _axis_vector(c0), _axis_vector(c1)
        if a0 is None or a1 is None:
            return None
        if (a0[1], a1[1]) == (0, 1):
            return "rows", a0[0], a1[0]
        if (a0[1], a1[1]) == (1, 0):
            return "wrong", "the ids vary along the inner axis of the buffer: component-major rows"
        return None
    tc = _two_columns(v)
    if tc is None:
        return None
    cols = [strip(c) for c in tc[0]]
    picks = [app(c, "idx") for c in cols]
    if all(p and len(p) == 2 and const_of(p[1]) is not None for p in picks) and same(picks[0][0], picks[1][0]):
        ks = [int(const_of(p[1])) for p in picks]
        g = picks[0][0]
        mg = _is_call(g, ("meshgrid",), ["x", "y"])
        if mg and mg.get("x") is not None and mg.get("y") is not None and set(mg) <= {"x", "y", "indexing"}:
            ij = sym_of(mg.get("indexing")) == "'ij'"
            if ks == [0, 1]:
                return ("rows", mg["x"], mg["y"]) if ij else ("wrong", "np.meshgrid with the default 'xy' indexing raveled row by row: component-major rows")
            return None
        ba = _is_call(g, ("broadcast_arrays",), ["a", "b"])
        if ba and ba.get("a") is not None and ba.get("b") is not None and set(ba) == {"a", "b"} and ks == [0, 1]:
            a0, a1 = _axis_vector(ba["a"]), _axis_vector(ba["b"])
            if a0 and a1 and (a0[1], a1[1]) == (0, 1):
                return "rows", a0[0], a1[0]
            if a0 and a1 and (a0[1], a1[1]) == (1, 0):
                return "wrong", "the ids vary along the inner axis of the broadcast: component-major rows"
    return None


def _two_columns(v):
    """((column 0, column 1), row count or None) when v is a two-column array given by its columns:
    np.column_stack((c0, c1)) / np.c_[c0, c1] / np.stack((c0, c1), axis=1) / np.vstack((c0, c1)).T / np.array([c0, c1]).T, or a buffer
    np.empty / zeros / ... ((rows, 2)) both of whose columns were stored (`B[:, 0] = c0; B[:, 1] = c1`, either order, the last store of a
    column counts; nothing of the initial content is left)"""
    v = strip(v)
    sc = split_call(v)
    cols = None
    if sc is not None and sc[0] in ("np.column_stack",) and len(sc[1]) == 1 and not sc[2]:
        cols = app(sc[1][0], "tuple")
    if sc is not None and sc[0] in ("np.stack",) and len(sc[1]) == 1 and const_of(sc[2].get("axis")) in (1, -1) and len(sc[2]) == 1:
        cols = app(sc[1][0], "tuple")
    i = app(v, "idx")
    if i and sym_of(i[0]) == "np.c_":
        cols = app(i[1], "tuple")
    t = app(v, "attr:T") or (sc[1] if sc is not None and sc[0] in ("np.transpose", ".transpose") and len(sc[1]) == 1 and not sc[2] else None)
    if t:
        st = split_call(t[0])
        if st is not None and st[0] in ("np.vstack", "np.array", "np.stack", "np.asarray") and len(st[1]) == 1 and not st[2]:
            cols = app(st[1][0], "tuple")
        elif app(t[0], "tuple"):
            cols = app(t[0], "tuple")           # np.array([rep, til]).T : the conversion of a list is the list
    if cols:
        return (tuple(cols), None) if len(cols) == 2 else None
    # column stores into a buffer
    written = {}
    x = v
    while app(x, "upd"):
        base, ix, val = app(x, "upd")
        j = None
        e = app(ix, "tuple")
        if e and len(e) == 2 and (same(e[0], F.fn("slice", NONE, NONE, NONE)) or sym_of(e[0]) == "Ellipsis") and const_of(e[1]) is not None:
            j = const_of(e[1])
        if j is None:
            return None
        written.setdefault(int(j), val)          # walking from the last store backwards: the first one met is the one that counts
        x = base
    a = app(x, "alloc")
    shp = app(a[1], "tuple") if a else None
    if not written or not shp or len(shp) != 2 or const_of(shp[1]) != 2:
        return None
    c0, c1 = written.get(0, written.get(-2)), written.get(1, written.get(-1))
    if c0 is None or c1 is None or len(written) != 2:
        return None
    return (c0, c1), shp[0]


def _cross_rows_wrong(v):
    """text when v is recognisably a *different arrangement* of the id x component product: component-major row order, or the two columns
    exchanged (rows of one id must be contiguous, id in column 0)"""
    gr = _grid_rows(v)
    if gr is not None:
        return gr[1] if gr[0] == "wrong" else None
    v = strip(v)
    a = app(v, "comp")
    if a and len(a) == 3:
        g1, g2 = app(a[1], "gen"), app(a[2], "gen")
        if g1 and g2 and len(g1) == 1 and len(g2) == 1 and same(a[0], F.fn("tuple", F.sym("@v1"), F.sym("@v0"))):
            return "rows [inner, outer]: the loops / columns are exchanged"
        e = app(a[0], "tuple")
        if g1 and g2 and len(g1) == 1 and len(g2) == 1 and e and len(e) == 2:
            return "the rows are not [outer item, inner item]: " + _show(a[0])
        return None
    tc = _two_columns(v)
    if tc is not None:
        cols = tc[0]
        if _is_call(cols[0], ("tile",), ["A", "reps"]) and _is_call(cols[1], ("repeat",), ["a", "repeats"]):
            return "np.tile in the id column, np.repeat in the component column: component-major rows"
    return None


_REARR = ("call:sorted", "call:set", "call:frozenset", "call:reversed", "call:np.unique", "call:np.sort", "call:dict.fromkeys", "call:np.flip",
          "call:np.flipud", "call:.sort", "call:np.flip", "call:collections.Counter", "call:Counter", "call:heapq.nsmallest", "call:heapq.nlargest")
_KEEP_ORDER = ("call:list", "call:tuple", "call:iter", "astype", "call:enumerate", "call:np.nditer", "call:.tolist", "call:.copy", "call:np.copy",
               "call:str.strip", "call:.strip")


def _all_items(x):
    """x without the conversions, reshapes and axis insertions that keep every item in its order (x.ravel(), x.reshape(..), x[:, None],
    x[None, :], x[...], np.expand_dims(x, k))"""
    while True:
        x = strip(x)
        i = app(x, "idx")
        if i and len(i) == 2:
            parts = app(i[1], "tuple") or [i[1]]
            if all(sym_of(q) in ("None", "Ellipsis", "np.newaxis") or (app(q, "slice") and all(sym_of(z) == "None" for z in app(q, "slice"))) for q in parts):
                x = i[0]
                continue
        c = _is_call(x, ("expand_dims", "atleast_2d", "atleast_1d"), ["a", "axis"])
        if c and c.get("a") is not None:
            x = c["a"]
            continue
        return x


def _iteration_source(it):
    """what a loop / generator iterates over, looking through wrappers that hand the items on one by one in their order (list, tuple, iter,
    enumerate, a conversion, map(f, X), X[:]):  ("source", X) - the items of X in the order X has them;  ("rearranged", X) - a sorted /
    de-duplicated / reversed arrangement of X's items (sorted, set, reversed, np.unique, dict.fromkeys, X[::-1], ...);  ("unknown", value)"""
    x = it
    for _ in range(12):
        x = strip(x)
        h = head(x)
        if h in _REARR:
            return "rearranged", x
        if h in _KEEP_ORDER and app(x, h):
            x = app(x, h)[0]
            continue
        if h == "call:map" and len(app(x, h)) == 2:
            x = app(x, h)[1]                   # map(f, X): one result per item of X, in X's order
            continue
        i = app(x, "idx")
        sl = app(i[1], "slice") if i and len(i) == 2 else None
        if sl and len(sl) == 3 and sym_of(sl[0]) == "None" and sym_of(sl[1]) == "None":
            if sym_of(sl[2]) == "None" or const_of(sl[2]) == 1:
                x = i[0]                       # X[:] / X[::1]
                continue
            if const_of(sl[2]) == -1:
                return "rearranged", x         # X[::-1]
        break
    if head(x) is None and sym_of(x) is None:
        return "unknown", x
    return "source", x


_SIZE_HEADS = ("attr:size", "attr:shape", "call:len", "call:np.size", "call:np.shape")


def _size_of(of):
    """predicate: the value is an attribute that tells the number of items (size / shape / len) of an array recognised by `of`"""
    def pred(v):
        u = unfn_m(v)
        return u is not None and u[0] in _SIZE_HEADS and len(u[1]) == 1 and not isinstance(u[1][0], str) and of(u[1][0])
    return pred


def _cmp_const(c, d, is_target, mentions=None):
    """a path test (canonical value c, truth d) as a predicate on the integer quantity recognised by is_target:  `lambda n: bool`;  None when
    the test does not mention the quantity;  "odd" when it mentions it in a form this reader does not know.  Known: the quantity compared with
    an integer constant (==, !=, <, <=, >, >= - canonical forms cmp:Eq / cmp:Gt), the bare quantity as a truth value"""
    if c is None:
        return None
    if is_target(c):
        return (lambda n: n != 0) if d else (lambda n: n == 0)
    for op in ("cmp:Eq", "cmp:Gt"):
        a = app(c, op)
        if a and len(a) == 2:
            for x, k, swapped in ((a[0], a[1], False), (a[1], a[0], True)):
                kk = const_of(k)
                if is_target(x) and kk is not None:
                    if op == "cmp:Eq":
                        return (lambda n, kk=kk: n == kk) if d else (lambda n, kk=kk: n != kk)
                    if not swapped:         # quantity > k
                        return (lambda n, kk=kk: n > kk) if d else (lambda n, kk=kk: n <= kk)
                    return (lambda n, kk=kk: kk > n) if d else (lambda n, kk=kk: kk <= n)
    if find(c, mentions or is_target):
        return "odd"
    return None


def _emptiness(p, of):
    """what the tests of path p establish about the number of items of the array recognised by `of` (a predicate on values):
    "empty" - every size the tests admit is 0;  "non-empty" - some admitted size is > 0;  "untested" - no test looks at the size;
    "odd" - a test looks at it in a form this reader does not know.  Sizes are tried over 0..4"""
    def is_size(v):
        u = unfn_m(v)
        if u is None:
            return False
        if u[0] in ("attr:size", "call:len", "call:np.size") and len(u[1]) == 1:
            return of(u[1][0])
        return u[0] == "idx" and const_of(u[1][1]) == 0 and bool(app(u[1][0], "attr:shape")) and of(app(u[1][0], "attr:shape")[0])
    preds = [_cmp_const(c, d, is_size, _size_of(of)) for c, d, _ in p.atoms()]
    if "odd" in preds:
        return "odd"
    preds = [f for f in preds if f is not None]
    if not preds:
        # no test on the size: a test on the array's content may stand for one (x.tolist() == []) - not something this reader can judge
        return "odd" if any(c is not None and find(c, of) for c, _, _ in p.atoms()) else "untested"
    sizes = [n for n in range(5) if all(f(n) for f in preds)]
    return "empty" if sizes == [0] else ("non-empty" if any(n > 0 for n in sizes) else "empty")


def r4_expanddof(ctx):
    fn = raw_func(ctx, N2P, "expanddof")
    dofp = fn.args.args[0].arg
    gop = fn.args.args[1].arg if len(fn.args.args) > 1 else "grids_only"
    # evaluated once per value of the flag (pinned to 1 / 0): however the flag selects the component list - a branch, a conditional expression,
    # bool() / int() / arithmetic on it - each evaluation sees one constant list
    paths, flag_of = [], {}
    for g in (True, False):
        _, ps = explore(ctx, N2P, "expanddof", pinned={gop: F.const(int(g))})
        for q in ps:
            flag_of[id(q)] = g
        paths += ps
    rets = [p for p in paths if p.returned]
    kinds = []
    for p in rets:
        v = None if p.ret is None or (isinstance(p.ret, tuple) and p.ret != ()) else (p.ret if p.ret == () else strip(p.ret))
        if v is not None and not is_unknown(v) and v != () and _grid_rows(p.ret) is not None:
            v = p.ret                   # a broadcast grid reshaped to rows: the final reshape is part of the form
        if v is None or is_unknown(v):
            k = "unknown"
        elif is_empty(v):
            k = "empty"
        elif const_of(v) is not None or head(v) == "alloc":
            k = "filled"                # np.zeros / np.ones / np.empty of a shape that is not known to be empty, nothing stored into it
        elif find(v, lambda x: head(x) == "call:str"):
            k = "digits"
        elif _cross_rows(v) is not None:
            k = "ids"
        elif _cross_rows_wrong(v) is not None:
            k = "ids-wrong"
        elif sym_of(v) == dofp:
            k = "as-is"
        else:
            k = "unknown"
        kinds.append((p, k, v))
    unk = _first(kinds, lambda t: t[1] == "unknown")
    if unk is not None:
        ctx.error("expanddof: returned value not recognised", unk[0].ret_node, {"regime": unk[0].describe(), "returned": _show(unk[0].ret)})
        return
    digits = [t for t in kinds if t[1] == "digits"]
    if not ctx.check(bool(digits), "expanddof has a digit-expansion arm (str(component) -> digits)", fn):
        return
    # "in the order requested": the expansion walks the request rows in their order and, per row, the characters of str(component) in their order -
    # not a sorted / de-duplicated / reversed rearrangement of either
    for p, k, v in digits:
        comps = find(v, lambda x: head(x) == "comp")
        if not comps:
            ctx.error("expanddof: form of the digit expansion (rule reads a comprehension / append loop over the rows and over str(component))", p.ret_node, _show(v))
            continue
        gens = [app(a, "gen") for a in (app(comps[0], "comp") or [])[1:]]
        its = [g[0] for g in gens if g]
        verdict, shown = None, None
        for it in its:
            kind, x = _iteration_source(it)
            if kind == "source" and (head(x) == "call:str" or sym_of(x) == dofp):
                continue
            if kind == "rearranged":
                verdict, shown = False, it
                break
            if verdict is None:
                verdict, shown = "unknown", it
        if verdict == "unknown":
            ctx.error("expanddof: iteration order of the digit expansion not recognised", p.ret_node, _show(shown))
        else:
            ctx.check(verdict is None, "expanddof: the digit expansion walks the request rows and the digits of each component in the order given (rows "
                                       "[id, c] in the order requested)", p.ret_node, None if verdict is None else {"iterates over": _show(shown)})
    # the digit expansion is refused when a digit exceeds 6
    bad, unclear = None, None
    for p, k, v in digits:
        t = _some_exceed(p, _col(v, 1), 6)
        if t is False:
            continue
        # a test on the expanded value that is not an understood `some element of X > c` test: the rule cannot tell what it refuses
        looks_at = [c for c, d, _ in p.atoms() if c is not None and find(c, lambda x: head(x) == "call:str") and _elem_test(_last_axis(c)) is None]
        if t is None and looks_at:
            unclear = (p, looks_at[0])
        else:
            bad = p
    guard = any(p.raised is not None and any(c is not None and _exceeds(_last_axis(c)) and _exceeds(_last_axis(c))[1] == 6 and find(c, lambda x: head(x) == "call:str")
                                             and d != _exceeds(_last_axis(c))[2] for c, d, _ in p.atoms()) for p in paths)
    if bad is None and unclear is not None:
        ctx.error("expanddof: test on the expanded components not recognised", unclear[0].ret_node, _show(unclear[1]))
    else:
        ctx.check(bad is None and guard, "expanddof: expanded components > 6 are refused before returning", digits[0][0].ret_node,
                  None if bad is None and guard else {"regime": (bad or digits[0][0]).describe()})
    # the early-return arm is taken only when no component exceeds 6
    asis = [t for t in kinds if t[1] == "as-is"]
    bad, odd = None, None
    for t in asis:
        if _emptiness(t[0], lambda x: sym_of(_all_items(x)) == dofp) == "empty":
            continue                # the request itself, reshaped, returned for an empty request: there is no component
        cols = [_col(t[0].ret, 1), _col(t[2], 1)]
        # established: a test of the path says that no component exceeds some bound <= 6
        tests = [(c, d, _exceeds(c)) for c, d in ((_last_axis(c), d) for c, d, _ in t[0].atoms() if c is not None) if any(contains(c, x) for x in cols)]
        if any(e is not None and any(same(e[0], x) for x in cols) and e[1] <= 6 and (d != e[2]) is False for c, d, e in tests):
            continue
        if any(e is None and _elem_test(c) is None for c, d, e in tests):
            odd = odd or t          # the components are tested in a form this rule does not read
        else:
            bad = bad or t
    if bad is None and odd is not None:
        ctx.error("expanddof: test on the components of the request not recognised (rule knows max / any / all of a comparison with a constant)",
                  odd[0].ret_node, {"regime": odd[0].describe()})
    else:
        ctx.check(bool(asis) and bad is None, "expanddof: unexpanded return only when every component <= 6", (bad[0].ret_node if bad else None) or fn,
                  None if bad is None else {"regime": bad[0].describe()})
    # 1-D ids: 1..6 or 0..6 by grids_only
    ids = [t for t in kinds if t[1] == "ids"]
    good = bool(ids)
    det = None
    for p, k, v in kinds:
        if k == "ids-wrong":
            good = False
            det = det or {"regime": p.describe(), "returned": _show(v), "arrangement": _cross_rows_wrong(v)}
    seen = set()
    odd = None
    for p, k, v in ids:
        X, R = _cross_rows(v)
        ok = sym_of(_all_items(X)) == dofp
        g = flag_of[id(p)]
        if _range_of(R) is None:
            odd = odd or (p, R)         # the component list is not a constant range: nothing to compare
            continue
        if not ok and depends_on_sym(X, dofp) and _iteration_source(X)[0] != "rearranged":
            odd = odd or (p, X)         # ids taken from the request in a form this rule does not know (a selection, a computed array)
            continue
        seen.add(g)
        if not (ok and _range_of(R) == ((1, 7) if g else (0, 7))):
            good = False
            det = det or {"regime": p.describe(), "grids_only": g, "returned": _show(v)}
    if odd is not None and good:
        ctx.error("expanddof: the ids / the component list of the id expansion are not recognised (rule knows the request itself, flattened or "
                  "reshaped, and range / np.arange with constant bounds for each value of the flag)", odd[0].ret_node,
                  {"regime": odd[0].describe(), "grids_only": flag_of[id(odd[0])], "ids or components": _show(odd[1])})
    else:
        ctx.check(good and seen == {True, False}, "expanddof: 1-D input expands every id, in request order, to the rows [id, c] for c = 1..6 (grids_only) or 0..6", fn, det)
    # an empty request: no rows
    filled = [t for t in kinds if t[1] == "filled"]
    ctx.check(not filled, "expanddof: no regime returns a constant-filled array (an empty request gives an array without rows)",
              (filled[0][0].ret_node if filled else None) or fn, None if not filled else {"regime": filled[0][0].describe(), "returned": _show(filled[0][2])})
    # ... and only an empty request gives no rows: the regime that returns an array without rows is entered on a test that admits only size 0
    is_req = lambda x: sym_of(_all_items(x)) == dofp
    bad, odd = None, None
    for p, k, v in kinds:
        if k != "empty":
            continue
        e = _emptiness(p, is_req)
        if e == "odd":
            odd = p
        elif e != "empty":
            bad = (p, e)
    if bad is None and odd is not None:
        ctx.error("expanddof: a test on the size of the request is not recognised (rule knows size / len / shape[0] compared with a constant)", odd.ret_node,
                  {"regime": odd.describe()})
    else:
        ctx.check(bad is None, "expanddof: an array without rows is returned only when the tests taken establish that the request is empty", (bad[0].ret_node if bad else None) or fn,
                  None if bad is None else {"regime": bad[0].describe(), "size of the request on this path": bad[1],
                                            "consequence": "a request with entries is answered with no DOF at all"})
    # the id expansion treats every entry of the request as an id: right only for a request without a component column (0-d, 1-D, or one column).
    # Decided over the finite world (ndim, number of columns) in {0, 1} u {2} x {1, 2, 3}: a world is on the path when every test on ndim /
    # shape[1] the path took has the truth it took there (a test on shape[1] cannot be taken for ndim < 2: it raises)
    def is_ndim(x):
        u = unfn_m(x)
        if u is None:
            return False
        if u[0] in ("attr:ndim", "call:np.ndim") and len(u[1]) == 1:
            return is_req(u[1][0])
        return u[0] == "call:len" and len(u[1]) == 1 and bool(app(u[1][0], "attr:shape")) and is_req(app(u[1][0], "attr:shape")[0])

    def is_ncols(x):
        i = app(x, "idx")
        return bool(i) and const_of(i[1]) in (1, -1) and bool(app(i[0], "attr:shape")) and is_req(app(i[0], "attr:shape")[0])

    bad, odd = None, None
    for p, k, v in ids:
        X, _ = _cross_rows(v)
        if sym_of(_all_items(X)) != dofp:
            continue
        tests, unread = [], None
        for c, d, node in p.atoms():
            fn_, fc = _cmp_const(c, d, is_ndim), _cmp_const(c, d, is_ncols)
            shapeish = c is not None and find(c, lambda y: head(y) in ("attr:shape", "attr:ndim", "call:np.shape", "call:np.ndim") and is_req(unfn_m(y)[1][0]))
            if fn_ == "odd" or fc == "odd" or (fn_ is None and fc is None and shapeish):
                unread = node
            tests.append((fn_ if callable(fn_) else None, fc if callable(fc) else None))
        if unread is not None:
            odd = (p, unread)           # a test on the shape this reader does not know may be the one that establishes the fact
            continue
        worlds = [(nd, nc) for nd in (0, 1) for nc in (None,)] + [(2, nc) for nc in (1, 2, 3)]
        on_path = [(nd, nc) for nd, nc in worlds
                   if all((f is None or f(nd)) and (g is None or (nc is not None and g(nc))) for f, g in tests)]
        wrong = [w for w in on_path if w[0] == 2 and w[1] > 1]
        if wrong:
            bad = (p, wrong[0])
    if bad is None and odd is not None:
        ctx.error("expanddof: a test on the shape of the request is not recognised (rule knows ndim and shape[1] compared with constants)", odd[1],
                  {"regime": odd[0].describe()})
    else:
        ctx.check(bad is None, "expanddof: every entry of the request is expanded as an id only when the tests taken establish that the request has no "
                               "component column (ndim < 2 or one column)", (bad[0].ret_node if bad else None) or fn,
                  None if bad is None else {"regime": bad[0].describe(), "admitted (ndim, columns)": list(bad[1]),
                                            "consequence": "[[id, 123456]] is expanded as the two ids `id` and 123456"})


def r5_index2slice(ctx):
    """a[index2slice(pv)] == a[pv]: Python reads a negative slice stop from the end, so the exclusive stop last+step of a descending run has
    to become None exactly when it is negative (stop == 0 is an ordinary stop: element 0 is not selected)"""
    fn, paths = explore(ctx, LOCATE, "index2slice")
    pv = F.sym(fn.args.args[0].arg)
    first, last = F.fn("idx", pv, F.const(0)), F.fn("idx", pv, F.const(-1))
    steps = [F.fn("idx", F.fn("call:np.diff", pv), F.const(0)), F.fn("idx", pv, F.const(1)) - first]
    runs, singles, empties = [], [], []
    for p in paths:
        c = split_call(p.ret) if p.returned and not isinstance(p.ret, tuple) else None
        if c and c[0] == "slice" and not c[2] and 1 <= len(c[1]) <= 3:
            # slice(stop) / slice(start, stop) / slice(start, stop, step): one triple; a step of None is no step
            a, b, st = {1: [NONE, c[1][0], NONE], 2: list(c[1]) + [NONE], 3: list(c[1])}[len(c[1])]
            if sym_of(st) != "None":
                runs.append((p, [a, b, st]))
            elif sym_of(a) != "None" and const_of(a) is None:
                singles.append((p, [a, b]))
            # a slice without start and step (slice(0), slice(None, 0)) is the answer for an empty vector: not a run, not a single entry
            elif const_of(b) == 0 and (sym_of(a) == "None" or const_of(a) == 0):
                empties.append(p)
    if not runs or not singles:
        raise AnchorError("index2slice: slice(start, stop, step) / slice(start, stop) returns")

    def on(p, v):
        """does a test of path p look at the value v"""
        return [node for c, _, node in p.atoms() if c is not None and contains(c, v)]

    # evenly spaced runs only
    bad, odd = None, None
    for p, (a, b, st) in runs:
        good = same(a, first) and any(same(st, x) for x in steps) and (p.decided(F.fn("cmp:Eq", st, F.const(0))) is False or p.decided(st) is True)
        reg = None
        for c, d, _ in p.atoms():
            x = app(c, "all") if c is not None else None
            if x and _cmp_pair(x[0], "Eq", F.fn("call:np.diff", pv), st):
                reg = d
            x = app(c, "any") if c is not None else None
            if x and _cmp_pair(x[0], "NotEq", F.fn("call:np.diff", pv), st):
                reg = not d
        if not good or reg is False:
            bad = p
        elif reg is None:
            looks = [c for c, _, _ in p.atoms() if c is not None and contains(c, F.fn("call:np.diff", pv)) and not same(c, F.fn("cmp:Eq", *sorted([st, F.const(0)], key=lambda v: repr(vkey(v)))))]
            understood = [c for c in looks if (app(c, "any") or app(c, "all")) and head((app(c, "any") or app(c, "all"))[0]) in ("cmp:Eq", "cmp:NotEq")]
            if not looks or understood:
                bad = p             # no test of the differences, or a test that is not `all equal`
            else:
                odd = p
    if bad is None and odd is not None:
        ctx.error("index2slice: test for even spacing not recognised", odd.ret_node, odd.describe())
    else:
        ctx.check(bad is None, "index2slice: slice(pv[0], stop, step) is returned only for evenly spaced entries (all differences == step != 0)",
                  (bad.ret_node if bad else None) or fn, None if bad is None else {"regime": bad.describe(), "returned": _show(bad.ret)})
    # stop of a run: last + step, None exactly when that is negative
    def bound_on(p, S):
        """what the tests of path p say about the integer S: ('<=', m) / ('>=', m) from comparisons of S with a constant, else None"""
        out = None
        for c, d, _ in p.atoms():
            g = app(c, "cmp:Gt") if c is not None else None
            if not g:
                continue
            if same(g[1], S) and const_of(g[0]) is not None:          # k > S
                k = const_of(g[0])
                out = ("<=", k - 1) if d else (">=", k)
            elif same(g[0], S) and const_of(g[1]) is not None:        # S > k
                k = const_of(g[1])
                out = (">=", k + 1) if d else ("<=", k)
        return out

    bad, odd = None, None
    for p, (a, b, st) in runs:
        S = last + st
        known = bound_on(p, S)
        if sym_of(b) == "None":
            good = known == ("<=", -1)
        elif same(b, S):
            good = known == (">=", 0)
        else:
            good, known = False, ("other stop", _show(b))
        if not good:
            if known is None and on(p, S):
                odd = p
            else:
                bad = (p, known)
    if bad is None and odd is not None:
        ctx.error("index2slice: test on the stop of a run not recognised", odd.ret_node, odd.describe())
    else:
        ctx.check(bad is None, "index2slice: the stop of a run is last + step, replaced by None exactly when it is negative (0 stays 0)",
                  (bad[0].ret_node if bad else None) or fn,
                  None if bad is None else {"regime": bad[0].describe(), "returned": _show(bad[0].ret), "the tests say about stop": [str(x) for x in (bad[1] or ["nothing"])],
                                            "consequence": "slice(2, None, -1) also selects element 0 for pv = [2, 1]; a negative stop counts from the end"})
    # single entry: slice(i, i + 1), None exactly when i + 1 == 0
    bad = None
    for p, (a, b) in singles:
        z = p.decided(F.fn("cmp:Eq", a + 1, F.const(0)))
        if z is None:
            z = p.decided(F.fn("cmp:Eq", a, F.const(-1)))
        if z is None and p.decided(a + 1) is not None:
            z = not p.decided(a + 1)        # `if not stop:` - the stop tested by its truth value
        orn = app(b, "bool:Or")         # `stop or None`
        good = same(a, first) and ((sym_of(b) == "None" and z is True) or (same(b, a + 1) and z is False)
                                   or (bool(orn) and len(orn) == 2 and same(orn[0], a + 1) and sym_of(orn[1]) == "None"))
        if not good:
            bad = p
    ctx.check(bad is None, "index2slice: a single entry i gives slice(i, i + 1), with stop None exactly when i == -1", (bad.ret_node if bad else None) or fn,
              None if bad is None else {"regime": bad.describe(), "returned": _show(bad.ret)})
    # the slice that selects nothing: only for a vector without entries
    bad, odd = None, None
    for p in empties:
        e = _emptiness(p, lambda x: sym_of(strip(x)) == fn.args.args[0].arg)
        if e == "odd":
            odd = p
        elif e != "empty":
            bad = (p, e)
    if bad is None and odd is not None:
        ctx.error("index2slice: a test on the number of entries is not recognised (rule knows size / len / shape[0] compared with a constant)", odd.ret_node,
                  odd.describe())
    else:
        ctx.check(bad is None, "index2slice: the slice that selects nothing (slice(0)) is returned only when the tests taken establish that pv has no entry",
                  (bad[0].ret_node if bad else None) or fn,
                  None if bad is None else {"regime": bad[0].describe(), "number of entries on this path": bad[1], "returned": _show(bad[0].ret)},
                  nontrivial=bool(empties))


# ------------------------------------------------------------------------------------------------- C18-R6 index vector -> mask / complement
_R6_CLASSES = ("no entries", "non-negative indices", "from-the-end (negative) indices", "boolean mask")


def _r6_world():
    """every index vector a[pv] accepts on an axis of length n = 4, 5 with at most two entries (values -n..n-1, repeats and the two spellings
    k / k - n of one position included) and every boolean mask of length n -> (class, n, kind, entries)"""
    import itertools
    for n in (4, 5):
        yield "no entries", n, "i", []
        for L in (1, 2):
            for t in itertools.product(range(-n, n), repeat=L):
                yield ("from-the-end (negative) indices" if min(t) < 0 else "non-negative indices"), n, "i", list(t)
        for t in itertools.product((False, True), repeat=n):
            yield "boolean mask", n, "b", list(t)


def _r6_selected(n, kind, entries):
    """the positions a[pv] addresses on an axis of length n"""
    if kind == "b":
        return {i for i, t in enumerate(entries) if t}
    return {k % n for k in entries}


def r6_index_vectors(ctx):
    """flippv(pv, n) is the ascending vector of the positions 0..n-1 that a[pv] does NOT address, index2bool(pv, n) the length-n mask of the
    positions it does address - for every index vector numpy accepts: integers count from the end when negative, a boolean mask selects
    where it is True.  Decided by running the function, as written, on a finite world with a model of 1-d numpy arrays
    (verifier/c18_world.py): complementing / testing the *values* of pv instead of the positions it addresses differs on pv = [-1]."""
    from .c18_world import ArrayFolder, Arr, trusted
    want = {
        "flippv": ("i", lambda n, sel: [i for i in range(n) if i not in sel], "the ascending positions of 0..n-1 that a[pv] does not address"),
        "index2bool": ("b", lambda n, sel: [i in sel for i in range(n)], "the mask of length n that is True exactly at the positions a[pv] addresses"),
    }
    for qual, (kind, expect, text) in want.items():
        fn = raw_func(ctx, LOCATE, qual)
        if len(fn.args.posonlyargs + fn.args.args) < 2:
            raise AnchorError(f"{qual}(pv, n): two positional parameters")
        folder = ArrayFolder(ctx, LOCATE)
        wrong, undecided, seen = {}, {}, {}
        for cls, n, k, entries in _r6_world():
            seen[cls] = seen.get(cls, 0) + 1
            if cls in wrong:
                continue
            exp = expect(n, _r6_selected(n, k, entries))
            shown = {"pv": f"{entries} ({'bool' if k == 'b' else 'int'})", "n": n, "expected": str(exp)}
            try:
                r = folder.run(qual, Arr(entries, k), n)
            except Unsupported as e:
                undecided.setdefault(cls, dict(shown, reason=str(e)))
                continue
            except FoldRaise as e:
                if trusted(e):
                    wrong[cls] = (dict(shown, raises=e.what), e.node)
                else:
                    undecided.setdefault(cls, dict(shown, reason="the evaluation stopped in a builtin: " + e.what))
                continue
            if not isinstance(r, Arr):
                undecided.setdefault(cls, dict(shown, reason=f"the value returned is a {type(r).__name__}, not a 1-d array"))
                continue
            got = list(r.vals())
            if r.kind != kind or got != exp:
                wrong[cls] = (dict(shown, returned=f"{got} ({'bool' if r.kind == 'b' else 'int' if r.kind == 'i' else 'float'})"), None)
        for cls in _R6_CLASSES:
            inst = f"{qual}(pv, n) returns {text}: pv given as {cls} ({seen.get(cls, 0)} vectors, n = 4, 5)"
            if cls in wrong:
                ctx.fail(inst, wrong[cls][1] or fn, dict(wrong[cls][0], witness="first vector of the world on which the value differs"))
            elif cls in undecided:
                ctx.error(inst + " [not decided: outside the modelled numpy subset]", fn, undecided[cls])
            else:
                ctx.ok(inst, fn)



def _complete_paths_only(rule):
    """A verdict `violation` rests on having seen every way through the analysed function.  When the evaluator skipped a block that holds a
    raise / return (a loop it does not execute, the handlers of a try), the regimes are incomplete: what looks like a missing refusal or a
    missing guard may sit in that block.  The obligations that failed are then recorded as not decided (exit 2), never as violations."""
    import functools

    @functools.wraps(rule)
    def run(ctx):
        ctx.__dict__["_c18_hidden"] = []
        n0 = len(ctx.obls)
        try:
            rule(ctx)
        finally:
            hidden = ctx.__dict__.get("_c18_hidden") or []
            if hidden:
                where = sorted({f"{q}: {type(h).__name__} at line {h.lineno}" for q, h in hidden})
                for o in ctx.obls[n0:]:
                    if o.status == "fail":
                        o.status = "error"
                        o.instance += " [not decided: a block with a raise / return was not executed by the evaluator]"
                        o.detail = {"skipped": where, "comparison": o.detail}
    return run


RULES = [
    ("C18-R1", r1_lattice, 200),
    ("C18-R1b", _complete_paths_only(r1b_producer), 5),
    ("C18-R2", _complete_paths_only(r2_mksetpv), 6),
    ("C18-R3", _complete_paths_only(r3_checked_lookup), 23),
    ("C18-R4", _complete_paths_only(r4_expanddof), 9),
    ("C18-R5", _complete_paths_only(r5_index2slice), 4),
    ("C18-R6", r6_index_vectors, 8),
]
LEVEL = "other"
EXPLANATION = ("Static: the USET bit-mask table is the value mkusetmask returns, constant-folded from the source however it is built (dict literal, "
               "module-level table, loops / reduce over data tables, helpers: verifier/c18_fold.py, a white-listed evaluator of integer / string / "
               "container code); mkusetmask(name) and mkusetmask('x+y') are folded the same way and compared with the table entry / the OR of the "
               "entries. The table is checked against the documented set hierarchy for "
               "every base/superset pair (disjointness, containment <=> membership, private bits per the NDDL table, no private bit leaking into an "
               "unrelated set) - which decides membership tests for every possible USET word. The other rules evaluate each anchored function on "
               "symbols once per regime (combination of truth values of its branch tests; private helpers are followed) and decide on the values "
               "returned / the regimes that raise: the producer clears the ambiguous S bit in place; mksetpv returns pvminor[pvmajor] and refuses in "
               "every regime with a minor DOF outside major; in mkdofpv and mat_intersect the value of np.searchsorted is followed through the clamp, "
               "the sorter indirection and the exact re-check to the returned positions (strict raises, non-strict filters positions and DOF with one "
               "mask, outputs in (D1, D2) order, keys compared in np.result_type of both inputs); expanddof's guards, the order of its digit / id "
               "expansion, and - decided over a finite world of (ndim, columns) / sizes from the tests each regime took - that only an empty request "
               "gives no rows and only a request without a component column is expanded as ids; index2slice's stop/None boundary and its empty slice. "
               "flippv and index2bool are *run* as written (static folding of the parsed source with a model of 1-d numpy arrays, verifier/c18_world.py; "
               "no import of the package) on every index vector of at most two entries over -n..n-1 and every boolean mask for n = 4, 5 and must return "
               "the positions a[pv] does not address (ascending, integer) / the mask of the positions it addresses; a difference is reported with the "
               "vector as witness, an operation outside the model is not decided. "
               "Tests on the two masks of mksetpv are decided over a finite world of bit patterns that includes the bits of every constant they mention. "
               "In mkdofpv the row labels the table keys are read from are normalised to (table, row selections): uset.loc[m].index, uset[m].index, "
               "uset.iloc[flatnonzero(m)].index and uset.index[m] are one value; a level addressed by position is named through the layout "
               "make_uset gives the labels (names=['id', 'dof']). A failed comparison is recorded as not decided (exit 2), never as a violation, "
               "when the evaluator skipped a block that holds a raise / return (the regimes are then incomplete).")
MANIFEST = {
    "text": "Partial claim decided statically: the mask table is a consistent encoding of the documented set lattice for every possible USET word "
            "(248 pair obligations), agrees with the NDDL bit table, op2 clears exactly the S bit on s-set DOF, no other module defines a mask; "
            "mksetpv tests (word & mask) != 0 on both sets, refuses non-contained minors in every regime and returns pvminor[pvmajor]; mkdofpv and "
            "locate.mat_intersect search with the argsort of the searched keys, clamp and re-check searchsorted results and filter consistently "
            "(mkdofpv: strict raises, non-strict filters positions and DOF list by the same exact-match mask, table restricted to the requested set, "
            "keys id*10+component on both sides; mat_intersect: outputs in (D1, D2) order, keys viewed in np.result_type of both inputs, empty result "
            "without a search only for different column counts); expanddof guards components > 6, walks request rows and digits in the order given, expands ids to 1..6 / 0..6 in request order only for "
            "requests without a component column and returns no rows only for an empty request; index2slice turns "
            "the exclusive stop into None exactly when it is negative and returns the empty slice only for an empty vector. "
            "flippv / index2bool return the complement / the mask of the positions a[pv] addresses for every short index vector (negative = from the end) "
            "and every boolean mask on axes of length 4 and 5. "
            "Not decided: the value-level defining equations of the other locate helpers (find_duplicates, merge_lists, find_subseq), flippv / index2bool "
            "beyond that finite world (longer vectors, the refusal of out-of-range indices) and of "
            "index2slice beyond its stop boundary and even-spacing test.",
    "note": "Trusted: CPython ast; the documented Nastran set hierarchy (Quick Reference Guide) embedded in the checker. Numpy semantics of &, !=, boolean "
            "indexing, argsort, searchsorted (left insertion point, result in 0..size), nonzero, result_type, slice; the model of 1-d numpy arrays in "
            "verifier/c18_world.py (checked against numpy 2.5 at design time on 45 implementations x 238 vectors); no type tests on array elements.",
    "technique": "constant folding of the value mkusetmask returns (verifier/c18_fold.py: static evaluation of the parsed source over integers, strings and "
                 "containers; nothing of the package is imported or run) + exhaustive lattice check over all set pairs; value-level evaluation of each "
                 "anchored function per regime (verifier/c18_sem.py on e2_eval.AutoEvaluator) with def-use followed on values, not on names or source "
                 "text; the functions are read as written (no renaming / temporary-inlining normalisation)",
}
