"""C18 -- DOF-set partitions and look-ups (partial claim)."""
from __future__ import annotations

import ast
import re

from .core import AnchorError, Unsupported
from .e1_srcmodel import dotted, walk_no_nested, enclosing_stmt, parent, ancestors, utext

N2P = "pyyeti/nastran/n2p.py"
OP2 = "pyyeti/nastran/op2.py"
LOCATE = "pyyeti/locate.py"

BASE = ("m", "s", "o", "q", "r", "c", "b", "e")
# MSC/NX Nastran Quick Reference Guide, "Degree-of-Freedom Sets": each superset as the union of mutually
# exclusive base sets (the same hierarchy is drawn in mkusetmask's docstring)
MEMBERS = {
    "l": "bc", "t": "bcr", "a": "bcrq", "d": "bcrqe", "f": "bcrqo", "fe": "bcrqoe",
    "n": "bcrqos", "ne": "bcrqose", "g": "bcrqosm", "p": "bcrqosme",
}
# NDDL name of the bit that belongs to each set (compared with the bit table in the code's own comment)
NDDL = {"m": ["M"], "s": ["SG", "SB"], "o": ["O"], "q": ["Q"], "r": ["R"], "c": ["C"], "b": ["B"], "e": ["E"],
        "l": ["L"], "t": ["T"], "a": ["A"], "d": ["D"], "f": ["F"], "fe": ["FE"], "n": ["N"], "ne": ["NE"],
        "g": ["G"], "p": ["P"], "u1": ["U1"], "u2": ["U2"], "u3": ["U3"], "u4": ["U4"], "u5": ["U5"], "u6": ["U6"]}
# documented exception (docstring paragraph on MSC.Nastran): b also owns the NDDL "S" bit; op2 clears it on s-set DOF
EXTRA = {"b": ["S"]}


def _fold(node, env):
    if isinstance(node, ast.Constant) and isinstance(node.value, int):
        return node.value
    if isinstance(node, ast.Name):
        if node.id in env:
            return env[node.id]
        raise Unsupported(f"unbound {node.id}")
    if isinstance(node, ast.BinOp):
        a, b = _fold(node.left, env), _fold(node.right, env)
        if isinstance(node.op, ast.BitOr):
            return a | b
        if isinstance(node.op, ast.LShift):
            return a << b
        if isinstance(node.op, ast.BitAnd):
            return a & b
        if isinstance(node.op, ast.Add):
            return a + b
        if isinstance(node.op, ast.Pow):
            return a ** b
        if isinstance(node.op, ast.Mult):
            return a * b
    if isinstance(node, ast.UnaryOp) and isinstance(node.op, ast.Invert):
        return ~_fold(node.operand, env)
    raise Unsupported(f"cannot fold {ast.unparse(node)}")


def mask_table(ctx):
    fn = ctx.src.func(N2P, "mkusetmask")
    env = {}
    table = None
    tnode = None
    for st in fn.body:
        if isinstance(st, ast.Assign) and len(st.targets) == 1 and isinstance(st.targets[0], ast.Name):
            if isinstance(st.value, ast.Dict):
                d = {}
                for k, v in zip(st.value.keys, st.value.values):
                    if not (isinstance(k, ast.Constant) and isinstance(k.value, str)):
                        raise Unsupported("non-literal key in the mask table")
                    d[k.value] = _fold(v, env)
                if len(d) >= 20:
                    table, tnode = d, st
                    env[st.targets[0].id] = d
            else:
                try:
                    env[st.targets[0].id] = _fold(st.value, env)
                except Unsupported:
                    pass
    if table is None:
        raise AnchorError("mkusetmask: mask dictionary not found")
    return table, tnode, fn


# MSC/NX Nastran NDDL "USET" bit positions (public data-block definition; bit 0 = least significant), kept here as published
# constants so that the rule does not depend on a source comment surviving
NDDL_BITS = {"M": 0, "S": 1, "O": 2, "R": 3, "G": 4, "N": 5, "F": 6, "A": 7, "L": 8, "SG": 9, "SB": 10, "E": 11, "P": 12, "NE": 13, "FE": 14,
             "D": 15, "J": 16, "SA": 17, "K": 18, "KS": 19, "C": 20, "B": 21, "Q": 22, "T": 23, "FR": 24, "V": 25, "U6": 26, "U5": 27,
             "U4": 28, "U3": 29, "U2": 30, "U1": 31}


def nddl_bits(ctx):
    """the NDDL bit table; when mkusetmask still carries its own copy in a comment block, the two must agree"""
    return dict(NDDL_BITS)


def nddl_bits_from_comment(ctx):
    """bit table from the comment block inside mkusetmask (code <-> comment sibling)."""
    fn = ctx.src.func(N2P, "mkusetmask")
    m = ctx.src.mod(N2P)
    lines = m.source.split("\n")[fn.lineno - 1: fn.end_lineno]
    bits = {}
    for ln in lines:
        s = ln.strip()
        if s.startswith("#"):
            toks = s[1:].split()
            if len(toks) >= 2 and len(toks) % 2 == 0 and all(t.isdigit() for t in toks[::2]):
                for i in range(0, len(toks), 2):
                    bits[toks[i + 1]] = int(toks[i])
    return bits


def _bitsof(x):
    return [i for i in range(64) if (x >> i) & 1]


def r1_lattice(ctx):
    table, tnode, fn = mask_table(ctx)
    bits = nddl_bits(ctx)
    cbits = nddl_bits_from_comment(ctx)
    if cbits:
        ok = all(bits.get(k) == v for k, v in cbits.items())
        ctx.check(ok, "mkusetmask: the bit table quoted in its comment block is the NDDL USET table", fn,
                  None if ok else {k: (v, bits.get(k)) for k, v in cbits.items() if bits.get(k) != v}, nontrivial=False)
    want_keys = set(BASE) | set(MEMBERS) | {f"u{i}" for i in range(1, 7)}
    ok = set(table) == want_keys
    ctx.check(ok, "mask table defines exactly the documented sets", tnode,
              None if ok else {"missing": sorted(want_keys - set(table)), "extra": sorted(set(table) - want_keys)}, nontrivial=False)
    if not want_keys <= set(table):
        return
    # 1. base sets pairwise disjoint, non-empty
    for i, x in enumerate(BASE):
        ctx.check(table[x] != 0, f"base set {x} has a non-empty mask", tnode, nontrivial=False)
        for y in BASE[i + 1:]:
            ok = table[x] & table[y] == 0
            ctx.check(ok, f"base sets {x} and {y} have disjoint masks (every DOF is in exactly one base set)", tnode,
                      None if ok else {x: _bitsof(table[x]), y: _bitsof(table[y])})
    basebits = 0
    for x in BASE:
        basebits |= table[x]
    # 2. X in Y  <=>  mask[X] & mask[Y] != 0, and then mask[X] is wholly inside mask[Y]
    for y, mem in MEMBERS.items():
        for x in BASE:
            inter = table[x] & table[y]
            if x in mem:
                ok = inter == table[x]
                ctx.check(ok, f"{x} is a documented member of {y}: mask[{x}] is contained in mask[{y}]", tnode,
                          None if ok else {x: _bitsof(table[x]), y: _bitsof(table[y])})
            else:
                ok = inter == 0
                ctx.check(ok, f"{x} is not a member of {y}: mask[{x}] & mask[{y}] == 0", tnode,
                          None if ok else {"common bits": _bitsof(inter)})
    # 3. private bits
    priv = {}
    for y in MEMBERS:
        p = table[y] & ~basebits
        own = [bits[n] for n in NDDL[y] if n in bits]
        ok = all((table[y] >> b) & 1 for b in own) and len(own) == len(NDDL[y])
        ctx.check(ok, f"superset {y} carries its own NDDL bit {NDDL[y]}", tnode, None if ok else {"mask bits": _bitsof(table[y])})
        priv[y] = sum(1 << b for b in own)
        # every other non-base bit inside mask[y] must be the private bit of a subset of y
        for b in _bitsof(p & ~priv[y]):
            owners = [z for z in MEMBERS if z != y and any(bits.get(n) == b for n in NDDL[z])]
            ok = bool(owners) and all(set(MEMBERS[z]) <= set(mem_y) for z in owners for mem_y in [MEMBERS[y]])
            ctx.check(ok, f"bit {b} inside mask[{y}] belongs to a subset of {y}", tnode,
                      None if ok else {"bit": b, "owners": owners})
    # 6. private bit of Z inside mask[Y]  =>  Z subset of Y   (so superset bits Nastran sets cannot create false members)
    for z in MEMBERS:
        for y in MEMBERS:
            if z == y:
                continue
            inside = priv[z] and (table[y] & priv[z]) == priv[z]
            sub = set(MEMBERS[z]) <= set(MEMBERS[y])
            ok = (not inside) or sub
            ctx.check(ok, f"private bit of {z} lies in mask[{y}] only if {z} is a subset of {y}", tnode,
                      None if ok else {"z": z, "y": y}, nontrivial=inside)
    # base bits agree with the NDDL table; the documented exception for b
    for x in BASE:
        own = sum(1 << bits[n] for n in NDDL[x] + EXTRA.get(x, []) if n in bits)
        ok = table[x] == own
        ctx.check(ok, f"mask[{x}] is exactly the NDDL bit(s) {NDDL[x] + EXTRA.get(x, [])}", tnode,
                  None if ok else {"mask": _bitsof(table[x]), "nddl": _bitsof(own)})
    # 4. user sets: single bits outside everything else
    allbits = 0
    for y in list(BASE) + list(MEMBERS):
        allbits |= table[y]
    seen = 0
    for i in range(1, 7):
        u = table[f"u{i}"]
        ok = bin(u).count("1") == 1 and u & allbits == 0 and u & seen == 0 and u == 1 << bits.get(f"U{i}", -99 if True else 0)
        ctx.check(ok, f"user set u{i} is the single NDDL bit U{i}, disjoint from all other sets", tnode,
                  None if ok else {"mask": _bitsof(u)})
        seen |= u
    # 5. the '+' combination arm ORs the member masks
    txt = ast.unparse(fn)
    loop = [n for n in walk_no_nested(fn) if isinstance(n, ast.For)]
    ok = False
    for lp in loop:
        for st in lp.body:
            if isinstance(st, (ast.Assign, ast.AugAssign)):
                v = st.value
                if isinstance(st, ast.AugAssign) and isinstance(st.op, ast.BitOr):
                    ok = True
                if isinstance(v, ast.BinOp) and isinstance(v.op, ast.BitOr):
                    ok = True
    ctx.check(ok, "mkusetmask('x+y') ORs the masks of the named sets", loop[0] if loop else fn)


def r1b_producer(ctx):
    fn = ctx.src.func(OP2, "OP2._rdop2uset")
    table, _, _ = mask_table(ctx)
    bits = nddl_bits(ctx)
    sbit = 1 << bits["S"]
    # sset = (uset & mkusetmask('s')) != 0 ; uset[sset] = uset[sset] & ~<S bit>
    sel = None
    clr = None
    for st in walk_no_nested(fn):
        if isinstance(st, ast.Assign) and isinstance(st.targets[0], ast.Name):
            t = ast.unparse(st.value).replace(" ", "").replace('"', "'")
            if "mkusetmask('s')" in t and "&" in t and "!=0" in t:
                sel = (st.targets[0].id, st)
        if isinstance(st, ast.Assign) and isinstance(st.targets[0], ast.Subscript) and sel:
            tg = st.targets[0]
            if isinstance(tg.slice, ast.Name) and tg.slice.id == sel[0]:
                v = st.value
                if isinstance(v, ast.BinOp) and isinstance(v.op, ast.BitAnd) and isinstance(v.right, ast.UnaryOp) \
                        and isinstance(v.right.op, ast.Invert):
                    consts = [c.value for c in ast.walk(v.right) if isinstance(c, ast.Constant) and isinstance(c.value, int)]
                    lhs = ast.unparse(v.left).replace(" ", "")
                    clr = (consts, lhs, utext(tg), st)
    if not ctx.check(sel is not None, "_rdop2uset selects the s-set DOF with mkusetmask('s')", fn):
        return
    ok = clr is not None and clr[0] == [sbit] and clr[1] == clr[2]
    ctx.check(ok, "_rdop2uset clears exactly the NDDL S bit (the bit mkusetmask gives to b) on s-set DOF, in place", clr[3] if clr else fn,
              None if ok else {"found": clr[:3] if clr else None, "S bit": sbit})
    ok = table["b"] & sbit == sbit and table["s"] & sbit == 0
    ctx.check(ok, "the S bit is owned by mask['b'] and not by mask['s'] (so un-cleared s-set words would test as b-set)", fn)
    # who-may-define: no literal copy of a multi-bit set mask anywhere else in the package
    multi = {v for k, v in table.items() if bin(v).count("1") > 1}
    hits = []
    for rel in ctx.src.all_py():
        m = ctx.src.mod(rel)
        for node in ast.walk(m.tree):
            if isinstance(node, ast.Constant) and isinstance(node.value, int) and not isinstance(node.value, bool) \
                    and node.value in multi:
                q = _enclosing_func(node)
                if rel == N2P and q == "mkusetmask":
                    continue
                hits.append(f"{rel}:{node.lineno} literal {node.value}")
    # docstring example outputs are strings, not int constants, so they do not count
    ctx.check(not hits, "no module carries a literal copy of a multi-bit set mask (who-may-define: mkusetmask only)", N2P + ":1", hits)
    # positive control for the expected-zero rule
    ctl = ast.parse(f"x = {table['b']}")
    found = [n for n in ast.walk(ctl) if isinstance(n, ast.Constant) and n.value in multi]
    ctx.check(len(found) == 1, "positive control: the literal-mask detector matches a planted copy", N2P + ":1", nontrivial=False)


def _enclosing_func(node):
    n = node
    while n is not None:
        if isinstance(n, (ast.FunctionDef, ast.AsyncFunctionDef)):
            return n.name
        n = getattr(n, "_vparent", None)
    return None


def r2_mksetpv(ctx):
    fn = ctx.src.func(N2P, "mksetpv")
    defs = {}
    for st in walk_no_nested(fn):
        if isinstance(st, ast.Assign) and isinstance(st.targets[0], ast.Name):
            defs.setdefault(st.targets[0].id, []).append(st)

    def is_member(expr, maskname):
        # (W & mask) != 0
        return (isinstance(expr, ast.Compare) and len(expr.ops) == 1 and isinstance(expr.ops[0], ast.NotEq)
                and isinstance(expr.comparators[0], ast.Constant) and expr.comparators[0].value == 0
                and isinstance(expr.left, ast.BinOp) and isinstance(expr.left.op, ast.BitAnd)
                and maskname in (ast.unparse(expr.left.left), ast.unparse(expr.left.right)))

    args = [a.arg for a in fn.args.args]
    if len(args) < 3:
        raise AnchorError("mksetpv(uset, major, minor)")
    major, minor = args[1], args[2]
    pvmaj = [k for k, v in defs.items() if any(is_member(s.value, major) for s in v)]
    pvmin = [k for k, v in defs.items() if any(is_member(s.value, minor) for s in v)]
    if not ctx.check(len(pvmaj) == 1 and len(pvmin) == 1,
                     "mksetpv computes both membership vectors as (word & mask) != 0", fn, {"major": pvmaj, "minor": pvmin}):
        return
    pj, pn = pvmaj[0], pvmin[0]
    # both from the same word column
    wj = [s for s in defs[pj] if is_member(s.value, major)][0].value.left
    wn = [s for s in defs[pn] if is_member(s.value, minor)][0].value.left
    def other(b, nm):
        return ast.unparse(b.right) if ast.unparse(b.left) == nm else ast.unparse(b.left)
    ok = other(wj, major) == other(wn, minor)
    ctx.check(ok, "mksetpv tests major and minor membership on the same USET words", fn)
    # string arguments resolved through mkusetmask
    for nm in (major, minor):
        ok = any(isinstance(s.value, ast.Call) and dotted(s.value.func) == "mkusetmask"
                 and ast.unparse(s.value.args[0]) == nm for s in defs.get(nm, []))
        ctx.check(ok, f"mksetpv resolves a string `{nm}` through mkusetmask", fn)
    # refusal: raise when ~major & minor non-empty
    raises = [n for n in walk_no_nested(fn) if isinstance(n, ast.Raise)]
    ok = False
    for r in raises:
        p = parent(r)
        if isinstance(p, ast.If):
            t = ast.unparse(p.test).replace(" ", "")
            if t in (f"np.any(~{pj}&{pn})", f"np.any({pn}&~{pj})", f"(~{pj}&{pn}).any()", f"({pn}&~{pj}).any()"):
                ok = True
    ctx.check(ok, "mksetpv raises when some minor-set DOF is outside the major set (~major & minor)", fn)
    # result: minor restricted to major, in table order
    rets = [n for n in walk_no_nested(fn) if isinstance(n, ast.Return)]
    okr = False
    for r in rets:
        v = r.value
        if isinstance(v, ast.Name) and v.id in defs:
            v = defs[v.id][-1].value
        if isinstance(v, ast.Subscript) and ast.unparse(v.value) == pn and ast.unparse(v.slice) == pj:
            okr = True
    ctx.check(okr, "mksetpv returns pvminor[pvmajor] (major-set length, minor-set DOF true, table order)", rets[-1] if rets else fn)


def _searchsorted_sites(fn):
    out = []
    for n in walk_no_nested(fn):
        if isinstance(n, ast.Call) and dotted(n.func) in ("np.searchsorted",) or \
                (isinstance(n, ast.Call) and isinstance(n.func, ast.Attribute) and n.func.attr == "searchsorted"):
            out.append(n)
    return out


def _check_lookup(ctx, fn, call):
    """sorted look-up with sorter: clamp + exact re-check before the positions are used."""
    kw = {k.arg: k.value for k in call.keywords}
    st = enclosing_stmt(call)
    if not (isinstance(st, ast.Assign) and isinstance(st.targets[0], ast.Name) and "sorter" in kw and len(call.args) >= 2):
        ctx.error("searchsorted site shape", call, ast.unparse(call))
        return
    pvi = st.targets[0].id
    sorter = ast.unparse(kw["sorter"])
    hay, needles = ast.unparse(call.args[0]), ast.unparse(call.args[1])
    body = list(walk_no_nested(fn))
    after = [n for n in body if isinstance(n, ast.stmt) and n.lineno > st.lineno]
    # clamp: pvi[pvi == sorter.size] -= 1   (or len(sorter) / hay.size)
    clamp = None
    use = None
    for n in after:
        if isinstance(n, ast.AugAssign) and isinstance(n.op, ast.Sub) and isinstance(n.target, ast.Subscript) \
                and ast.unparse(n.target.value) == pvi and ast.unparse(n.value) == "1":
            t = ast.unparse(n.target.slice).replace(" ", "")
            if t in (f"{pvi}=={sorter}.size", f"{pvi}==len({sorter})", f"{pvi}=={hay}.size", f"{pvi}==len({hay})",
                     f"{pvi}=={sorter}.shape[0]", f"{pvi}=={hay}.shape[0]"):
                clamp = n
        if use is None and isinstance(n, ast.Assign) and isinstance(n.value, ast.Subscript) \
                and ast.unparse(n.value.value) == sorter and ast.unparse(n.value.slice) == pvi:
            use = n
    if use is None:
        # the index is not used in the recognised `sorter[index]` form: an idiom this rule does not know
        ctx.error(f"look-up `{ast.unparse(call)}`: unrecognised use of the insertion index (rule knows `{sorter}[{pvi}]`)", call)
        return
    ctx.ok(f"look-up: positions are mapped back through the sorter `{sorter}[{pvi}]`", call)
    # a direct sorter[pvi] with an unclamped index raises IndexError for a key above the maximum
    if not ctx.check(clamp is not None and clamp.lineno < use.lineno,
                     f"look-up `{ast.unparse(call)}`: the insertion index is clamped (== size -> size-1) before `{sorter}[{pvi}]`", call):
        return
    pv = use.targets[0].id if isinstance(use.targets[0], ast.Name) else None
    # exact re-check: hay[pv] ==/!= needles
    recheck = None
    for n in body:
        if isinstance(n, ast.Compare) and len(n.ops) == 1 and isinstance(n.ops[0], (ast.Eq, ast.NotEq)):
            l, r = ast.unparse(n.left), ast.unparse(n.comparators[0])
            if {l, r} == {f"{hay}[{pv}]", needles} and n.lineno > use.lineno:
                recheck = n
    if not ctx.check(recheck is not None,
                     f"look-up: found positions are re-checked for exact equality ({hay}[{pv}] vs {needles})", use):
        return
    return pv, recheck


def r3_checked_lookup(ctx):
    fn = ctx.src.func(N2P, "mkdofpv")
    sites = [c for c in _searchsorted_sites(fn)]
    if len(sites) != 1:
        raise AnchorError("mkdofpv: one searchsorted site expected")
    r = _check_lookup(ctx, fn, sites[0])
    if r:
        pv, recheck = r
        st = enclosing_stmt(recheck)
        chk = st.targets[0].id if isinstance(st, ast.Assign) and isinstance(st.targets[0], ast.Name) else None
        neq = isinstance(recheck.ops[0], ast.NotEq)
        ifs = [n for n in walk_no_nested(fn) if isinstance(n, ast.If) and chk and ast.unparse(n.test).replace(" ", "") in
               (f"{chk}.any()", f"np.any({chk})", f"any({chk})")]
        ok = bool(ifs) and neq
        if ctx.check(ok, "mkdofpv: a mismatch mask from the re-check gates the strict/non-strict handling", st):
            top = ifs[0]
            strict_if = [n for n in top.body if isinstance(n, ast.If) and ast.unparse(n.test) == "strict"]
            ok = bool(strict_if) and any(isinstance(x, ast.Raise) for x in ast.walk(strict_if[0]) if x in strict_if[0].body or True) \
                and any(isinstance(x, ast.Raise) for x in strict_if[0].body)
            ctx.check(ok, "mkdofpv: strict=True raises when a requested DOF is missing", top)
            if strict_if:
                els = strict_if[0].orelse
                txt = [utext(s) for s in els]
                inv = [t for t in txt if t.startswith(f"{chk}=~{chk}")]
                fpv = [t for t in txt if t == f"{pv}={pv}[{chk}]"]
                fdof = [t for t in txt if re.fullmatch(rf"(\w+)=\1\[{chk}\]", t) and not t.startswith(pv + "=")]
                ok = bool(inv) and bool(fpv) and bool(fdof)
                ctx.check(ok, "mkdofpv: strict=False filters positions and the returned DOF list by the same exact-match mask", strict_if[0], txt)
    # the returned pair
    rets = [n for n in walk_no_nested(fn) if isinstance(n, ast.Return)]
    ok = bool(rets) and isinstance(rets[-1].value, ast.Tuple) and len(rets[-1].value.elts) == 2
    ctx.check(ok, "mkdofpv returns (pv, dof)", fn, nontrivial=False)
    # key construction identical on both sides: id*10 + dof
    keys = [ast.unparse(n.value).replace(" ", "") for n in walk_no_nested(fn)
            if isinstance(n, ast.Assign) and "*10+" in ast.unparse(n.value).replace(" ", "")]
    ok = len(keys) >= 3 and all("*10+" in k for k in keys)
    ctx.check(ok, "mkdofpv: table keys and requested keys are both id*10 + component", fn, keys)
    # locate.mat_intersect
    fn = ctx.src.func(LOCATE, "mat_intersect")
    sites = _searchsorted_sites(fn)
    if len(sites) != 1:
        raise AnchorError("mat_intersect: one searchsorted site expected")
    r = _check_lookup(ctx, fn, sites[0])
    if r:
        pv, recheck = r
        st = enclosing_stmt(recheck)
        ok = isinstance(recheck.ops[0], ast.Eq) and isinstance(st, ast.Assign) and "np.where" in ast.unparse(st.value)
        ctx.check(ok, "mat_intersect: only exact matches are kept (np.where(haystack[pv2] == needles))", st)
        if ok:
            p1 = st.targets[0].id
            txt = [utext(s) for s in walk_no_nested(fn) if isinstance(s, ast.Assign)]
            ok = f"{pv}={pv}[{p1}]" in txt
            ctx.check(ok, "mat_intersect: haystack positions are trimmed by the same match vector", st)
    # the keys that are searched and re-checked are byte views of both inputs in ONE common, lossless type
    bv = [n for n in walk_no_nested(fn) if isinstance(n, ast.Call) and dotted(n.func) == "_bytes_view" and len(n.args) == 2]
    if len(bv) != 2:
        ctx.error("mat_intersect: two _bytes_view conversions expected", fn, len(bv))
    else:
        tys = {ast.unparse(c.args[1]) for c in bv}
        ops = sorted(ast.unparse(c.args[0]) for c in bv)
        ok = len(tys) == 1
        ctx.check(ok, "mat_intersect: haystack and needles are viewed in the same dtype before the search and the re-check", bv[0], sorted(tys))
        if ok:
            tname = tys.pop()
            tdef = [s2 for s2 in walk_no_nested(fn) if isinstance(s2, ast.Assign) and ast.unparse(s2.targets[0]) == tname]
            good = False
            if tdef and isinstance(tdef[-1].value, ast.Call) and dotted(tdef[-1].value.func) == "np.result_type":
                a = sorted(ast.unparse(x) for x in tdef[-1].value.args)
                good = a == sorted(f"{o}.dtype" for o in ops)
            ctx.check(good, "mat_intersect: that dtype is np.result_type of both inputs (a conversion that is exact for both; casting the "
                            "needles to the haystack type would make 3.9 match 3 and survive the re-check)", tdef[-1] if tdef else fn,
                      None if good else (ast.unparse(tdef[-1]) if tdef else "no definition"))
    # other sorted-search sites in the anchored modules, listed with their kind
    others = []
    for rel in (N2P, LOCATE):
        m = ctx.src.mod(rel)
        for q, f in m.funcs.items():
            for c in _searchsorted_sites(f):
                kw = {k.arg for k in c.keywords}
                if "sorter" in kw and q not in ("mkdofpv", "mat_intersect"):
                    others.append(f"{rel}:{c.lineno} {q}")
    ctx.check(not others, "no other sorter-based look-up exists in n2p.py / locate.py without this rule being bound to it",
              N2P + ":1", others)


def r4_expanddof(ctx):
    fn = ctx.src.func(N2P, "expanddof")
    # the digit-expansion statement: [[node, int(i)] for node, arg in dof for i in str(arg)]
    exp = None
    for st in fn.body:
        if isinstance(st, ast.Assign) and any(isinstance(n, ast.ListComp) for n in ast.walk(st.value)) \
                and "str(" in ast.unparse(st.value):
            exp = st
    if not ctx.check(exp is not None, "expanddof has a digit-expansion arm (str(component) -> digits)", fn):
        return
    name = exp.targets[0].id
    after = fn.body[fn.body.index(exp) + 1:]
    guard = None
    for st in after:
        if isinstance(st, ast.If) and any(isinstance(x, ast.Raise) for x in st.body):
            t = ast.unparse(st.test).replace(" ", "")
            if f"{name}[:,1]>6" in t:
                guard = st
        if isinstance(st, ast.Return):
            break
    ctx.check(guard is not None, "expanddof: expanded components > 6 are refused before returning", exp)
    # the early-return arm is taken only when no component exceeds 6
    early = [st for st in ast.walk(fn) if isinstance(st, ast.If) and "max()<=6" in ast.unparse(st.test).replace(" ", "")]
    ctx.check(bool(early), "expanddof: unexpanded return only when every component <= 6", fn)
    # 1-D ids: 1..6 or 0..6 by grids_only
    rg = [st for st in ast.walk(fn) if isinstance(st, ast.Assign) and isinstance(st.value, ast.IfExp)
          and ast.unparse(st.value).replace(" ", "") == "range(1,7)ifgrids_onlyelserange(7)"]
    ctx.check(bool(rg), "expanddof: 1-D input expands to components 1..6 (grids_only) or 0..6", fn)


RULES = [
    ("C18-R1", r1_lattice, 200),
    ("C18-R1b", r1b_producer, 5),
    ("C18-R2", r2_mksetpv, 6),
    ("C18-R3", r3_checked_lookup, 16),
    ("C18-R4", r4_expanddof, 4),
]
LEVEL = "other"
EXPLANATION = ("Static: the USET bit-mask table is constant-folded from mkusetmask's source and checked against the documented set hierarchy for "
               "every base/superset pair (disjointness, containment <=> membership, private bits per the NDDL table in the adjacent comment, "
               "no private bit leaking into an unrelated set) - which decides membership tests for every possible USET word; the producer "
               "clears the ambiguous S bit; mksetpv's refusal/return shape; the two sorted look-ups clamp and re-check; expanddof's guard.")
MANIFEST = {
    "text": "Partial claim decided statically: the mask table is a consistent encoding of the documented set lattice for every possible USET word "
            "(248 pair obligations), agrees with the NDDL bit table, op2 clears exactly the S bit on s-set DOF, no other module defines a mask; "
            "mksetpv tests (word & mask) != 0 on both sets, refuses non-contained minors and returns pvminor[pvmajor]; mkdofpv and "
            "locate.mat_intersect clamp and re-check searchsorted results and filter consistently; expanddof guards components > 6. "
            "Not decided: the value-level defining equations of the other locate helpers (find_duplicates, index2slice, merge_lists, find_subseq).",
    "note": "Trusted: CPython ast; the documented Nastran set hierarchy (Quick Reference Guide) embedded in the checker. Numpy semantics of &, !=, boolean indexing, searchsorted.",
    "technique": "constant folding of the mask table + exhaustive lattice check over all set pairs; def-use pattern rules for the checked look-ups",
}
