"""C12 -- Nastran number fields (partial claim): decade ladder, integer arms, scientific helpers, card grid.

Every rule decides on *values*: the formatters are evaluated on abstract strings (verifier/c12_str.py: f-strings, str.format, `%`,
format(), rjust ... of the same spec are one node; concatenation adds widths; strip / replace / slice / justify are modelled on the
columns of the rendering, verifier/c12_model.py) with the float parameter confined to an interval that every comparison splits
(verifier/c12_exec.py), so an if/elif ladder, its inverted form, early returns and a loop over a literal (bound, spec) table give the same
leaves (interval, rendering).  The card writers are evaluated per field position, the readers on symbols (verifier/c12_cards.py).

Helpers are *followed*, not named: a call to a plain function of the module (or to a function / lambda defined in the frame under evaluation)
is evaluated on the argument values and continues the caller's path - interval, recorded tests, written text, lines taken from the iterator -
under the rule's own hooks; every path through the callee is a path of the caller (c12_exec: `inline=`).  So it does not matter where a piece
of a formatter, writer or reader lives or what it is called.  The file, the line iterator and the current line are recognised by *value*
(the object passed in, whatever a helper calls it); the place where rdcards hands a line to the readers is found by the call graph.
Named anchors that remain are those of the property text: format_float8/16, format_double16, _format_scientific8/16, nas_sscanf, wtcard8/16/16d,
rdcards, _rdfixed, _rdcomma.
"""
from __future__ import annotations

from fractions import Fraction

from .core import AnchorError
from .c12_str import Lit, Fmt, Strip, CallS, Round
from .c12_exec import walk_value
from .c12_model import width_bounds
from .c12_float import BULK, SCI, FloatAnalysis, SciRun, SCI_INTERVALS, describe, inner_of, first_stage_precision, open_tests, POINT

FLOATS = (("format_float8", 8), ("format_float16", 16))


def _analysis(ctx, q, W):
    cache = ctx.__dict__.setdefault("_c12_float", {})
    if q not in cache:
        cache[q] = FloatAnalysis(ctx, q, W)
    return cache[q]


def _is_scientific(lf):
    """the path returns (a stripped / justified form of) a scientific helper's result"""
    from .c12_str import Param as _P
    if lf.kind != "return":
        return False
    nodes = list(walk_value(lf.value))
    return any(isinstance(n, CallS) and n.name in SCI for n in nodes) and not any(isinstance(n, Fmt) and isinstance(n.arg, _P) for n in nodes)


def _verdict(ctx, A, ok, what, where, detail, witnesses, **kw):
    """record an obligation; a failure whose witnesses (leaf, regime) lie on paths with a test the column model does not decide is an
    analysis error, not a violation: such a path may be one that no value of the regime takes"""
    if not ok:
        und = sorted({t for lf, reg in witnesses for t in open_tests(lf, reg, A.param)})
        if und:
            ctx.error(f"{what}: not decided - the path depends on a test that is not modelled", where, {"tests": und[:3], "would report": detail})
            return
    ctx.check(ok, what, where, None if ok else detail, **kw)


def _regtxt(reg):
    side = "-" if reg.neg else ""
    if reg.carry_upto < 0:
        return f"{side}[1e{reg.k - 1}, 1e{reg.k})"
    if reg.carry_upto >= POINT:
        return f"{side}1e{reg.k} exactly"
    return f"{side}x that rounds up to 1e{reg.k} at <= {reg.carry_upto} decimals"


# ---------------------------------------------------------------------------
def r1_ladder(ctx):
    """every decade in which fixed notation carries more digits than the scientific form: fixed notation on every path, all W columns used
    (maximal precision), the value that rounds up to the next power of ten still fits"""
    for q, W in FLOATS:
        A = _analysis(ctx, q, W)
        for neg in (False, True):
            side = "negative" if neg else "positive"
            khi = W - 2 if neg else W - 1
            for k in range(-1, khi + 1):
                tag = f"{q} {side} decade [10^{k - 1}, 10^{k})"
                pk = W - (1 if neg else 0) - max(k, 1) - 1 + (1 if k <= 0 else 0)      # the most decimals the decade has room for
                cov = A.covering(neg, k, pk)
                where = cov[0][0].node if cov else A.fn
                # values that round up to 10^k at that precision may go to the scientific form (they are the next decade's business)
                notfixed = [(lf, reg) for lf, reg, fm, im in cov if fm is None and reg.carry_upto < pk]
                cov = [c for c in cov if c[2] is not None]
                crash = [lf for lf, _ in notfixed if lf.kind == "raise" and isinstance(lf.value, Lit) and not lf.state.facts]
                if crash:
                    # every test on the path was decided by the interval alone: each value of that part of the decade ends in the exception
                    ctx.fail(f"{tag}: a field is returned", crash[0].node, f"values in {crash[0].iv} raise {crash[0].value.s}")
                    continue
                unknown = [lf for lf, _ in notfixed if not _is_scientific(lf)]
                if unknown:
                    ctx.error(f"{tag}: a path renders the value in a form that is not modelled", unknown[0].node,
                              [describe(lf.value) if lf.kind == "return" else lf.kind for lf in unknown][:4])
                    continue
                ok = bool(cov) and not notfixed
                _verdict(ctx, A, ok, f"{tag}: rendered in fixed notation (more significant digits than the scientific form) on every path", where,
                         {"paths": [describe(lf.value) if lf.kind == "return" else lf.kind for lf, _ in notfixed][:4]}, notfixed)
                gen = [(lf, reg, fm, im) for lf, reg, fm, im in cov if reg.carry_upto < 0]
                bad, wit = [], []
                for lf, reg, fm, im in gen:
                    for m, f in zip(im or [None], fm or [None]):
                        if m is None or f is None or m.width != W or f.width != W or m.corrupt or m.lossy or f.corrupt or m.P != pk or m.pad_l or m.pad_r:
                            bad.append({"rendering": describe(lf.value), "columns before justification": getattr(m, "width", None),
                                        "final columns": getattr(f, "width", None), "decimals": getattr(m, "P", None), "room for": pk, "problem": (m.corrupt or ("digits cut" if m.lossy else "")) if m else "not modelled"})
                            wit.append((lf, reg))
                ok = bool(gen) and not bad
                _verdict(ctx, A, ok, f"{tag}: sign + digits + point + precision (minus a stripped leading zero) = {W} exactly, i.e. maximal precision "
                                     f"and exact field width", where, bad[:3], wit)
                car = [(lf, reg, fm, im) for lf, reg, fm, im in cov if reg.carry_upto >= 0]
                bad, wit = [], []
                for lf, reg, fm, im in car:
                    for f in fm or [None]:
                        if f is None or f.width != W or f.corrupt:
                            bad.append({"rendering": describe(lf.value), "case": _regtxt(reg), "columns": getattr(f, "width", None),
                                        "problem": f.corrupt if f else "not modelled"})
                            wit.append((lf, reg))
                ok = not bad
                _verdict(ctx, A, ok, f"{tag}: the carry case (value rounds up to 10^{k}) still fits after zeros are stripped", where,
                         bad[:3], wit, nontrivial=bool(car))
                pts = [f for lf, reg, fm, im in cov for f in (fm or [])]
                ok = bool(pts) and all(f.point or (f.intd >= W) for f in pts)
                ctx.check(ok, f"{tag}: the field keeps its decimal point (a real, not an integer field)", where, nontrivial=False)


def r1b_integer_arm(ctx):
    """arms that print a *rounded* value (`{int(round(value, 0)):Nd}.`, `{round(value):W.1f}[:W]`) are reached only by values whose rounded
    integer still fits: decided per decade and rounding regime from the interval and the recorded tests of the path"""
    for q, W in FLOATS:
        A = _analysis(ctx, q, W)
        arms = [lf for lf in A.leaves if lf.kind == "return" and any(isinstance(n, Round) for n in walk_value(lf.value))]
        if not arms:
            ctx.ok(f"{q}: no arm prints a separately rounded value (nothing to guard)", A.fn, nontrivial=False)
            continue
        for lf in arms:
            cases = A.cases[id(lf)]
            neg = lf.iv.hi is not None and lf.iv.hi <= 0
            if not A.is_fixed(lf):
                ctx.error(f"{q}: arm `{describe(lf.value)}` prints a rounded value in a form that is not modelled", lf.node)
                continue
            bad, wit = [], []
            for reg, fm, im in cases:
                for f in fm or [None]:
                    if f is None or f.width != W or f.corrupt:
                        bad.append({"values": _regtxt(reg), "columns": getattr(f, "width", None), "problem": f.corrupt if f else "not modelled"})
                        wit.append((lf, reg))
            ok = not bad
            _verdict(ctx, A, ok, f"{q}: arm `{describe(lf.value)}` on {lf.iv}: the rounded value has exactly {W} columns for every decade and rounding "
                                 f"case that reaches it (values that round to a wider integer are sent to the scientific formatter first)", lf.node,
                     bad[:3], wit, key=f"C12-R1b|{q}|negative integer arm unguarded" if neg else None, nontrivial=bool(cases))
            gen = [(reg, im) for reg, fm, im in cases if reg.carry_upto < 0]
            ok = all(m.width == W and not m.lossy for reg, im in gen for m in (im or []))
            ctx.check(ok, f"{q}: arm `{describe(lf.value)}`: integer digits plus the point use all {W} columns", lf.node, nontrivial=False)


def r2b_paths(ctx):
    """every return of the public formatters yields exactly W characters, whatever the path, decade and rounding case"""
    for q, W in FLOATS:
        A = _analysis(ctx, q, W)
        n = 0
        for lf in A.leaves:
            if lf.kind != "return":
                continue
            n += 1
            what = f"{q}: `return {describe(lf.value)}` on {lf.iv}"
            if A.is_fixed(lf):
                cases = A.cases[id(lf)]
                bad = [{"values": _regtxt(reg), "columns": f.width, "problem": f.corrupt} for reg, fm, im in cases for f in (fm or [])
                       if f.width != W or f.corrupt]
                wit = [(lf, reg) for reg, fm, im in cases for f in (fm or []) if f.width != W or f.corrupt]
                ok = not bad
                _verdict(ctx, A, ok, f"{what} yields a {W}-wide field in all {len(cases)} decade / rounding cases of the path", lf.node,
                         bad[:3], wit)
            else:
                lo, hi = width_bounds(lf.value, A.helper_width)
                if lo == W and hi == W:
                    ctx.ok(f"{what} yields a {W}-wide field", lf.node)
                elif (hi is not None and hi < W) or lo > W:
                    ctx.fail(f"{what} yields a {W}-wide field", lf.node, {"width between": [lo, hi]})
                else:
                    ctx.error(f"{what}: width cannot be bounded", lf.node, {"width between": [lo, hi]})
            # zeros stripped from a scientific field: the exponent must not be able to end in 0
            for nnode in walk_value(lf.value):
                if isinstance(nnode, Strip) and nnode.side in ("b", "r") and nnode.chars and "0" in nnode.chars \
                        and any(isinstance(x, CallS) and x.name in SCI for x in walk_value(nnode.s)):
                    ks = {k for neg, k in A.feasible_decades(lf)}
                    badk = sorted(k for k in ks if (k - 1) % 10 == 0)
                    ok = not badk
                    ctx.check(ok, f"{what}: zeros are stripped from a scientific field only where its exponent cannot end in 0", lf.node,
                              None if ok else {"exponents": [k - 1 for k in badk][:5]})
                    break
        if n == 0:
            ctx.error(f"{q}: no return path", A.fn)


# ---------------------------------------------------------------------------
def r2_scientific(ctx):
    for q, W, extra in (("_format_scientific8", 8, ""), ("_format_scientific16", 16, ""), ("format_double16", 16, "D")):
        fn = ctx.src.func(BULK, q)
        if not fn.args.args:
            raise AnchorError(f"{q}: parameter")
        firsts, finals, undecided_paths = set(), {}, set()
        for label, iv, neg, small, expzero in SCI_INTERVALS:
            for e in ((1,) if expzero else (1, 2, 3)):
                run = SciRun(ctx, q, label, iv, neg, small, e)
                rets = [lf for lf in run.leaves if lf.kind == "return"]
                tag = f"{q} ({label}, {e}-digit exponent)"
                distinct = []
                for lf in rets:
                    if lf.value not in [d.value for d in distinct]:
                        distinct.append(lf)
                crash = [lf for lf in run.leaves if lf.kind == "raise" and isinstance(lf.value, Lit) and not lf.state.facts]
                if crash and not rets:
                    ctx.fail(f"{tag}: a field is returned", crash[0].node, f"every value of this sign and magnitude raises {crash[0].value.s}")
                    continue
                if not rets or (len(distinct) > 1 and not expzero):
                    ctx.error(f"{tag}: one rendering per sign and exponent length", fn, [describe(lf.value) for lf in rets][:4])
                    continue
                for rl in distinct:
                    v = rl.value
                    node = rl.node
                    inner = inner_of(v)
                    wi, wc, wf = run.width(inner, False), run.width(inner, True), run.width(v, False)
                    if wi is None or wf is None:
                        ctx.error(f"{tag}: rendering `{describe(v)}` is not modelled", node)
                        continue
                    # a rendering reached only through a test the model does not decide may belong to no value of this regime:
                    # nothing is proved wrong by it
                    open_ = sorted({f[0] for lf in rets if lf.value == v for f in lf.state.facts})

                    def check(ok, what, detail, **kw):
                        if not ok and open_:
                            ctx.error(f"{what}: not decided - the path depends on a test that is not modelled", node, {"tests": open_[:3], "would report": detail})
                        else:
                            ctx.check(ok, what, node, None if ok else detail, **kw)
                    ok = wi == W and wf == W
                    check(ok, f"{tag}: mantissa + {'D + ' if extra else ''}sign + exponent digits fill exactly {W} characters",
                          {"characters": wi, "after justification": wf, "rendering": describe(v)})
                    okc = wc is not None and wc <= W
                    check(okc, f"{tag}: a mantissa that rounds up to 10 still fits (its zeros are stripped)", {"characters": wc}, nontrivial=False)
                    ps = run.mantissa_precision(v)
                    ok = len(ps) == 1 and min(ps) >= 0
                    check(ok, f"{tag}: mantissa precision is non-negative", sorted(ps), nontrivial=False)
                    if len(ps) == 1:
                        finals[(neg, e)] = max(min(ps), finals.get((neg, e), -1))
                        undecided_paths |= set(open_)
                    firsts |= first_stage_precision(v, run.param)
                    if e == 1:
                        pcs = run.pieces(v)
                        kinds = [k for k, _ in pcs]
                        lits = "".join(t for k, t in pcs if k == "lit")
                        want = extra + ("-" if small else "+")
                        ok = kinds == ["mantissa", "lit", "exp"] and (lits == want or (expzero and lits in (extra + "-", extra + "+")))
                        if expzero and kinds == ["mantissa", "lit"] and lits in (extra + "-0", extra + "+0"):
                            ok = True                # the exponent 0 written as a literal digit
                        check(ok, f"{tag}: field = mantissa + {want!r} + exponent digits (exponent sign '-' exactly when |value| < 1)",
                              {"pieces": [(k, t if k == "lit" else describe(t)) for k, t in pcs]})
        ctx.check(len(firsts) <= 1, f"{q}: first-stage scientific rendering found", fn, sorted(firsts), nontrivial=False)
        if len(firsts) == 1 and finals:
            first = min(firsts)
            widest = max(finals.values())
            ok = first - widest >= 2
            what = (f"{q}: first-stage `e` precision ({first}) exceeds the widest final mantissa precision ({widest}) by >= 2 digits "
                    "(two-stage rounding slack <= 1 percent of the last digit)")
            if not ok and undecided_paths:
                ctx.error(what + ": not decided - a rendering depends on a test that is not modelled", fn, sorted(undecided_paths)[:3])
            else:
                ctx.check(ok, what, fn, None if ok else {"first stage": first, "final": widest})
        # zero
        from .c12_exec import Interval
        z = SciRun(ctx, q, "zero", Interval(Fraction(0), True, Fraction(0), True), False, True, 1)
        rets = [lf for lf in z.leaves if lf.kind == "return"]
        rets = rets[:1] if rets and all(lf.value == rets[0].value for lf in rets) else rets
        okz = len(rets) == 1 and isinstance(rets[0].value, Lit) and len(rets[0].value.s) == W and rets[0].value.s.strip().startswith("0.")
        whatz = f"{q}: zero is rendered in exactly {W} characters"
        openz = sorted({f[0] for lf in rets for f in lf.state.facts})
        if not okz and (openz or not rets or not all(isinstance(lf.value, Lit) for lf in rets)):
            # several paths for the one value 0.0 (a test the engine does not decide), or text that is not concrete: nothing is proved wrong
            ctx.error(whatz + ": not decided - the rendering of 0.0 is not a single concrete text", rets[0].node if rets else fn,
                      {"tests": openz[:3], "renderings": [describe(lf.value) for lf in rets][:3]})
        else:
            ctx.check(okz, whatz, rets[0].node if rets else fn, None if okz else [describe(lf.value) for lf in rets])


from .c12_cards import r3_card_grid  # noqa: E402
from .c12_parse import r4_parse_back  # noqa: E402

RULES = [
    ("C12-R3", r3_card_grid, 218),
    ("C12-R4", r4_parse_back, 45),
    ("C12-R1", r1_ladder, 190),
    ("C12-R1b", r1b_integer_arm, 2),
    ("C12-R2", r2_scientific, 140),
    ("C12-R2b", r2b_paths, 30),
]
LEVEL = "other"
EXPLANATION = ("Static analysis on values. format_float8/16 are evaluated on abstract strings with the float confined to an interval that every "
               "comparison splits; per leaf, decade and rounding case a column model (sign, digits, point, decimals, blanks) carries strip / "
               "replace / justify / slice: every decade in which fixed notation is the more precise form is rendered fixed with all W columns "
               "used, the carry case fits, arms that print a rounded value are reached only where the rounding fits, every return is W wide. "
               "The scientific helpers fill exactly W for both signs, both exponent signs and 1-3 exponent digits with >= 2 digits of "
               "two-stage margin. Calls to other functions of the module are followed on their argument values, so helpers may be "
               "extracted or inlined freely. The card writers are evaluated on symbolic cards and parsed on the 8 + k*W / 72 column grid; _rdfixed is "
               "evaluated on that text and _rdcomma on the comma forms and must return the fields one for one; rdcards is evaluated on concrete "
               "first lines (first separator of a free-field card at index 1..8, '*' of a large-field card at index 1..7) and the reader it "
               "chooses, with the text and layout it hands over, must return the card's fields; nas_sscanf is evaluated on an "
               "instance of every class of text the formatters emit (regular expressions - re.sub / compiled patterns with count, flags, "
               "keywords - are applied to the literal text). The writers are also evaluated on the value of a real field: a path of the "
               "writer's own for some values (a whole-number fast path, a literal for zero) must fill W columns for every sign and decade of "
               "the values that take it and may cut the fraction only where the path has tested x == int(x); the symbolic cards are then "
               "written once per such path.")
MANIFEST = {
    "text": "Partial claim decided statically: (1) for every decade in which fixed notation carries more digits than the scientific form, "
            "format_float8/format_float16 render fixed notation with sign+digits+point+decimals = the field width exactly (maximal precision), "
            "including the value that rounds up to the next power of ten; arms that print a separately rounded value are guarded against a "
            "wider integer; every return path is exactly W wide for every decade and rounding case. (2) _format_scientific8/16 and "
            "format_double16 fill exactly W characters for both signs, both exponent signs and 1-3 exponent digits, keep >= 2 digits of "
            "two-stage rounding margin, and render zero in W characters. (3) nas_sscanf returns the denoted number for an instance of every "
            "class of text (1) and (2) emit, integers and blanks. (4) wtcard8 / wtcard16 / wtcard16d put every field of symbolic cards "
            "(1..60 fields around the line breaks, integer / real / string / blank, whole blank lines) into its own W-wide slot of the "
            "8 + k*W grid with continuation heads the reader accepts, a real field filling W columns on every path the writer has for its "
            "value (formatter call, or a rendering of the writer's own decided per sign / decade); _rdfixed returns those fields one for one from that text, _rdcomma from "
            "the comma forms (',' '+,' ' ,' and named continuation fields, short lines); rdcards hands a free-field card to a reader that "
            "returns its fields wherever the first separator sits (first fields of 1..8 characters, padded / large-field names), a "
            "large-field card wherever the writers put the '*' (index 1..7) and a small-field card for names of 1..8 characters. "
            "Not decided: the sub-0.001 fixed-vs-scientific choice (float(field1) == float(field2), runtime), last-digit accuracy of the "
            "scientific fallback beyond the two-stage margin, nas_sscanf on arbitrary text, cards whose fields do not fit their column, "
            "include files and comment handling of rdcards.",
    "note": "Trusted: CPython ast; Python format-spec semantics for 'f', 'e', 'd', 's' and str.strip/replace/slicing as modelled in "
            "verifier/c12_str.py, c12_model.py, c12_text.py; the standard library `re` applied to literal patterns and literal text.",
    "technique": "abstract interpretation of the formatters on interval-split paths with a column model of the renderings; symbolic-card "
                 "evaluation of writers and readers; concrete-text evaluation of the number reader",
}
