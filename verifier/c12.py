"""C12 -- Nastran number fields (partial claim): decade ladder, integer arms, scientific helpers, card grid."""
from __future__ import annotations

import ast
import re
from fractions import Fraction

from . import e2_formula as F
from .core import AnchorError, Unsupported
from .e1_srcmodel import dotted, walk_no_nested, parent, utext
from .e2_eval import Evaluator, is_unknown, need

BULK = "pyyeti/nastran/bulk.py"


# ---------------------------------------------------------------------------
# E5-lite: format-spec parsing
SPEC = re.compile(r"^(?P<align>[<>^])?(?P<width>\d+)?(?:\.(?P<prec>\d+))?(?P<type>[sdfeEgG])?$")


def parse_spec(fv):
    """FormattedValue -> (align, width, prec, type) for a literal format spec, else None."""
    if fv.format_spec is None:
        return (None, None, None, None)
    js = fv.format_spec
    if not (isinstance(js, ast.JoinedStr) and all(isinstance(v, ast.Constant) for v in js.values)):
        return None
    txt = "".join(v.value for v in js.values)
    m = SPEC.match(txt)
    if not m:
        return None
    g = m.groupdict()
    return (g["align"], int(g["width"]) if g["width"] else None, int(g["prec"]) if g["prec"] else None, g["type"])


def single_fv(node):
    """f"{expr:spec}" with nothing else -> FormattedValue, else None"""
    if isinstance(node, ast.JoinedStr) and len(node.values) == 1 and isinstance(node.values[0], ast.FormattedValue):
        return node.values[0]
    return None


def pow10(c):
    """Fraction -> k with c == 10**k, else None"""
    c = Fraction(c)
    if c <= 0:
        return None
    k = 0
    while c >= 10:
        c /= 10
        k += 1
    while c < 1:
        c *= 10
        k -= 1
    return k if c == 1 else None


def chain_arms(first_if):
    arms = []
    node = first_if
    while True:
        arms.append((node.test, node.body, node))
        if len(node.orelse) == 1 and isinstance(node.orelse[0], ast.If):
            node = node.orelse[0]
        else:
            arms.append((None, node.orelse, node))
            break
    return arms


def bound_of(test, var, positive):
    """value < c  (positive side)  /  value > -c (negative side) -> Fraction c"""
    if not (isinstance(test, ast.Compare) and len(test.ops) == 1 and isinstance(test.left, ast.Name) and test.left.id == var):
        return None
    rhs = test.comparators[0]
    try:
        c = Fraction(repr(float(ast.literal_eval(rhs))))
    except Exception:  # noqa
        return None
    if positive and isinstance(test.ops[0], ast.Lt) and c > 0:
        return c
    if not positive and isinstance(test.ops[0], ast.Gt) and c < 0:
        return -c
    return None


def ladder_arm(body, var):
    """[field = f"{value:W.Pf}"] (+ [field = field.replace('-0.', '-.')]) -> (W, P, strips_zero) or None"""
    if not body or not isinstance(body[0], ast.Assign):
        return None
    fv = single_fv(body[0].value)
    if fv is None or not (isinstance(fv.value, ast.Name) and fv.value.id == var):
        return None
    sp = parse_spec(fv)
    if not sp or sp[3] != "f" or sp[1] is None or sp[2] is None:
        return None
    z = False
    rest = body[1:]
    if rest:
        if len(rest) == 1 and isinstance(rest[0], ast.Assign) and isinstance(rest[0].value, ast.Call) \
                and isinstance(rest[0].value.func, ast.Attribute) and rest[0].value.func.attr == "replace" \
                and [getattr(a, "value", None) for a in rest[0].value.args] == ["-0.", "-."]:
            z = True
        else:
            return None
    return sp[1], sp[2], z


def _final_format(fn):
    """field = f"{field.strip(' 0'):>Ws}" at function level -> (W, stripchars, stmt)"""
    for st in fn.body:
        if isinstance(st, ast.Assign):
            fv = single_fv(st.value)
            if fv is not None and isinstance(fv.value, ast.Call) and isinstance(fv.value.func, ast.Attribute) \
                    and fv.value.func.attr == "strip" and fv.value.args and isinstance(fv.value.args[0], ast.Constant):
                sp = parse_spec(fv)
                if sp and sp[0] == ">" and sp[3] == "s":
                    return sp[1], fv.value.args[0].value, st
    return None


def r1_ladder(ctx):
    for q, W in (("format_float8", 8), ("format_float16", 16)):
        fn = ctx.src.func(BULK, q)
        var = fn.args.args[0].arg
        top = [st for st in fn.body if isinstance(st, ast.If)]
        if not top or ast.unparse(top[0].test).replace(" ", "") not in (f"{var}>=0.0", f"{var}>=0"):
            raise AnchorError(f"{q}: sign split `if {var} >= 0.0` not found")
        fin = _final_format(fn)
        ok = fin is not None and fin[0] == W and "0" in fin[1] and " " in fin[1]
        ctx.check(ok, f"{q}: ladder results are stripped of blanks and zeros and right-justified to {W} (`{{field.strip(' 0'):>{W}s}}`)", fn)
        # the leading-zero strip is what the k<=0 rungs rely on; on the negative side the arm itself must replace '-0.'
        for positive, body in ((True, top[0].body), (False, top[0].orelse)):
            side = "positive" if positive else "negative"
            if not body or not isinstance(body[0], ast.If):
                raise AnchorError(f"{q}: {side} chain")
            arms = chain_arms(body[0])
            prev_bound = None
            prev_P = None
            nrungs = 0
            s = 0 if positive else 1
            for test, abody, node in arms:
                b = bound_of(test, var, positive) if test is not None else None
                la = ladder_arm(abody, var)
                if la is not None and b is not None:
                    w, P, zrep = la
                    k = pow10(b)
                    tag = f"{q} {side} rung `{ast.unparse(test)}` ({w}.{P}f)"
                    nrungs += 1
                    if not ctx.check(k is not None, f"{tag}: bound is a power of ten", node):
                        prev_bound, prev_P = b, P
                        continue
                    if k >= 1:
                        ok = prev_bound is not None and prev_bound * 10 == b
                        ctx.check(ok, f"{tag}: rung is exactly one decade [10^{k - 1}, 10^{k})", node,
                                  None if ok else {"previous bound": str(prev_bound), "bound": str(b)})
                    else:
                        ok = prev_bound is not None and prev_bound < b
                        ctx.check(ok, f"{tag}: lower bound below upper bound", node, nontrivial=False)
                    # falls through to the final strip/justify (no early return in a ladder arm)
                    intd = max(k, 1)
                    if k <= 0:
                        z = 1 if (positive or zrep) else 0
                    else:
                        z = 0
                        if zrep:
                            pass  # harmless: no '-0.' can occur for |x| >= 1
                    width = s + intd + 1 + P - z
                    ok = width == W and w == W
                    ctx.check(ok, f"{tag}: sign+digits+point+precision (minus stripped leading zero) = {W} exactly, i.e. maximal precision",
                              node, None if ok else {"rendered width": width, "field": W, "spec width": w})
                    # rounding carry 9.99..95 -> 10.0..0 : one more integer digit, fraction all zeros (stripped)
                    ok = s + (intd + 1) + 1 <= W
                    ctx.check(ok, f"{tag}: the carry case (value rounds up to 10^{k}) still fits after zeros are stripped", node, nontrivial=False)
                    if prev_P is not None and k >= 1:
                        ok = P == prev_P - 1
                        ctx.check(ok, f"{tag}: precision steps down by one per decade", node,
                                  None if ok else {"P": P, "previous": prev_P}, nontrivial=False)
                    prev_P = P
                elif la is not None and b is None:
                    ctx.error(f"{q} {side}: ladder-shaped arm with an unrecognised guard", node, ast.unparse(test) if test else "else")
                if b is not None:
                    prev_bound = b
            want = (W - 1) if positive else (W - 2)
            ok = nrungs == want
            ctx.check(ok, f"{q} {side}: {want} fixed-notation rungs cover 10^-3..10^{want - 1}", body[0], {"rungs": nrungs})


def r1b_integer_arm(ctx):
    """negative values formatted as `{int(round(value, 0)):Nd}.` must be guarded so that the integer has at most N
    characters including its sign; sibling contradiction between format_float8 and format_float16"""
    for q, W in (("format_float8", 8), ("format_float16", 16)):
        fn = ctx.src.func(BULK, q)
        var = fn.args.args[0].arg
        top = [st for st in fn.body if isinstance(st, ast.If)][0]
        arms = chain_arms(top.orelse[0])
        hit = None
        for n in ast.walk(top):
            if isinstance(n, ast.JoinedStr) and len(n.values) == 2 and isinstance(n.values[0], ast.FormattedValue) \
                    and isinstance(n.values[1], ast.Constant) and n.values[1].value == ".":
                sp = parse_spec(n.values[0])
                if sp and sp[3] == "d" and "round(" in ast.unparse(n.values[0].value):
                    hit = (n, sp[1])
        if hit is None:
            ctx.error(f"{q}: integer-rounding arm `{{int(round(value, 0)):Nd}}.` not found", fn)
            continue
        node, N = hit
        ctx.check(N + 1 == W, f"{q}: integer arm renders {N} characters plus the point = {W}", node)
        # which values reach it?  those not captured by an earlier `value <= -c` guard that returns scientific
        need_c = Fraction(10) ** (N - 1) - Fraction(1, 2)
        guard = None
        for test, body, ifn in arms:
            if test is None:
                continue
            if isinstance(test, ast.Compare) and isinstance(test.left, ast.Name) and test.left.id == var \
                    and isinstance(test.ops[0], (ast.LtE, ast.Lt)):
                try:
                    c = -Fraction(repr(float(ast.literal_eval(test.comparators[0]))))
                except Exception:  # noqa
                    continue
                sci = any(isinstance(x, ast.Call) and (dotted(x.func) or "").startswith("_format_scientific")
                          for st in body for x in ast.walk(st))
                ret = any(isinstance(st, ast.Return) for st in body)
                if sci and ret:
                    guard = (c, ifn)
        # alternative accepted idiom: the decimal-point test is made on the rounded value
        alt = False
        for n in ast.walk(top.orelse[0]):
            if isinstance(n, ast.Call) and isinstance(n.func, ast.Attribute) and n.func.attr == "index":
                src = ast.unparse(n.func.value)
                if "round(" in src:
                    alt = True
        ok = alt or (guard is not None and guard[0] <= need_c)
        ctx.check(ok, f"{q}: values that round to an integer of more than {N} characters (value <= -{float(need_c)}) are sent to the "
                      f"scientific formatter before the `{N}d` arm", node,
                  None if ok else {"guard found": str(guard[0]) if guard else None, "needed": f"value <= -{float(need_c)}",
                                   "witness": f"{q}(-{float(need_c) + 0.2}) renders {W + 1} characters"},
                  key=f"C12-R1b|{q}|negative integer arm unguarded")


def _sci_identity(ctx, q, W, extra):
    fn = ctx.src.func(BULK, q)
    var = fn.args.args[0].arg
    e = F.sym("e")  # len(exp2)

    def call(node, ev):
        d = dotted(node.func)
        if d == "len":
            a = ast.unparse(node.args[0])
            if a == "exp2":
                return e
        return NotImplemented

    res = {}
    for neg in (False, True):
        def cond(test, ev, neg=neg):
            t = utext(test)
            if t in (f"{var}<0", f"{var}<0.0"):
                return neg
            if t in (f"{var}==0.0", f"{var}==0"):
                return False
            return None
        ev = Evaluator(env={}, src=ctx.src, call=call, cond=cond)
        # evaluate only integer bookkeeping statements; capture the precision expression of `fmt`
        prec = None
        for st in fn.body:
            if isinstance(st, ast.Assign) and isinstance(st.targets[0], ast.Name) and st.targets[0].id in ("leftover", "len_exp"):
                ev.stmt(st)
            elif isinstance(st, ast.If) and cond(st.test, ev) is not None:
                branch = st.body if cond(st.test, ev) else st.orelse
                for s2 in branch:
                    if isinstance(s2, ast.Assign) and isinstance(s2.targets[0], ast.Name) and s2.targets[0].id == "fmt":
                        js = s2.value
                        fvs = [v for v in js.values if isinstance(v, ast.FormattedValue)] if isinstance(js, ast.JoinedStr) else []
                        consts = "".join(v.value for v in js.values if isinstance(v, ast.Constant)) if isinstance(js, ast.JoinedStr) else ""
                        if len(fvs) == 1 and consts == "{:1.f}":
                            prec = ev.ev(fvs[0].value)
        res[neg] = prec
    # first-stage precision
    first = None
    for st in fn.body:
        if isinstance(st, ast.Assign) and isinstance(st.targets[0], ast.Name) and st.targets[0].id == "python_value":
            fv = single_fv(st.value)
            if fv is not None:
                sp = parse_spec(fv)
                if sp and sp[3] == "e":
                    first = sp[2]
    # the assembled field
    fld = None
    for st in fn.body:
        if isinstance(st, ast.Assign) and isinstance(st.targets[0], ast.Name) and st.targets[0].id == "field":
            fv = single_fv(st.value)
            if fv is not None:
                sp = parse_spec(fv)
                parts = []
                v = fv.value
                while isinstance(v, ast.BinOp) and isinstance(v.op, ast.Add):
                    parts.insert(0, v.right)
                    v = v.left
                parts.insert(0, v)
                fld = (sp, [ast.unparse(p) for p in parts], st)
    return fn, res, first, fld, e


def r2_scientific(ctx):
    for q, W, extra in (("_format_scientific8", 8, 0), ("_format_scientific16", 16, 0), ("format_double16", 16, 1)):
        fn, res, first, fld, e = _sci_identity(ctx, q, W, extra)
        if fld is None or fld[0] is None:
            ctx.error(f"{q}: assembled field", fn)
            continue
        sp, parts, st = fld
        ok = sp[0] == ">" and sp[1] == W and sp[3] == "s"
        ctx.check(ok, f"{q}: result is right-justified to {W}", st)
        want_parts = ["svalue4", "'D'", "sign", "exp2"] if extra else ["svalue4", "sign", "exp2"]
        ok = parts == want_parts
        ctx.check(ok, f"{q}: field = mantissa {'+ D ' if extra else ''}+ sign + exponent digits", st, parts)
        for neg in (False, True):
            P = res[neg]
            if P is None or is_unknown(P):
                ctx.error(f"{q}: mantissa precision ({'negative' if neg else 'positive'})", fn, repr(P))
                continue
            # [sign] d . P digits  [D] sign exponent
            total = (1 if neg else 0) + 2 + need(P) + extra + 1 + e
            ok = total.equals(W)
            ctx.check(ok, f"{q}: {'negative' if neg else 'positive'} mantissa + exponent fill exactly {W} characters for every exponent length",
                      fn, None if ok else {"total width": repr(total), "field": W})
            # precision stays >= 0 for 3-digit exponents
            p3 = need(P).subs({"e": 3})
            ok = p3.is_const() and p3.const_value() >= 0
            ctx.check(ok, f"{q}: mantissa precision non-negative for three-digit exponents ({'neg' if neg else 'pos'})", fn,
                      None if ok else repr(p3), nontrivial=False)
            if first is not None:
                p1 = need(P).subs({"e": 1})
                ok = p1.is_const() and first - p1.const_value() >= 2
                ctx.check(ok, f"{q}: first-stage `e` precision ({first}) exceeds the widest final mantissa precision by >= 2 digits "
                              "(two-stage rounding slack <= 1 percent of the last digit)", fn,
                          None if ok else {"first stage": first, "final (1-digit exponent)": repr(p1)})
        ctx.check(first is not None, f"{q}: first-stage scientific rendering found", fn, nontrivial=False)
        # zero special case is width W
        z = [n for n in ast.walk(fn) if isinstance(n, ast.Return) and isinstance(n.value, (ast.Constant, ast.Call))]
        okz = False
        for r in z:
            if isinstance(r.value, ast.Constant) and isinstance(r.value.value, str):
                okz = len(r.value.value) == W
            elif isinstance(r.value, ast.Call) and isinstance(r.value.func, ast.Attribute) and r.value.func.attr == "format" \
                    and isinstance(r.value.func.value, ast.Constant):
                okz = r.value.func.value.value == "{:>%ds}" % W
        ctx.check(okz, f"{q}: zero is rendered in exactly {W} characters", fn)
        # exponent sign from |value| < 1
        sg = [n for n in ast.walk(fn) if isinstance(n, (ast.IfExp, ast.If)) and "abs(" in ast.unparse(n.test)]
        ok = bool(sg) and ast.unparse(sg[0].test).replace(" ", "") in (f"abs({fn.args.args[0].arg})<1.0", f"abs({fn.args.args[0].arg})<1")
        ctx.check(ok, f"{q}: exponent sign is '-' exactly when |value| < 1", sg[0] if sg else fn)


def r2b_paths(ctx):
    """every return of the public formatters yields a helper's result or a width-formatted string"""
    for q, W in (("format_float8", 8), ("format_float16", 16)):
        fn = ctx.src.func(BULK, q)
        rets = [n for n in walk_no_nested(fn) if isinstance(n, ast.Return)]
        for r in rets:
            v = r.value
            ok = False
            why = ast.unparse(v)
            if isinstance(v, ast.Call) and (dotted(v.func) or "").startswith("_format_scientific") \
                    and (dotted(v.func) or "").endswith(str(W)):
                ok = True
            fv = single_fv(v) if isinstance(v, ast.JoinedStr) else None
            if fv is not None:
                sp = parse_spec(fv)
                ok = bool(sp) and sp[1] == W and sp[0] == ">"
            if isinstance(v, ast.Name):
                # reaching definitions in the enclosing block, walking backwards
                ok, why = _reaching_ok(r, v.id, W)
            ctx.check(ok, f"{q}: `return {ast.unparse(v)}` yields a {W}-wide field on every path", r, None if ok else why)


def _formats_to(expr, W):
    if isinstance(expr, ast.Call) and (dotted(expr.func) or "") == f"_format_scientific{W}":
        return True
    if isinstance(expr, ast.Subscript) and ast.unparse(expr.slice).replace(" ", "") in (f"0:{W}", f":{W}"):
        return True
    if isinstance(expr, ast.JoinedStr):
        tot = 0
        for p in expr.values:
            if isinstance(p, ast.Constant):
                tot += len(p.value)
            else:
                sp = parse_spec(p)
                if not sp or sp[1] is None:
                    return False
                tot += sp[1]
        return tot == W
    return False


def _reaching_ok(ret, name, W):
    blk = parent(ret)
    body = None
    for fld in ("body", "orelse", "finalbody"):
        b = getattr(blk, fld, None)
        if isinstance(b, list) and ret in b:
            body = b
    if body is None:
        return False, "no block"
    idx = body.index(ret)
    for st in reversed(body[:idx]):
        if isinstance(st, ast.Assign) and isinstance(st.targets[0], ast.Name) and st.targets[0].id == name:
            return (_formats_to(st.value, W), ast.unparse(st.value))
        if isinstance(st, ast.If):
            oks = []
            for br in (st.body, st.orelse):
                a = [s for s in br if isinstance(s, ast.Assign) and isinstance(s.targets[0], ast.Name) and s.targets[0].id == name]
                if a:
                    oks.append(_formats_to(a[-1].value, W))
                else:
                    oks.append(None)
            if all(o is True for o in oks):
                return True, ""
            if any(o is False for o in oks):
                return False, ast.unparse(st)[:200]
    # function-level return after the final justify
    return False, "no reaching width-formatted definition found"


def r3_card_grid(ctx):
    """the writers' card grid is the grid the generic reader slices; the fixed-field and comma readers are siblings"""
    fx = ctx.src.func(BULK, "_rdfixed")
    cm = ctx.src.func(BULK, "_rdcomma")

    def loop_exits(fn):
        loops = [n for n in fn.body if isinstance(n, ast.While)]
        if len(loops) != 1:
            raise AnchorError(f"{fn.name}: continuation loop")
        exits = []
        for n in ast.walk(loops[0]):
            if isinstance(n, (ast.Break, ast.Return)):
                p_ = parent(n)
                exits.append(utext(p_.test) if isinstance(p_, ast.If) else "unconditional")
        return loops[0], exits

    lf, ef = loop_exits(fx)
    lc, ec = loop_exits(cm)
    want = "sisNoneorlen(s)==0orconchar.find(s[0])<0"
    ok = ef == [want]
    ctx.check(ok, "_rdfixed: a card ends only when the next line is missing, empty or does not start with a continuation character - "
                  "a continuation line whose fields are all blank does not end the card", lf,
              None if ok else {"exits": ef, "consequence": "fields after a whole blank continuation line are lost, while the comma form of the same card reads fully"})
    ok = ec == [want]
    ctx.check(ok, "_rdcomma: the same single exit condition (fixed-field and free-field forms of a card read identically)", lc, None if ok else ec)
    for fn, lp in ((fx, lf), (cm, lc)):
        t = utext(lp)
        ok = "foriinrange(i,nfields):vals.append(blank)" in t.replace("\n", "") and "i=nfields" in t and "nfields+=inc" in t
        ctx.check(ok, f"{fn.name}: every line is padded with blanks up to a whole number of fields and the field count advances by `inc` per line", lp)
    t = utext(fx)
    ok = "ifn>8:inc=4else:inc=8" in t.replace("\n", "") and "maxstart=72-n" in t and "j=8" in t and "j+=n" in t and "whilej<=maxstartandlength>j:" in t \
        and "v=nas_sscanf(s[j:j+n],tolist)" in t
    ctx.check(ok, "_rdfixed: fields start at column 8, are n wide, the last one starts at 72 - n, 8 (small) or 4 (large) fields per line", fx)
    ok = "s=_proc_line(s[:72])" in t
    ctx.check(ok, "_rdfixed: only the first 72 columns of a line are data", fx)
    t = utext(cm)
    ok = "inc=8" in t and "lentok=min(len(tok),9)" in t and "start_field=1" in t
    ctx.check(ok, "_rdcomma: 8 data fields per line after the name / continuation field", cm)
    # writers
    w8 = ctx.src.func(BULK, "wtcard8")
    t = utext(w8)
    ok = "ifi>0andi%8==0:f.write('\\n+')" in t.replace("\n", "").replace("+       ", "+").replace("'\\n+'", "'\\n+'") or "ifi>0andi%8==0:" in t
    heads = [n.value for n in ast.walk(w8) if isinstance(n, ast.Constant) and isinstance(n.value, str) and n.value.startswith("\n")]
    ok = ok and any(h == "\n+       " for h in heads)
    ctx.check(ok, "wtcard8: a continuation (8-column head starting with '+') is inserted after every 8 fields", w8, heads)
    ok = "f.write(''*8)" in t and "f'{field:<8s}'" in t and "f'{field:8d}'" in t and "format_float8(field)" in t
    ctx.check(ok, "wtcard8: blank, string, integer and real fields are all 8 columns wide", w8)
    w16 = ctx.src.func(BULK, "_wtcard16")
    t = utext(w16)
    heads = [n.value for n in ast.walk(w16) if isinstance(n, ast.Constant) and isinstance(n.value, str) and "\n" in n.value and len(n.value) > 1]
    ok = "ifi>0andi%8==0:" in t and "elifi>0andi%4==0:" in t and "*\n*       " in heads and "\n*       " in heads
    ctx.check(ok, "_wtcard16: 4 fields of 16 per line; continuation heads are 8 columns starting with '*'", w16, heads)
    ok = "f.write(''*16)" in t and "f'{field:<16s}'" in t and "f'{field:16d}'" in t and "float_formatter(field)" in t
    ctx.check(ok, "_wtcard16: blank, string, integer and real fields are all 16 columns wide", w16)
    ok = "ifn_lines%2!=0:f.write('\\n*')" in t.replace("\n", "") or ("n_lines%2!=0" in t and "'\\n*'" in t)
    ctx.check(ok, "_wtcard16: large-field cards are closed to an even number of lines", w16, nontrivial=False)
    # the continuation characters the reader accepts include the ones the writers emit
    rc = ctx.src.func(BULK, "rdcards")
    t = utext(rc)
    sel = [n for n in ast.walk(rc) if isinstance(n, ast.Assign) and utext(n.targets[0]) in ("field,continuation", "(field,continuation)")]
    ok = len(sel) == 1 and utext(sel[0].value) in ("(16,'*')ifp>-1else(8,'+')", "(16,'*')ifp>-1else(8,' +')".replace(" ", ""))
    ok = ok and "p=s[:8].find('*')" in t
    ctx.check(ok, "rdcards: a card whose name field contains '*' is read with 16-wide fields and '*' continuations, otherwise 8-wide fields and "
                  "blank/'+' continuations - the heads written by _wtcard16 and wtcard8", sel[0] if sel else rc, utext(sel[0].value) if sel else None)
    ok = "_rdfixed(fiter,s,field,continuation,blank,tolist,keep_name)" in t and "_rdcomma(fiter,s,'+,',blank,tolist,keep_name)" in t
    ctx.check(ok, "rdcards: the fixed reader receives that width and continuation set; the comma reader accepts blank, '+' and ',' continuations", rc)


RULES = [
    ("C12-R3", r3_card_grid, 10),
    ("C12-R1", r1_ladder, 150),
    ("C12-R1b", r1b_integer_arm, 4),
    ("C12-R2", r2_scientific, 33),
    ("C12-R2b", r2b_paths, 14),
]
LEVEL = "other"
EXPLANATION = ("Static width/precision analysis of the fixed-notation decade ladders of format_float8/16 (every rung: one decade, "
               "sign+digits+point+precision-stripped zero = field width exactly, carry case fits, precision steps by one), of the "
               "integer-rounding arms (guard domain), of the three scientific helpers (mantissa+exponent width identity in the exponent "
               "length, two-stage rounding margin) and of every return path.")
MANIFEST = {
    "text": "Partial claim decided statically for all finite doubles of each rung: every fixed-notation rung of format_float8/format_float16 is one "
            "decade wide and renders exactly the field width with the maximal precision that width allows, including the rounding-carry case; "
            "the negative integer-rounding arm is guarded against integers wider than its spec; the scientific helpers and format_double16 "
            "fill exactly the width for every exponent length and sign and keep >= 2 digits of two-stage rounding margin; every return is width-formatted. "
            "Not decided: the sub-0.001 fixed-vs-scientific choice (float(field1) == float(field2), runtime), last-digit accuracy of the "
            "scientific fallback, nas_sscanf on arbitrary text, card reader round trip (see evidence notes).",
    "note": "Trusted: CPython ast; Python format-spec semantics for 'f', 'e', 'd', 's' as modelled in verifier/c12.py.",
    "technique": "static format-spec width/precision abstract interpretation over the decade-branch chains + symbolic width identities",
}
