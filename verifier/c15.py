"""C15 -- Norton-Thevenin coupling (thin partial claim)."""
from __future__ import annotations

import ast

from . import e2_formula as F
from .core import AnchorError, Unsupported
from .e1_srcmodel import dotted, walk_no_nested, parent, ancestors, utext
from .e2_eval import Evaluator, is_unknown, need

FRC = "pyyeti/frclim.py"
CB = "pyyeti/cb.py"
AM_NAMES = {"AM", "Acc", "SAM", "LAM", "TAM"}


def _loop_var_kinds(fn):
    """loop variable -> 'freq' | 'dir' from its range"""
    kinds = {}
    for lp in ast.walk(fn):
        if isinstance(lp, ast.For) and isinstance(lp.target, ast.Name) and isinstance(lp.iter, ast.Call) and dotted(lp.iter.func) == "range":
            a = ast.unparse(lp.iter.args[0]).replace(" ", "")
            if a in ("lf", "c", "len(freq)"):
                kinds[lp.target.id] = "freq"
            elif a in ("r",):
                kinds[lp.target.id] = "dir"
    return kinds


def r1_axis_roles(ctx):
    n = 0
    for q in ("calcAM", "ntfl"):
        fn = ctx.src.func(FRC, q)
        kinds = _loop_var_kinds(fn)
        for sub in ast.walk(fn):
            if isinstance(sub, ast.Subscript) and isinstance(sub.value, ast.Name) and sub.value.id in AM_NAMES and isinstance(sub.slice, ast.Tuple):
                elts = sub.slice.elts
                n += 1
                ok = len(elts) == 3
                roles = []
                for i, e in enumerate(elts):
                    if isinstance(e, ast.Slice) and e.lower is None and e.upper is None:
                        roles.append(":")
                    elif isinstance(e, ast.Name) and e.id in kinds:
                        roles.append(kinds[e.id])
                    else:
                        roles.append("?")
                ok = ok and roles[0] == ":" and roles[1] in (":", "freq") and roles[2] in (":", "dir") and "?" not in roles
                ctx.check(ok, f"{q}: `{ast.unparse(sub)}` indexes the apparent-mass array as [force DOF, frequency, acceleration direction]", sub, roles)
        for st in ast.walk(fn):
            if isinstance(st, ast.Assign) and isinstance(st.value, ast.Call) and dotted(st.value.func) == "np.empty" and \
                    isinstance(st.targets[0], ast.Name) and st.targets[0].id in AM_NAMES:
                shp = ast.unparse(st.value.args[0]).replace(" ", "")
                n += 1
                ctx.check(shp == "(r,lf,r)", f"{q}: {st.targets[0].id} is allocated (n_interface, n_freq, n_interface)", st, shp)
    ctx.check(n >= 9, f"axis-role rule bound to {n} subscripts/allocations", FRC + ":1", nontrivial=False)
    fn = ctx.src.func(FRC, "calcAM")
    t = utext(fn)
    ok = "Acc[:,:,direc]=T@sol.a" in t and "sol=fs.fsolve(T.T@Frc,freq)" in t and "Frc[direc,:]=1.0" in t and "Frc[direc,:]=0.0" in t
    ctx.check(ok, "calcAM (recovery-matrix form): column `direc` of the accelerance is the boundary acceleration T a due to a unit force T^T e_direc at every frequency", fn)
    ok = "AM[:,j,:]=la.inv(Acc[:,j,:])" in t
    ctx.check(ok, "calcAM: apparent mass is the inverse of the boundary accelerance, frequency by frequency", fn)
    ok = "tf=cb.cbtf(m,b,k,acce[direc,:],freq,bdof,save)" in t and "AM[:,:,direc]=tf.frc" in t and "acce=np.eye(r)" in t
    ctx.check(ok, "calcAM (partition-vector form): column `direc` is the boundary force cbtf needs for a unit acceleration of boundary DOF `direc`", fn)
    ok = "ifbdof.ndim==2:" in t
    ctx.check(ok, "calcAM: a 2-D boundary definition is a recovery matrix, a 1-D one a partition vector", fn, nontrivial=False)
    # the partition-vector route relies on cbtf returning the force for the ENFORCED acceleration at every frequency, 0 Hz included
    # (there the apparent mass is the physical rigid-body mass): the boundary acceleration must be the input, not derived from displacement
    cf = ctx.src.func(CB, "cbtf")
    stores = {ast.unparse(s_.targets[0]).replace(" ", ""): ast.unparse(s_.value).replace(" ", "") for s_ in ast.walk(cf)
              if isinstance(s_, ast.Assign) and isinstance(s_.targets[0], ast.Subscript)}
    ok = stores.get("accel[bset]") == "a" and stores.get("accel[qset]") == "sol.a"
    ctx.check(ok, "cb.cbtf (used by calcAM): boundary rows of the acceleration are the enforced acceleration itself, so the boundary force at 0 Hz is M_bb a "
                  "(rigid-body mass), not zero", cf, {k: v for k, v in stores.items() if k.startswith("accel")})
    tt = utext(cf)
    ok = "frc=m[bset]@accel+b[bset]@veloc+k[bb]@displ[bset]" in tt
    ctx.check(ok, "cb.cbtf: the boundary force is formed from that acceleration", cf)


def r2_ntfl(ctx):
    fn = ctx.src.func(FRC, "ntfl")
    t = utext(fn)
    ok = "TAM=SAM+LAM" in t
    ctx.check(ok, "ntfl: total apparent mass is the sum of source and load apparent masses", fn)
    loops = [n for n in fn.body if isinstance(n, ast.For)]
    if len(loops) != 1:
        raise AnchorError("ntfl: frequency loop")
    Ms, Ml, As = F.sym("Ms"), F.sym("Ml"), F.sym("As")

    def sub(node, ev):
        tt = utext(node)
        return {"SAM[:,j,:]": Ms, "LAM[:,j,:]": Ml, "As[:,j]": As}.get(tt, NotImplemented)

    def call(node, ev):
        if dotted(node.func) == "la.solve":
            a, b = ev.ev(node.args[0]), ev.ev(node.args[1])
            if is_unknown(a) or is_unknown(b):
                return a if is_unknown(a) else b
            return need(b) / need(a)
        if dotted(node.func) == "np.diag":
            return ev.ev(node.args[0])
        return NotImplemented

    def sub2(node, ev):
        r = sub(node, ev)
        if r is not NotImplemented:
            return r
        if utext(node) == "A[:,j]" and isinstance(node.ctx, ast.Load):
            for b_, i_, v_, s_ in reversed(ev.stores):
                if b_ == "A":
                    return v_
        return NotImplemented

    ev = Evaluator(env={}, src=ctx.src, subscript=sub2, call=call)
    ev.run(loops[0].body)
    st = {b_: v for b_, i, v, s in ev.stores}
    Aj, Fj = st.get("A"), st.get("F")
    ok = Aj is not None and not is_unknown(Aj) and Aj.equals(Ms / (Ms + Ml) * As)
    ctx.check(ok, "ntfl: interface acceleration A = (Ms + Ml)^-1 Ms As", loops[0], None if ok else repr(Aj))
    ok = Fj is not None and not is_unknown(Fj) and Aj is not None and Fj.equals(Ml * Aj)
    ctx.check(ok, "ntfl: interface force F = Ml A", loops[0], None if ok else repr(Fj))
    ok = ast.unparse(loops[0].iter).replace(" ", "") == "range(c)" and "r,c,_=SAM.shape" in t
    ctx.check(ok, "ntfl: one solve per frequency (second axis of the apparent mass)", loops[0])
    # the free acceleration is used as given: its orientation cannot be inferred when n_interface == n_freq
    rebinds = [s for s in walk_no_nested(fn) if isinstance(s, ast.Assign) and any(isinstance(tg, ast.Name) and tg.id == "As" for tg in s.targets)]
    vals = [ast.unparse(s.value).replace(" ", "") for s in rebinds]
    ok = vals == ["np.atleast_2d(As)"]
    ctx.check(ok, "ntfl: the free acceleration As is only promoted to 2-D, never transposed or reshaped (for a square As no orientation can be guessed)", fn, vals)
    ok = "ifnotlen(freq)==As.shape[1]==SAM.shape[1]==LAM.shape[1]:" in t
    ctx.check(ok, "ntfl: As, SAM and LAM must all have the frequency on axis 1", fn)
    for nm in ("Source", "Load"):
        ok = f"ifisinstance({nm},(list,tuple)):{nm[0]}AM=calcAM({nm},freq)else:{nm[0]}AM={nm}" in t.replace("\n", "")
        ctx.check(ok, f"ntfl: a {nm} given as [m, b, k, bdof] goes through calcAM with the same frequency vector; an array is used as the apparent mass", fn)
    ok = "returnSimpleNamespace(F=F,A=A,R=R,LAM=LAM,SAM=SAM,TAM=TAM,freq=freq)" in t
    ctx.check(ok, "ntfl: results are returned under the documented names", fn, nontrivial=False)


RULES = [
    ("C15-R1", r1_axis_roles, 15),
    ("C15-R2", r2_ntfl, 9),
]
LEVEL = "other"
EXPLANATION = ("Static: every 3-D apparent-mass array is indexed [force DOF, frequency, acceleration direction] in both calcAM branches and in ntfl; TAM = SAM + LAM; "
               "ntfl's loop body is A = (Ms+Ml)^-1 Ms As, F = Ml A; As is never re-oriented.")
MANIFEST = {
    "text": "Thin partial claim decided statically: (R1) axis roles of every apparent-mass subscript and allocation, accelerance inverse per frequency, routing of both "
            "boundary-definition forms; (R2) TAM sum, the Norton-Thevenin loop body, one solve per frequency, As used as given, size check on the frequency axis. "
            "Not decided: the coupling identity itself against a directly coupled system, the low-frequency limit, accuracy of cbtf / fsolve (see C06, C02).",
    "note": "Trusted: CPython ast; verifier/e2_formula.py with commutative abstraction of matrix products.",
    "technique": "static axis-role rules on subscripts + symbolic loop-body formulas",
}
