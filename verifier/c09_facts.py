"""C09 engine, part 6: what the tests decided on one path say together (a small finite-domain theory), and the verdict of a tree comparison.

Path conditions are sets of atoms with a truth value.  Atoms about one subject X of the forms  X == c,  X in (c1, ..., cn),  X is None,  bool(X)
(c constants) are not independent: `stype in ("reldisp", "pvelo")` true together with `stype == "reldisp"` false means `stype == "pvelo"`.  The
candidates for X are the constants the atoms mention, None, and one value that is none of them; a set of atoms is consistent when one candidate
satisfies all of them.  Everything else (comparisons between two symbols, opaque calls) is left independent.

A difference between the tree of the parallel computation and the tree of the serial one is *definite* only when both trees were followed
completely (no call of a function of the analysed modules left as a term, no conditional left merged, no sequence left starred, no unknown)."""
from __future__ import annotations

from .c09_terms import NONE, is_const, is_tag, subterms, tmap, ZEROS, EMPTY

OTHER = ("other",)


def _const_seq(t):
    return is_tag(t, "tuple", "list") and all(is_const(x) for x in t[1:])


def subject(atom):
    """-> (subject term, kind) for the atoms the theory reads, else None"""
    if is_tag(atom, "cmp"):
        op, a, b = atom[1], atom[2], atom[3]
        if op == "Eq":
            if is_const(b) and not is_const(a):
                return a, "eq"
            if is_const(a) and not is_const(b):
                return b, "eq"
        elif op == "In":
            if _const_seq(b) and not is_const(a):
                return a, "in"
        elif op == "Is":
            if b == NONE and not is_const(a):
                return a, "isnone"
            if a == NONE and not is_const(b):
                return b, "isnone"
    elif is_tag(atom, "truth"):
        if not is_const(atom[1]):
            return atom[1], "truth"
    return None


def _same(x, y):
    """Python equality of two constants (1 == True, 1 == 1.0; a string equals only a string)"""
    try:
        return bool(x[2] == y[2])
    except Exception:  # noqa
        return x == y


def _holds(atom, kind, cand):
    """truth of the atom when its subject is the candidate (None: not determined)"""
    if kind == "truth":
        if cand is OTHER:
            return None
        try:
            return bool(cand[2])
        except Exception:  # noqa
            return None
    if cand is OTHER:
        return False
    if kind == "eq":
        c = atom[3] if is_const(atom[3]) else atom[2]
        return _same(cand, c)
    if kind == "in":
        return any(_same(cand, k) for k in atom[3][1:])
    if kind == "isnone":
        return cand == NONE
    return None


def _about(assign, subj):
    out = []
    for a, v in assign.items():
        s = subject(a)
        if s is not None and s[0] == subj:
            out.append((a, s[1], v))
    return out


def _candidates(atoms):
    cands = [NONE, OTHER]
    for a, kind, _ in atoms:
        if kind == "eq":
            cands.append(a[3] if is_const(a[3]) else a[2])
        elif kind == "in":
            cands.extend(a[3][1:])
    return cands


def _sat(atoms):
    for c in _candidates(atoms):
        if all(h is None or h == v for h, v in ((_holds(a, k, c), v) for a, k, v in atoms)):
            return True
    return False


class _Other:
    """a value that is none of the constants the tests mention"""

    def __eq__(self, other):
        return False

    def __ne__(self, other):
        return True

    def __hash__(self):
        return 7

    def __repr__(self):
        return "<another value>"


OTHER_C = ("c", "other", _Other())
_T, _F = ("c", "bool", True), ("c", "bool", False)


def _truth(c):
    """truth of a constant (None: the value that is none of the constants)"""
    if c[1] == "other":
        return None
    try:
        return bool(c[2])
    except Exception:  # noqa
        return None


def fold(t, subj, cand):
    """t with the subject replaced by a candidate value, tests on constants evaluated, conditionals with a known test replaced by their arm"""
    def f(x):
        if x == subj:
            return cand
        if is_tag(x, "cmp") and len(x) == 4:
            op, a, b = x[1], x[2], x[3]
            if op in ("Eq", "NotEq") and is_const(a) and is_const(b):
                r = _same(a, b)
                return _T if r == (op == "Eq") else _F
            if op in ("In", "NotIn") and is_const(a) and _const_seq(b):
                r = any(_same(a, k) for k in b[1:])
                return _T if r == (op == "In") else _F
            if op in ("Is", "IsNot") and is_const(a) and is_const(b) and NONE in (a, b):
                r = a == b
                return _T if r == (op == "Is") else _F
            return x
        if is_tag(x, "not") and is_const(x[1]):
            r = _truth(x[1])
            return x if r is None else (_F if r else _T)
        if is_tag(x, "truth") and is_const(x[1]):
            r = _truth(x[1])
            return x if r is None else (_T if r else _F)
        if is_tag(x, "bool"):
            vals = [(_truth(v) if is_const(v) else None) for v in x[2:]]
            if x[1] == "And":
                if any(v is False for v in vals):
                    return _F
                if all(v is True for v in vals):
                    return _T
            else:
                if any(v is True for v in vals):
                    return _T
                if all(v is False for v in vals):
                    return _F
            return x
        if is_tag(x, "phi"):
            if is_const(x[1]):
                r = _truth(x[1])
                if r is not None:
                    return x[2] if r else x[3]
            if x[2] == x[3]:
                return x[2]
            return x
        return x
    return tmap(f, t)


def consistent(assign):
    """can all decisions hold together?  Finite world evaluation per subject: the subject of the direct tests (X == c, X in (...), X is None,
    bool(X)) is given every constant those tests mention, None, and a value that is none of them; every decision in which X occurs - also
    inside a value that was merged over tests on X - is evaluated for that candidate; one candidate has to satisfy them all"""
    seen = set()
    for a in assign:
        s = subject(a)
        if s is None or s[0] in seen:
            continue
        seen.add(s[0])
        direct = _about(assign, s[0])
        about = [(x, v) for x, v in assign.items() if x is not None and any(y == s[0] for y in subterms(x))]
        if len(about) < 2:
            continue
        ok = False
        for c in _candidates(direct):
            cand = OTHER_C if c is OTHER else c
            good = True
            for x, v in about:
                r = fold(x, s[0], cand)
                if is_tag(r, "truth") and is_const(r[1]):
                    r = fold(r, None, None)
                k = _truth(r) if is_const(r) and r[1] == "bool" else None
                if k is not None and k != v:
                    good = False
                    break
            if good:
                ok = True
                break
        if not ok:
            return False
    return True


def implied(assign, atom):
    """truth value of `atom` that follows from the decisions made so far (None: open)"""
    s = subject(atom)
    if s is None:
        return None
    atoms = _about(assign, s[0])
    if not atoms:
        return None
    t = _sat(atoms + [(atom, s[1], True)])
    f = _sat(atoms + [(atom, s[1], False)])
    if t and not f:
        return True
    if f and not t:
        return False
    return None


# ------------------------------------------------------------------------------------------------------------------- verdict of a comparison
SOFT_TAGS = ("phi", "star", "unboundlocal", "unbound", "poison", "mayupd", "escaped", "oob")


def unfollowed(t):
    """calls of functions of the analysed modules that were left as terms (not followed) in t"""
    return sorted({x[1][2] for x in subterms(t) if is_tag(x, "call") and is_tag(x[1], "fn")})


def soft_terms(t):
    """the subterms of t that stand for how the evaluator represents the program rather than for a computation"""
    return {x for x in subterms(t) if is_tag(x, *SOFT_TAGS)}


def diff_pairs(a, b, out, depth=0):
    """all smallest differing pairs of subterms of two terms"""
    if a == b:
        return
    if a in (ZEROS, EMPTY) and b in (ZEROS, EMPTY):
        return
    if isinstance(a, tuple) and isinstance(b, tuple) and len(a) == len(b) and a and b and depth < 80 and \
            (a[0] == b[0] or (isinstance(a[0], tuple) and isinstance(b[0], tuple))) and not is_const(a):
        n = len(out)
        for x, y in zip(a, b):
            if x != y:
                if isinstance(x, tuple) and isinstance(y, tuple):
                    diff_pairs(x, y, out, depth + 1)
                else:
                    del out[n:]
                    out.append((a, b))
                    return
        return
    out.append((a, b))


def phi_conditions(t):
    out = []
    for x in subterms(t):
        if is_tag(x, "phi") and x[1] not in out:
            out.append(x[1])
    return out


def selector_functions(atom):
    """the functions of the analysed modules whose result an atom tests directly (`f(...)[0] == "yes"`): not the ones nested in arguments"""
    out = set()
    ops = atom[2:4] if is_tag(atom, "cmp") else (atom[1:2] if is_tag(atom, "truth") else ())
    for t in ops:
        while is_tag(t, "idx", "attr"):
            t = t[1]
        if is_tag(t, "call") and is_tag(t[1], "fn"):
            out.add(t[1][2])
    return out


def root(t):
    """what a term is at its top: kind, operator / callee, arity"""
    if not isinstance(t, tuple) or not t:
        return t
    if t[0] in ("bin", "un", "cmp"):
        return (t[0], t[1])
    if t[0] == "call":
        f = t[1] if not any(is_tag(x, *SOFT_TAGS) for x in subterms(t[1])) else None
        return ("call", f, len(t[2]), tuple(k[1] for k in t[3]))
    if t[0] in ("c", "s", "lv", "bv", "blk", "fn", "ext"):
        return t
    if t[0] in ("tuple", "list"):
        return (t[0], len(t))
    return (t[0],)


def _sequence(t):
    """an argument list / keyword list of a call term (a tuple of terms without a tag of its own)"""
    return isinstance(t, tuple) and (not t or isinstance(t[0], tuple))


def rigid_difference(a, b):
    """two terms that are different computations whatever the conditionals merged inside them come out as: neither is itself a merged
    conditional / starred sequence / unknown, and they differ at the top (another operator, another callee, another number of operands, a
    symbol against a computation)"""
    if is_tag(a, "phi"):
        return rigid_difference(a[2], b) and rigid_difference(a[3], b)          # whichever arm it is, it differs from b at the top
    if is_tag(b, "phi"):
        return rigid_difference(a, b[2]) and rigid_difference(a, b[3])
    if is_tag(a, *SOFT_TAGS) or is_tag(b, *SOFT_TAGS):
        return False
    if _sequence(a) or _sequence(b):
        # two argument lists (not terms with an operator of their own): a starred sequence among the arguments of one side stands for a number of
        # arguments the evaluator does not know - `f(*X, y)` against `f(X[0], X[1], y)` is the same call whenever X has two elements
        if any(is_tag(x, "star") for t in (a, b) if isinstance(t, tuple) for x in t):
            return False
        return not (_sequence(a) and _sequence(b)) or len(a) != len(b)
    ra, rb = root(a), root(b)
    if ra == rb:
        return False
    if is_tag(a, "call") and is_tag(b, "call") and (ra[1] is None or rb[1] is None):
        return False
    return True
