"""Writer and loader runs for the C04 rules: what each OUTPUT4 writer emits for a generic matrix (one generic column, one generic string),
cut into records, and what the matching loader does with exactly those records.  Everything is a value (c04_sem.OP4Eval); nothing here
looks at how op4.py spells or arranges the computation."""
from __future__ import annotations

from . import e2_formula as F
from . import c04_sem as S
from .c04_txt import Fld, Lit, Txt, PackV, is_rat, atom_id, const_int, is_bad
from .e2_eval import is_unknown
from .sem import unfn
from .c04_txt import sym_name

WRITERS = {
    ("ascii", "dense"): "_write_ascii", ("ascii", "bigmat"): "_write_ascii_bigmat", ("ascii", "nonbigmat"): "_write_ascii_nonbigmat",
    ("binary", "dense"): "_write_binary", ("binary", "bigmat"): "_write_binary_bigmat", ("binary", "nonbigmat"): "_write_binary_nonbigmat",
}


def data_base(v):
    """idx(array, i) -> array"""
    u = unfn(v) if is_rat(v) else None
    if u and u[0] == "idx" and len(u[1]) == 2:
        return u[1][0]
    return None



def slice_start(arr):
    """first row of the rows an array value holds: the lower bound of the row slice it was cut with, or the offset of the scatter that fills it"""
    seen = 0
    v = arr
    while seen < 12 and is_rat(v):
        seen += 1
        u = unfn(v)
        if not u:
            return None
        name, a = u
        if name in ("asreal", "call:.ravel", "call:np.asarray", "call:np.array", "call:.copy") and a:
            v = a[0]
            continue
        if name == "idx" and len(a) == 2:
            us = unfn(a[1])
            if us and us[0] == "slice":
                lo = us[1][0]
                return F.const(0) if sym_name(lo) == "None" else lo
            return None
        if name == "upd" and len(a) == 3:
            # vec[rows - s] = values : the scatter index is (row - first row)
            ix = a[1]
            if is_rat(ix) and ix.d.is_const():
                neg = [(m, c) for m, c in ix.n.t.items() if c < 0]
                if len(neg) == 1 and len(ix.n.t) == 2:
                    m, c = neg[0]
                    return F.Rat(F.Poly({m: -c})) / ix.d.const_value()
            return None
        return None
    return None



def find_pair(elems):
    """the (start, length) pair among the targets of a loop over the strings of a column"""
    if isinstance(elems, tuple):
        if len(elems) == 2 and all(is_rat(x) for x in elems):
            return elems
        for x in elems:
            r = find_pair(x)
            if r is not None:
                return r
    return None


class Rec:
    """one record of a binary trace: the items of one pack call"""

    def __init__(self, pack, items, frames, node):
        self.pack, self.items, self.frames, self.node = pack, items, frames, node

    def ints(self):
        return all((not it.run) and it.code in "iIqQlL" for it in self.items)

    def vals(self):
        return [it.value for it in self.items]

    def __repr__(self):
        return f"Rec[{len(self.frames)}]{self.items!r}"


class WRun:
    def __init__(self, enc, layout, kind, cplx, bounds, W, ev):
        self.enc, self.layout, self.kind, self.cplx, self.bounds, self.W, self.ev = enc, layout, kind, cplx, bounds, W, ev
        self.binary = enc == "binary"
        self.raised = bool(W.raises)
        lo, hi = W.bounds[atom_id(S.ROWS)]
        self.rows = (lo, hi)
        self.problems = []
        self.header = self.colhdr = self.strhdr = self.data = self.coltrail = self.sentinel = self.sent_data = self.sent_trail = None
        self.col = self.r0 = self.r1 = None
        if self.raised:
            return
        if self.binary:
            self._cut_binary()
        else:
            self._cut_ascii()
        for e in self.problems:
            if is_bad(e.value):
                continue          # the statement provably raises (recorded in W.crashes): a violation, not a hole in the trace
            # a write whose value the evaluator could not build is missing from the records below
            W.gap(e.node, f"a write of {WRITERS[(enc, layout)]} is dropped from the trace: {repr(e.value)[:120]}", e.qual)
        # dense layouts: the array whose rows are written and the atom standing for its first row
        self.first = None
        self.flag_min = None
        if layout == "dense":
            arr = None
            if self.binary and self.data is not None and self.data.items:
                arr = self.data.items[0].value
            elif not self.binary and self.data:
                fl = [f for l in self.data for f in l.txt.fields()]
                arr = data_base(fl[0].v) if fl else None
            st = slice_start(arr) if arr is not None else None
            if st is not None and atom_id(st) is not None:
                self.first = st
        # generic column / string symbols
        if self.colhdr is not None and self.colhdr.frames:
            fr = self.colhdr.frames[0]
            if fr.kind == "for" and is_rat(getattr(fr, "index", None)):
                self.col = fr.index
            elif fr.kind == "for" and is_rat(fr.elems):
                self.col = fr.elems
        self.str_iter = None
        if self.strhdr is not None:
            for fr in reversed(self.strhdr.frames):
                pr = find_pair(fr.elems) if fr.kind == "for" else None
                if pr is not None:
                    self.r0, self.r1 = pr
                    self.str_iter = fr.iterable
                    break
                rows = getattr(fr, "row_elems", None) if fr.kind == "for" else None
                if rows is not None and len(rows) == 2 and all(is_rat(x) for x in rows):
                    # the strings are reached through an index: `for k in range(len(table)): start, length = table[k]`
                    self.r0, self.r1 = rows
                    self.str_iter = fr.rows_of
                    break

    def regime(self):
        lo, hi = self.rows
        return f"rows in [{lo}, {'...' if hi is None else hi}]"

    def _cut_ascii(self):
        lines, prob = S.lines_of(self.W.emits, F.sym("f"))
        self.lines = lines
        self.problems = prob
        nd = [l for l in lines if not l.is_data]
        if not nd:
            return
        self.header = nd[0]
        inner = [l for l in nd[1:] if len(l.frames) >= 1]
        if inner:
            self.colhdr = inner[0]
            deeper = [l for l in inner[1:] if len(l.frames) > len(self.colhdr.frames)]
            if deeper:
                self.strhdr = deeper[0]
        outer = [l for l in nd[1:] if len(l.frames) == 0]
        if outer:
            self.sentinel = outer[-1]
        self.data = [l for l in lines if l.is_data and len(l.frames) >= 1]
        sd = [l for l in lines if l.is_data and len(l.frames) == 0]
        self.sent_data = sd[-1] if sd else None

    def _cut_binary(self):
        """records by position and loop depth of the items (not by how the writer groups them into pack calls)"""
        items, prob = S.items_of(self.W.emits, F.sym("f"))
        self.problems = prob
        self.items = [it for it, _f, _n, _p in items]
        if not items:
            return

        def rec(seq):
            return Rec(None, [x[0] for x in seq], seq[0][1], seq[0][2]) if seq else None
        k = 0
        while k < len(items) and len(items[k][1]) == 0:
            k += 1
        self.header = rec(items[:k])
        inner = []
        while k < len(items) and len(items[k][1]) >= 1:
            inner.append(items[k])
            k += 1
        outer = items[k:]
        if inner:
            d0 = len(inner[0][1])
            # column header: the items at column depth before the first run / deeper item
            j = 0
            while j < len(inner) and len(inner[j][1]) == d0 and not inner[j][0].run:
                j += 1
            self.colhdr = rec(inner[:j])
            rest = inner[j:]
            sh = []
            i = 0
            while i < len(rest) and len(rest[i][1]) > d0 and not rest[i][0].run:
                sh.append(rest[i])
                i += 1
            self.strhdr = rec(sh)
            runs = [x for x in rest if x[0].run]
            self.data = rec(runs[:1])
            tail = []
            for x in reversed(rest):
                if len(x[1]) == d0 and not x[0].run:
                    tail.insert(0, x)
                else:
                    break
            self.coltrail = rec(tail)
        # sentinel: (record length, cols + 1, 1, 2) (one double) (record length)
        if outer:
            j = 0
            while j < len(outer) and outer[j][0].code != "d":
                j += 1
            self.sentinel = rec(outer[:j])
            self.sent_data = rec(outer[j:j + 1])
            self.sent_trail = rec(outer[j + 1:])
        self.recs = [r for r in (self.header, self.colhdr, self.strhdr, self.data, self.coltrail, self.sentinel, self.sent_data, self.sent_trail) if r is not None]

    def colhdr_vals(self):
        """values of the integer fields of the column header"""
        if self.colhdr is None:
            return None
        if self.binary:
            return self.colhdr.vals()
        return [f.v for f in self.colhdr.ints]

    def strhdr_vals(self):
        if self.strhdr is None:
            return None
        if self.binary:
            return self.strhdr.vals()
        return [f.v for f in self.strhdr.ints]


class LRun:
    def __init__(self, wrun, W, ev):
        self.wrun, self.W, self.ev = wrun, W, ev
        self.ret = ev.returns[-1][0] if ev.returns else None
        vc = [c for c in W.calls if not isinstance(c[0], str)]
        self.init = self.put = self.retrn = None
        if vc:
            self.init = vc[0]
            try:
                x = S.wrap(S.F.fn("callv", vc[0][0], *[S.wrap(a) for a in vc[0][1]]))
            except Exception:  # noqa
                x = None
            for c in vc[1:]:
                if x is not None and c[1] and is_rat(c[1][0]) and c[1][0].equals(x):
                    if self.put is None:
                        self.put = c
                elif len(c[1]) == 3 and x is not None and is_rat(c[1][2]) and c[1][2].equals(x):
                    self.retrn = c
        if wrun.binary:
            self.left = W.stream.left()
        else:
            self.left = [l for l in W.lines[W.lines_i:] if not l.is_data]
        self.block = [c for c in W.calls if isinstance(c[0], str) and c[0].startswith(".") and len(c[1]) >= 4 and is_rat(c[1][0]) and S.sym_name(c[1][0]) == "self"]

    def bads(self):
        """provable disagreements met while reading (a slice or a read that cuts what the writer emitted)"""
        out = [b.why for b in self.W.misreads]

        def look(v):
            if is_bad(v):
                out.append(v.why)
            elif isinstance(v, tuple):
                for x in v:
                    look(x)
        look(self.ret)
        for c in self.W.calls:
            for a in c[1]:
                look(a)
        for k, v in self.ev.env.items():
            look(v)
        return out

    def loops(self, sym):
        """while loops whose test depends on the given symbol: [(node, before, after)]"""
        name = S.sym_name(sym)
        return [(n, b, a) for n, b, a, _q in self.W.whiles if is_rat(b) and name and b.depends_on(name)]


class Lab:
    def __init__(self, ctx):
        self.ctx = ctx
        self.state, self.init_fn = S.init_state(ctx)
        self.init_W = getattr(ctx, "_c04_init_world", None)
        self._rstate = None
        self._w, self._l = {}, {}
        self._cb = None
        self._r4 = None

    def rows4(self):
        """the number of rows from which the nonbigmat writers switch to the bigmat layout: read off the regimes of the row count
        (the first regime whose header carries the bigmat flag), so it does not matter where the limit is stored"""
        if self._r4 is not None:
            return self._r4 or None
        vals = set()
        for enc in ("ascii", "binary"):
            for r in self.writer(enc, "nonbigmat"):
                if r.raised or r.header is None:
                    continue
                rows = [f.v for f in r.header.txt.fields()][1] if not r.binary else (r.header.vals()[2] if len(r.header.items) > 2 else None)
                if is_rat(rows) and rows.equals(-S.ROWS):
                    vals.add(r.rows[0])
                    break
        self._r4 = vals.pop() if len(vals) == 1 else 0
        return self._r4 or None

    def rstate(self):
        if self._rstate is None:
            self._rstate = S.reader_state(self.ctx, self.state)
        return self._rstate

    def writer(self, enc, layout, kind="ndarray", cplx=True, cols=(1, 99999998), form_none=False):
        key = (enc, layout, kind, cplx, cols, form_none)
        if key in self._w:
            return self._w[key]
        ctx, state = self.ctx, self.state

        def make(b):
            W = S.base_world(ctx, state, kind, cplx, cols=cols)
            if form_none:
                W.none_syms.add("form")
            for a, v in b.items():
                W.bounds[a] = v
            return W

        def run(W):
            env = {"f": F.sym("f"), "name": F.sym("name"), "matrix": W.matrix, "fmt": F.sym("digits" if enc == "ascii" else "endian"), "form": F.sym("form")}
            ev = S.run_method(W, "self." + WRITERS[(enc, layout)], env)
            wr = WRun(enc, layout, kind, cplx, None, W, ev)
            # the loader is evaluated in the same regime: a comparison it cannot decide splits the regime for both
            wr.lr = self._load(wr) if not wr.raised else None
            return wr
        out = [r for _b, _W, r in S.explore(make, run)]
        out.sort(key=lambda r: (r.rows[0] or 0))
        self._w[key] = out
        return out

    def load(self, wr, sparse=None, truths=None):
        if sparse is None and truths is None and getattr(wr, "lr", None) is not None:
            return wr.lr
        key = (id(wr), repr(sparse), repr(truths))
        if key in self._l:
            return self._l[key]
        try:
            lr = self._load(wr, sparse, truths)
        except S.NeedSplit as e:
            raise S.Unsupported(f"loader: undecided comparison ({e})")
        self._l[key] = lr
        return lr

    def callbacks(self):
        """names of the functions `_get_funcs` hands to the readers as (init, put, retrn): the readers' calls of them are what the rules look at,
        so they are not followed"""
        if self._cb is not None:
            return self._cb
        names = set()
        try:
            for a_or_b in ("ascii", "binary"):
                for r in (0, 1):
                    for mtype in (2, 4):
                        for sp in (S.FALSE, S.TRUE):
                            W = S.base_world(self.ctx, self.state, rows=(1, 100), split_rows=False)
                            W.opaque = set(S.OPAQUE_CORE)
                            ev = S.run_method(W, "self._get_funcs", {"a_or_b": F.sym(repr(a_or_b)), "rows": F.const(100), "r": F.const(r), "mtype": F.const(mtype),
                                                                      "sparse": sp, "allzeros": S.FALSE})
                            ret = ev.returns[-1][0] if ev.returns else None
                            if isinstance(ret, tuple) and len(ret) == 2 and isinstance(ret[1], tuple):
                                for x in ret[1]:
                                    if isinstance(x, S.FuncV):
                                        names.add(x.fn.name)
        except Exception:  # noqa
            pass
        self._cb = names
        return names

    def _load(self, wr, sparse=None, truths=None):
        ctx = self.ctx
        rstate = self.rstate() if wr.binary else dict(self.state)
        extra = {}
        small = {}
        if wr.col is not None:
            extra[atom_id(wr.col)] = (0, S.COLS - 1)
        if wr.r0 is not None:
            extra[atom_id(wr.r0)] = (0, S.ROWS - 1)
            extra[atom_id(wr.r1)] = (1, S.ROWS)
        elif wr.colhdr is not None:
            v = wr.colhdr_vals()
            k = 2 if wr.binary else 1
            first = wr.first
            if first is None and v and len(v) > k and is_rat(v[k]) and atom_id(v[k] - 1) is not None:
                first = v[k] - 1
            if first is not None:
                extra[atom_id(first)] = (0, S.ROWS - 1)
                if v and len(v) > k and is_rat(v[k]):
                    # the loader tells the dense layout by a positive first-row field: its minimum over first row >= 0
                    probe = S.OP4Eval(None, wr.W)
                    old = wr.W.bounds.get(atom_id(first))
                    wr.W.bounds[atom_id(first)] = (0, S.ROWS - 1)
                    try:
                        wr.flag_min = probe.rng(v[k])[0]
                    finally:
                        if old is None:
                            wr.W.bounds.pop(atom_id(first), None)
                        else:
                            wr.W.bounds[atom_id(first)] = old
                    if wr.flag_min is not None and wr.flag_min < 1:
                        # reported once by the rule; the rest of the round trip is evaluated for first row >= 1
                        extra[atom_id(first)] = (1, S.ROWS - 1)
        W2 = S.loader_world(ctx, rstate, wr.W, wr.binary, truths=truths, extra_bounds=extra)
        W2.opaque |= self.callbacks()
        W2.small.update(small)
        env = {"patternlist": F.sym("patternlist"), "listonly": F.sym("listonly"), "sparse": S.FALSE if sparse is None else sparse}
        ev2 = S.run_method(W2, "self._loadop4_binary" if wr.binary else "self._loadop4_ascii", env)
        return LRun(wr, W2, ev2)


def lab(ctx):
    """the runs of one checker invocation (kept on the context: the rules share them)"""
    ctx = getattr(ctx, "_base", ctx)          # the rules see a proxy of the context (c04.Scoped): the runs live on the context itself
    got = getattr(ctx, "_c04_lab", None)
    if got is None:
        got = ctx._c04_lab = Lab(ctx)
    return got
