"""Writer and loader runs for the C04 rules: what each OUTPUT4 writer emits for a generic matrix (one generic column, one generic string),
cut into records, and what the matching loader does with exactly those records.  Everything is a value (c04_sem.OP4Eval); nothing here
looks at how op4.py spells or arranges the computation."""
from __future__ import annotations

from . import e2_formula as F
from . import c04_sem as S
from .c04_txt import Fld, Lit, Txt, PackV, is_rat, atom_id, const_int, is_bad
from .e2_eval import is_unknown

WRITERS = {
    ("ascii", "dense"): "_write_ascii", ("ascii", "bigmat"): "_write_ascii_bigmat", ("ascii", "nonbigmat"): "_write_ascii_nonbigmat",
    ("binary", "dense"): "_write_binary", ("binary", "bigmat"): "_write_binary_bigmat", ("binary", "nonbigmat"): "_write_binary_nonbigmat",
}


class Rec:
    """one record of a binary trace: the items of one pack call"""

    def __init__(self, pack, items, frames, node):
        self.pack, self.items, self.frames, self.node = pack, items, frames, node

    def ints(self):
        return all((not it.run) and it.code in "iIqQlL" for it in self.items)

    def vals(self):
        return [it.value for it in self.items]

    def __repr__(self):
        return f"Rec[{len(self.frames)}]{self.items!r}"


class WRun:
    def __init__(self, enc, layout, kind, cplx, bounds, W, ev):
        self.enc, self.layout, self.kind, self.cplx, self.bounds, self.W, self.ev = enc, layout, kind, cplx, bounds, W, ev
        self.binary = enc == "binary"
        self.raised = bool(W.raises)
        lo, hi = W.bounds[atom_id(S.ROWS)]
        self.rows = (lo, hi)
        self.problems = []
        self.header = self.colhdr = self.strhdr = self.data = self.coltrail = self.sentinel = self.sent_data = self.sent_trail = None
        self.col = self.r0 = self.r1 = None
        if self.raised:
            return
        if self.binary:
            self._cut_binary()
        else:
            self._cut_ascii()
        # generic column / string symbols
        if self.colhdr is not None and self.colhdr.frames:
            fr = self.colhdr.frames[0]
            if fr.kind == "for" and is_rat(fr.elems):
                self.col = fr.elems
        if self.strhdr is not None:
            for fr in reversed(self.strhdr.frames):
                if fr.kind == "for" and isinstance(fr.elems, tuple) and len(fr.elems) == 2 and all(is_rat(x) for x in fr.elems):
                    self.r0, self.r1 = fr.elems
                    break

    def regime(self):
        lo, hi = self.rows
        return f"rows in [{lo}, {'...' if hi is None else hi}]"

    def _cut_ascii(self):
        lines, prob = S.lines_of(self.W.emits)
        self.lines = lines
        self.problems = prob
        nd = [l for l in lines if not l.is_data]
        if not nd:
            return
        self.header = nd[0]
        inner = [l for l in nd[1:] if len(l.frames) >= 1]
        if inner:
            self.colhdr = inner[0]
            deeper = [l for l in inner[1:] if len(l.frames) > len(self.colhdr.frames)]
            if deeper:
                self.strhdr = deeper[0]
        outer = [l for l in nd[1:] if len(l.frames) == 0]
        if outer:
            self.sentinel = outer[-1]
        self.data = [l for l in lines if l.is_data and len(l.frames) >= 1]
        sd = [l for l in lines if l.is_data and len(l.frames) == 0]
        self.sent_data = sd[-1] if sd else None

    def _cut_binary(self):
        items, prob = S.items_of(self.W.emits)
        self.problems = prob
        recs = []
        for it, fr, node, pack in items:
            if recs and recs[-1].pack is pack:
                recs[-1].items.append(it)
            else:
                recs.append(Rec(pack, [it], fr, node))
        self.recs = recs
        self.items = [it for it, _f, _n, _p in items]
        if not recs:
            return
        self.header = recs[0]
        inner = [r for r in recs[1:] if len(r.frames) >= 1]
        if inner:
            self.colhdr = inner[0]
            d0 = len(self.colhdr.frames)
            deeper = [r for r in inner[1:] if len(r.frames) > d0]
            runs = [r for r in inner[1:] if any(it.run for it in r.items)]
            if deeper:
                sh = [r for r in deeper if r.ints()]
                self.strhdr = sh[0] if sh else None
            self.data = runs[0] if runs else None
            same = [r for r in inner[1:] if len(r.frames) == d0 and r.ints() and not any(it.run for it in r.items)]
            self.coltrail = same[-1] if same else None
        outer = [r for r in recs[1:] if len(r.frames) == 0]
        if len(outer) >= 3:
            self.sentinel, self.sent_data, self.sent_trail = outer[-3], outer[-2], outer[-1]

    def colhdr_vals(self):
        """values of the integer fields of the column header"""
        if self.colhdr is None:
            return None
        if self.binary:
            return self.colhdr.vals()
        return [f.v for f in self.colhdr.ints]

    def strhdr_vals(self):
        if self.strhdr is None:
            return None
        if self.binary:
            return self.strhdr.vals()
        return [f.v for f in self.strhdr.ints]


class LRun:
    def __init__(self, wrun, W, ev):
        self.wrun, self.W, self.ev = wrun, W, ev
        self.ret = ev.returns[-1][0] if ev.returns else None
        vc = [c for c in W.calls if not isinstance(c[0], str)]
        self.init = self.put = self.retrn = None
        if vc:
            self.init = vc[0]
            try:
                x = S.wrap(S.F.fn("callv", vc[0][0], *[S.wrap(a) for a in vc[0][1]]))
            except Exception:  # noqa
                x = None
            for c in vc[1:]:
                if x is not None and c[1] and is_rat(c[1][0]) and c[1][0].equals(x):
                    if self.put is None:
                        self.put = c
                elif len(c[1]) == 3 and x is not None and is_rat(c[1][2]) and c[1][2].equals(x):
                    self.retrn = c
        if wrun.binary:
            self.left = W.stream.left()
        else:
            self.left = [l for l in W.lines[W.lines_i:] if not l.is_data]
        self.block = [c for c in W.calls if c[0] == "._get_ascii_block"]

    def bads(self):
        """provable disagreements met while reading (a slice or a read that cuts what the writer emitted)"""
        out = []

        def look(v):
            if is_bad(v):
                out.append(v.why)
            elif isinstance(v, tuple):
                for x in v:
                    look(x)
        look(self.ret)
        for c in self.W.calls:
            for a in c[1]:
                look(a)
        for k, v in self.ev.env.items():
            look(v)
        return out

    def loops(self, sym):
        """while loops whose test depends on the given symbol: [(node, before, after)]"""
        name = S.sym_name(sym)
        return [(n, b, a) for n, b, a, _q in self.W.whiles if is_rat(b) and name and b.depends_on(name)]


class Lab:
    def __init__(self, ctx):
        self.ctx = ctx
        self.state, self.init_fn = S.init_state(ctx)
        self._rstate = None
        self._w, self._l = {}, {}

    def rows4(self):
        return const_int(self.state.get("self._rows4bigmat")) if is_rat(self.state.get("self._rows4bigmat")) else None

    def rstate(self):
        if self._rstate is None:
            self._rstate = S.reader_state(self.ctx, self.state)
        return self._rstate

    def writer(self, enc, layout, kind="ndarray", cplx=True, cols=(1, 99999998), form_none=False):
        key = (enc, layout, kind, cplx, cols, form_none)
        if key in self._w:
            return self._w[key]
        ctx, state = self.ctx, self.state

        def make(b):
            W = S.base_world(ctx, state, kind, cplx, cols=cols)
            if form_none:
                W.none_syms.add("form")
            for a, v in b.items():
                W.bounds[a] = v
            return W

        def run(W):
            env = {"f": F.sym("f"), "name": F.sym("name"), "matrix": W.matrix, "digits": F.sym("digits"), "endian": F.sym("endian"), "form": F.sym("form")}
            return S.run_method(W, "self." + WRITERS[(enc, layout)], env)
        out = [WRun(enc, layout, kind, cplx, b, W, ev) for b, W, ev in S.explore(make, run)]
        out.sort(key=lambda r: (r.rows[0] or 0))
        self._w[key] = out
        return out

    def load(self, wr, sparse=None, truths=None):
        key = (id(wr), repr(sparse), repr(truths))
        if key in self._l:
            return self._l[key]
        ctx = self.ctx
        rstate = self.rstate() if wr.binary else dict(self.state)
        extra = {}
        small = {}
        if wr.col is not None:
            extra[atom_id(wr.col)] = (0, S.COLS - 1)
        if wr.r0 is not None:
            extra[atom_id(wr.r0)] = (0, S.ROWS - 1)
            extra[atom_id(wr.r1)] = (1, S.ROWS)
            r4 = self.rows4()
            if wr.rows[1] is not None and r4 is not None and wr.rows[1] < r4 and r4 <= 2 ** S.M.SHIFT:
                small[repr(wr.r0 + 1)] = S.M.SHIFT
        elif wr.colhdr is not None:
            v = wr.colhdr_vals()
            k = 2 if wr.binary else 1
            if v and len(v) > k and is_rat(v[k]) and atom_id(v[k] - 1) is not None:
                extra[atom_id(v[k] - 1)] = (0, S.ROWS - 1)
        W2 = S.loader_world(ctx, rstate, wr.W, wr.binary, truths=truths, extra_bounds=extra)
        W2.small.update(small)
        env = {"patternlist": F.sym("patternlist"), "listonly": F.sym("listonly"), "sparse": S.FALSE if sparse is None else sparse}
        try:
            ev2 = S.run_method(W2, "self._loadop4_binary" if wr.binary else "self._loadop4_ascii", env)
        except S.NeedSplit as e:
            raise S.Unsupported(f"loader: undecided comparison ({e})")
        lr = LRun(wr, W2, ev2)
        self._l[key] = lr
        return lr


_LABS = {}


def lab(ctx):
    k = id(ctx)
    if k not in _LABS:
        _LABS.clear()
        _LABS[k] = Lab(ctx)
    return _LABS[k]
