"""C10 helper: value-level evaluation for the cycle-counting / fatigue-damage rules (built on e2_eval.AutoEvaluator and sem.py).

Nothing of the repo is imported or executed.  `XSem(ctx, fn, facts=...)` evaluates a function body on symbols like `sem.Sem`, and on top of
AutoEvaluator

  * follows every `if` the facts do not decide: both arms are evaluated, the test value (with its polarity) is kept as *guard* of the
    stores / returns / raises met in the arm, names bound differently are merged into  ite(test, a, b)  (`x = True` / `x = False` arms
    merge into the test itself), and an arm that ends in return / raise / continue / break leaves the negated test in force for the
    rest of the block - a guard is recognised by what it implies where it is used, not by how it is written;
  * enters `for` / `while` bodies once with the loop variable as the symbol `_i<depth>` (enumerate / zip / range / plain iteration are
    bound element-wise), names carried around the loop are fresh symbols; comprehensions are  comp(element, length)  over the same symbols;
  * decides tests with a three-valued *truth* function over values and `Facts` (truth values of opaque atoms, numbers for atoms so that
    comparisons are decided by arithmetic) - `not`, De Morgan, `bool()`, chained comparisons, swapped operands are immaterial;
  * versions array names that are re-bound (`G2max = np.sqrt(G2max)`), resolves stores through views passed to helpers
    (`out[jj] = v` with `out = Count[j]` is a store into Count[(j, jj)]), unpacks opaque values (`a, b = f()` is idx(f(), 0), idx(f(), 1)),
    expands `*tuple` arguments, folds module-level constants;
  * writes equivalent numpy spellings the same way: x.max() / np.max(x) (max, min, sum, any, all, var, std, mean, argmax, argmin),
    a.dot(b) / a @ b / np.dot(a, b), np.diff(x) / x[1:] - x[:-1], np.square(x) / x * x, x.T / np.transpose(x), len(x) / x.shape[0],
    np.hstack / np.concatenate, X[j][k] / X[j, k] for scalar j, zip(b[:-1], b[1:]) element k / b[k], b[k + 1];
  * follows helpers of the `inline` table with the same machinery (sub-evaluations share the trace), wherever they are called from: a helper
    of another module resolves its own bare-name calls and constants in *its* module; functions defined inside the evaluated function
    (closures), lambdas bound to a name, chosen by a ternary or handed to map() are helpers too.  What a helper does to the arrays it is
    handed lands in the caller's arrays: `row[k] = v` and the in-place `row *= a` on a parameter bound to X[j] are stores into X[(j, k)] /
    X[j] (a view taken by a plain assignment `row = X[j]` behaves the same; masks and index arrays computed by calls are copies), `arr += x`
    on a whole array of the caller is a new version of that array for the caller, and `X[j] = helper(...)` with a freshly allocated row filled
    element by element is also listed as the stores X[j, k] = ... (XSem.cells);
  * element-wise constructs have one value: zip / enumerate / range / map / list / tuple / np.array / np.fromiter / [*xs] are indexed and
    iterated element by element (`for a, c in list(zip(A, C))` binds A[k], C[k]; map(f, A, C) is [f(a, c) for a, c in zip(A, C)]); a
    comprehension over a literal sequence is the tuple of its elements; `xs = []; for ...: xs.append(v)` is the comprehension;
    X[j, :] is X[j]; X[len(X) - k] is X[-k]; f(*g(...), x) fills the leading parameters of lfilter-like callees;
    np.full(n, True / False / c) is the constant like np.ones / np.zeros; `pv = PV` for two arrays is a second name, not a new array.

  * (pass 4) effects are followed or declared lost: `B = A.copy()` / np.array(A) is a new array (stores into B leave A alone), `X[:] = v` outside
    loops and tests is a new content with the old shape, `f(..., out=X[j])` is a store into X[j], allocations inside a list / tuple / dict display
    or a comprehension over a literal sequence are arrays of their own (`<arr:k>`), loops over literal sequences (zip / enumerate / dict.items() /
    range(const)) are executed element by element, counted `while i < n: ...; i += 1` loops are `for i in range(...)`, early `continue` / `return`
    inside the arm of a *decided* `if` (and inside with / try bodies) keep guarding the rest of the enclosing block, `match` statements over
    literals are if / elif chains.  A store through a name that does not hold a view of a known array, an in-place operator on such a parameter,
    a tracked array handed to an own-module function that is not followed, or a statement the evaluator does not execute is recorded in
    `Trace.lost`; c10.Careful turns every failed comparison of a rule whose evaluations lost an effect into "not decided" (exit 2);
  * (pass 4) more spellings with one value: np.greater_equal / operator.ge / np.subtract / np.multiply(..., out=) / np.negative / np.fabs / np.amax,
    np.r_ / np.c_ / np.append / np.insert(x, 0, v) (concatenations), np.where(c, True, False), np.arange(0, n, 1, dtype=float), x.values /
    x.to_numpy(), T.loc[:, c] / T.iloc[:, k] / T.amp / T[:, k] for a cycle table T (columns amp, mean, count), TABLE[key] of a literal dict,
    a character of a string literal, `"%d" % x`, sep.join(...), f"{4}", f(**{...}), callees reached through a local (alias, operator table chosen
    by a ternary, functools.partial, nested def), module constants bound by tuple assignment or computed from earlier constants, zip() as long as
    its shortest argument, (s * X)[k] = s * X[k] for a full reduction s, comp[...][k] / np.array([[a, b] for ...])[:, 1];
  * (pass 4) string literals compare by their text and `x in (literals)` is decided, so a regime can be selected by binding a parameter to
    its literal.

`degree(...)` computes the degree of homogeneity of a value under a rescaling of designated roots (dimensional analysis); `Degrees.asof(v, seq)`
judges arrays with the content they had when the evaluation clock stood at `seq`.
"""
from __future__ import annotations

import ast
from fractions import Fraction

from . import e2_formula as F
from .core import Unsupported
from .e1_srcmodel import dotted
from .e2_eval import AutoEvaluator, Unknown, is_unknown, need, _vec_binop, _binop
from .sem import unfn

TRUE, FALSE, NONE = F.sym("True"), F.sym("False"), F.sym("None")
ALLOCATORS = {"np.zeros", "np.empty", "np.ones", "np.zeros_like", "np.empty_like", "np.ones_like", "np.full", "np.full_like", "np.tile"}
STAR_ARITY = {"signal.lfilter": 3, "lfilter": 3, "scipy.signal.lfilter": 3, "signal.filtfilt": 3, "filtfilt": 3}     # (b, a, x)
METHODS = {"max", "min", "sum", "any", "all", "var", "std", "mean", "argmax", "argmin", "ptp"}


# ---------------------------------------------------------------------------------------------------------------- values
def same(a, b):
    if a is None or b is None or is_unknown(a) or is_unknown(b):
        return False
    if isinstance(a, tuple) or isinstance(b, tuple):
        return isinstance(a, tuple) and isinstance(b, tuple) and len(a) == len(b) and all(same(x, y) for x, y in zip(a, b))
    try:
        return need(a).equals(need(b))
    except Unsupported:
        return False


def wrap(v):
    if isinstance(v, tuple):
        return F.fn("tuple", *[wrap(x) for x in v])
    return need(v)


def untuple(v):
    """an opaque tuple(...) value back as a Python tuple (one level)"""
    if isinstance(v, tuple) or v is None or is_unknown(v) or isinstance(v, str):
        return v
    u = unfn(v)
    if u is not None and u[0] == "tuple" and not any(isinstance(x, str) for x in u[1]):
        return tuple(u[1])
    return v


def app(v, name=None):
    """(name, args) if v is exactly one opaque application (of `name` when given), else None"""
    if isinstance(v, (tuple, str)):
        return None
    u = unfn(v)
    if u is None or (name is not None and u[0] != name):
        return None
    return u


def head(v):
    u = app(v)
    return u[0] if u else None


def sym_of(v):
    if v is None or is_unknown(v) or isinstance(v, (tuple, str)):
        return None
    try:
        if not v.d.is_const() or v.d.const_value() != 1 or len(v.n.t) != 1:
            return None
        (m, c), = v.n.t.items()
        if c != 1 or len(m) != 1 or m[0][1] != 1:
            return None
        d = F.atom_desc(m[0][0])
    except Exception:  # noqa
        return None
    return d[1] if d[0] == "s" else None


def const_of(v):
    if v is None or is_unknown(v) or isinstance(v, (tuple, str)):
        return None
    try:
        if v.is_const():
            return v.const_value()
    except Exception:  # noqa
        return None
    return None


def single_atom(v):
    """atom id if v is exactly one atom (coefficient 1, exponent 1)"""
    if v is None or is_unknown(v) or isinstance(v, (tuple, str)):
        return None
    if not v.d.is_const() or v.d.const_value() != 1 or len(v.n.t) != 1:
        return None
    (m, c), = v.n.t.items()
    if c != 1 or len(m) != 1 or m[0][1] != 1:
        return None
    return m[0][0]


def _key_rat(k):
    return F.Rat(F._poly_from_key(k[1]), F._poly_from_key(k[2]))


def atom_args(aid):
    """values nested in an atom"""
    d = F.atom_desc(aid)
    if d[0] == "s":
        return []
    if d[0] in ("exp", "sin", "cos", "sqrt"):
        return [F.Rat(F._poly_from_key(d[1]))]
    if d[0] == "fn":
        return [_key_rat(k) for k in d[2] if not isinstance(k, str)]
    return []


def walk(v, _seen=None):
    """v and every value nested in it: the atoms of its polynomials (as values) and, recursively, their arguments"""
    if isinstance(v, tuple):
        for x in v:
            yield from walk(x, _seen)
        return
    if v is None or is_unknown(v) or isinstance(v, str):
        return
    seen = set() if _seen is None else _seen
    yield v
    for a in sorted(v.n.atoms() | v.d.atoms()):
        if a in seen:
            continue
        seen.add(a)
        av = F.Rat(F.Poly.atom(a))
        yield av
        for x in atom_args(a):
            yield from walk(x, seen)


def find(v, pred):
    return [x for x in walk(v) if pred(x)]


def depends(v, name):
    return any(sym_of(x) == name for x in walk(v))


def apps(v, prefix):
    """every nested application whose name starts with prefix: [(name, args, value)]"""
    out, seen = [], set()
    for x in walk(v):
        u = app(x)
        if u is not None and u[0].startswith(prefix):
            k = (x.n.key(), x.d.key())
            if k not in seen:
                seen.add(k)
                out.append((u[0], u[1], x))
    return out


def peel(v):
    """idx(idx(B, a), b) / idx(B, tuple(a, b))  ->  (B, [a, b]) ; a non-idx value -> (v, [])"""
    ix = []
    while True:
        u = app(v, "idx")
        if u is None or len(u[1]) != 2 or isinstance(u[1][0], str):
            return v, ix
        t = app(u[1][1], "tuple") if not isinstance(u[1][1], str) else None
        ix = (list(t[1]) if t is not None else [u[1][1]]) + ix
        v = u[1][0]


def _full_slice(x):
    u = app(x, "slice") if not isinstance(x, (str, tuple)) else None
    return u is not None and all(sym_of(p) == "None" for p in u[1])


def norm_index(ix):
    """X[j, :] is X[j]: trailing full slices of an index tuple select everything and are dropped"""
    t = app(ix, "tuple") if not isinstance(ix, (str, tuple)) and not is_unknown(ix) else None
    if t is None or len(t[1]) < 2:
        return ix
    parts = list(t[1])
    while len(parts) > 1 and _full_slice(parts[-1]):
        parts.pop()
    if len(parts) == len(t[1]):
        return ix
    return parts[0] if len(parts) == 1 else F.fn("tuple", *parts)


def devectorise(v):
    """[f(X[k], Y[k]) for k in range(len(X))] written as the element-wise expression f(X, Y); only for elements a rule knows to be free of
    reductions (a comparison of differences with a tolerance), because the evaluator writes dot products as products.  v itself when it is
    not such a comprehension"""
    u = app(v, "comp")
    if u is None or len(u[1]) != 2 or isinstance(u[1][0], str):
        return v
    elt = u[1][0]
    var = sorted({sym_of(x) for x in walk(elt) if (sym_of(x) or "").startswith("_i")})
    if len(var) != 1:
        return v
    mp = {}
    for _, a, x in apps(elt, "idx"):
        if len(a) == 2 and not isinstance(a[0], str) and not isinstance(a[1], str) and sym_of(a[1]) == var[0] and not depends(a[0], var[0]):
            mp[single_atom(x)] = a[0]
    if not mp:
        return v
    try:
        out = F._subs_poly(elt.n, mp) / F._subs_poly(elt.d, mp)
    except Unsupported:
        return v
    return v if depends(out, var[0]) else out


def _boolconst(v):
    """True / False for the constants the evaluator writes for them (the literals are 1 / 0, the names are symbols)"""
    s = sym_of(v)
    if s in ("True", "False"):
        return s == "True"
    c = const_of(v)
    if c is not None and c in (0, 1):
        return c == 1
    return None


def mk_not(c):
    u = app(c, "not")
    if u is not None:
        return u[1][0]
    t = _boolconst(c)
    if t is not None:
        return F.const(0) if t else F.const(1)
    return F.fn("not", need(c))


def mk_ite(c, a, b):
    if is_unknown(a) or is_unknown(b) or a is None or b is None:
        return a if is_unknown(a) or a is None else b
    if isinstance(a, tuple) or isinstance(b, tuple):
        if isinstance(a, tuple) and isinstance(b, tuple) and len(a) == len(b):
            return tuple(mk_ite(c, x, y) for x, y in zip(a, b))
        return Unknown("merge of a tuple with something else")
    if same(a, b):
        return a
    ta, tb = _boolconst(a), _boolconst(b)
    if ta is True and tb is False:
        return c
    if ta is False and tb is True:
        return mk_not(c)
    return F.fn("ite", need(c), need(a), need(b))


def conj(parts):
    """value of the conjunction of guard entries [(value, polarity)]"""
    vs = [v if pol else mk_not(v) for v, pol in parts]
    if not vs:
        return TRUE
    if len(vs) == 1:
        return vs[0]
    return F.fn("bool:And", *[need(x) for x in vs])


# ----------------------------------------------------------------------------------------------------------------- truth
class Facts:
    """what a regime knows: truth values of opaque values, numbers for atoms (comparisons are then arithmetic), predicates on values"""

    def __init__(self, truths=(), nums=(), preds=()):
        self.truths = list(truths)     # [(value, bool)]
        self.nums = {}
        for v, x in nums:
            self.num_set(v, x)
        self.preds = list(preds)       # [value -> bool | None]
        self.elements = None           # [Facts]: the elements of arrays (np.any / np.all quantify over them)

    def num_set(self, v, x):
        a = single_atom(v)
        if a is None:
            raise Unsupported(f"a number can only be given to an atom, not to {v!r}")
        self.nums[a] = Fraction(x)

    def num(self, v):
        if v is None or is_unknown(v) or isinstance(v, (tuple, str)):
            return None
        try:
            def ev(p):
                tot = Fraction(0)
                for m, c in p.t.items():
                    t = c
                    for a, e in m:
                        x = self.nums[a] if a in self.nums else self._atom_num(a)
                        if x is None:
                            return None
                        t *= x ** e
                    tot += t
                return tot
            n, d = ev(v.n), ev(v.d)
        except (ZeroDivisionError, OverflowError):
            return None
        if n is None or d is None or d == 0:
            return None
        return n / d

    def _digitize(self, u, k):
        """numpy.digitize(x, b, right) for numbers x against an increasing edge vector b of which the first and the last edge and the length
        are known: 0 at or below / below the first edge, len(b) above / at or above the last one (right=True / False), and `self.interior`
        (the caller enumerates 1 .. len(b) - 1) for a value inside"""
        pos, kw = [], {}
        for x in u[1]:
            if isinstance(x, str):
                return None
            w = app(x)
            if w is not None and w[0].startswith("kw:"):
                kw[w[0][3:]] = w[1][0]
            else:
                pos.append(x)
        names = ["x", "bins", "right"]
        arg = {n: v for n, v in zip(names, pos)}
        arg.update(kw)
        if set(arg) - set(names) or "x" not in arg or "bins" not in arg:
            return None
        x, b = arg["x"], arg["bins"]
        if k is not None:
            tu = app(x, "tuple")
            if tu is None or not (-len(tu[1]) <= k < len(tu[1])) or isinstance(tu[1][k], str):
                return None
            x = tu[1][k]
        right = truth(arg["right"], self) if "right" in arg else False
        xv, b0, bn, ln = self.num(x), self.num(F.fn("idx", b, F.const(0))), self.num(F.fn("idx", b, F.const(-1))), self.num(F.fn("len", b))
        if right is None or None in (xv, b0, bn, ln) or getattr(self, "interior", None) is None:
            return None
        if (xv <= b0) if right else (xv < b0):
            return Fraction(0)
        if (xv > bn) if right else (xv >= bn):
            return ln
        return Fraction(self.interior)

    def _atom_num(self, a):
        """max(...) / min(...) / abs(...) of numbers"""
        d = F.atom_desc(a)
        if d[0] == "fn" and d[1] in ("idx", "call:np.digitize"):
            av = F.Rat(F.Poly.atom(a))
            u = app(av)
            if d[1] == "call:np.digitize":
                return self._digitize(u, None)
            if len(u[1]) == 2 and not isinstance(u[1][0], str) and app(u[1][0], "call:np.digitize") is not None and const_of(u[1][1]) is not None \
                    and const_of(u[1][1]).denominator == 1:
                return self._digitize(app(u[1][0]), int(const_of(u[1][1])))
            return None
        if d[0] != "fn" or d[1] not in ("call:max", "call:min", "call:np.maximum", "call:np.minimum", "call:np.fmax", "call:np.fmin", "abs", "call:np.max", "call:np.min", "tuple"):
            return None
        xs = []
        for k in d[2]:
            if isinstance(k, str):
                return None
            v = _key_rat(k)
            u = app(v, "tuple")
            if u is not None and d[1] in ("call:max", "call:min", "call:np.max", "call:np.min") and len(d[2]) == 1:
                ys = [self.num(y) for y in u[1]]
                if any(y is None for y in ys) or not ys:
                    return None
                return max(ys) if d[1].endswith("max") else min(ys)
            x = self.num(v)
            if x is None:
                return None
            xs.append(x)
        if d[1] == "abs" and len(xs) == 1:
            return abs(xs[0])
        if d[1] in ("call:max", "call:np.maximum", "call:np.fmax") and len(xs) >= 2:
            return max(xs)
        if d[1] in ("call:min", "call:np.minimum", "call:np.fmin") and len(xs) >= 2:
            return min(xs)
        return None

    def lookup(self, v):
        for p in self.preds:
            r = p(v)
            if r is not None:
                return r
        for w, b in self.truths:
            if same(v, w):
                return b
        return None


_CMP = {"Eq": lambda d: d == 0, "NotEq": lambda d: d != 0, "Lt": lambda d: d < 0, "LtE": lambda d: d <= 0, "Gt": lambda d: d > 0,
        "GtE": lambda d: d >= 0}
_NEG = {"NotEq": "Eq", "IsNot": "Is", "NotIn": "In"}


def truth(v, facts):
    """three-valued truth of a value under the facts"""
    if v is None or is_unknown(v) or isinstance(v, (tuple, str)):
        return None
    c = const_of(v)
    if c is not None:
        return c != 0
    s = sym_of(v)
    if s == "True":
        return True
    if s in ("False", "None"):
        return False
    r = facts.lookup(v) if facts is not None else None
    if r is not None:
        return r
    u = app(v)
    if u is None:
        return None
    nm, a = u
    if any(isinstance(x, str) for x in a):
        return None
    if nm in ("not", "invert"):
        r = truth(a[0], facts)
        return None if r is None else (not r)
    if nm in ("bool:And", "mask:BitAnd"):
        rs = [truth(x, facts) for x in a]
        if any(r is False for r in rs):
            return False
        return True if all(r is True for r in rs) else None
    if nm in ("bool:Or", "mask:BitOr"):
        rs = [truth(x, facts) for x in a]
        if any(r is True for r in rs):
            return True
        return False if all(r is False for r in rs) else None
    if nm == "ite":
        tc = truth(a[0], facts)
        if tc is True:
            return truth(a[1], facts)
        if tc is False:
            return truth(a[2], facts)
        ra, rb = truth(a[1], facts), truth(a[2], facts)
        return ra if ra is not None and ra == rb else None
    if nm in ("call:np.any", "call:np.all") and len(a) == 1 and facts is not None and getattr(facts, "elements", None):
        rs = [truth(a[0], f) for f in facts.elements]
        if any(r is None for r in rs):
            return None
        return any(rs) if nm.endswith("any") else all(rs)
    if nm in ("call:np.any", "call:np.all") and len(a) == 1 and app(a[0], "tuple") is not None:
        return truth(F.fn("bool:Or" if nm.endswith("any") else "bool:And", *app(a[0], "tuple")[1]), facts)
    if nm in ("call:bool", "call:np.any", "call:np.all") and len(a) == 1:
        return truth(a[0], facts)
    if nm.startswith("cmp:") and len(a) == 2:
        op = nm[4:]
        if op in _NEG:
            r = truth(F.fn("cmp:" + _NEG[op], a[0], a[1]), facts)
            return None if r is None else (not r)
        if op in ("Eq", "Is"):
            pa, pb = str_parts(a[0]), str_parts(a[1])
            if pa is not None and pb is not None and len(pa) == len(pb) == 1 and isinstance(pa[0], str) and isinstance(pb[0], str):
                return pa[0] == pb[0]                    # two string literals
        if op in _CMP:
            try:
                d = a[0] - a[1]
            except Unsupported:
                return None
            cd = const_of(d)
            if cd is None and facts is not None:
                cd = facts.num(d)
            if cd is not None:
                return _CMP[op](cd)
            return None
        if op in ("Eq", "Is") and facts is not None:
            return facts.lookup(F.fn(nm, a[1], a[0]))
        if op == "In":
            t = app(a[1], "tuple")
            if t is not None and not any(isinstance(x, str) for x in t[1]):
                rs = [truth(F.fn("cmp:Eq", a[0], x), facts) for x in t[1]]
                if any(r is True for r in rs):
                    return True
                return False if all(r is False for r in rs) else None
            rg = app(a[1], "range")
            if rg is not None and 1 <= len(rg[1]) <= 2 and not any(isinstance(x, str) for x in rg[1]):
                # (pass 5) `k in range(n)` for an integer k (an index): 0 <= k < n;  range(a, b): a <= k < b
                lo, hi = (F.const(0), rg[1][0]) if len(rg[1]) == 1 else (rg[1][0], rg[1][1])
                return truth(F.fn("bool:And", F.fn("cmp:GtE", a[0], lo), F.fn("cmp:Lt", a[0], hi)), facts)
    return None


# --------------------------------------------------------------------------------------------------------------- strings
def str_parts(v):
    """a string value as a list of parts (str literal text | value): literals, `+` concatenations, f-strings and str() give the same list"""
    if v is None or is_unknown(v) or isinstance(v, tuple):
        return None
    s = sym_of(v)
    if s is not None:
        if len(s) >= 2 and s[0] in "'\"" and s[-1] == s[0]:
            try:
                return [ast.literal_eval(s)]
            except Exception:  # noqa
                return None
        return None
    u = app(v, "str")
    if u is not None:
        out = []
        for x in u[1]:
            p = str_parts(x) if not isinstance(x, str) else None
            out += p if p is not None else [x]
        return out
    if app(v, "fmt") is not None:
        return [v]
    u = app(v, "ite")
    if u is not None and len(u[1]) == 3 and not any(isinstance(x, str) for x in u[1]) and str_parts(u[1][1]) is not None and str_parts(u[1][2]) is not None:
        return [v]          # (pass 5) a string chosen by a test ("(" if right else "["): one part, resolved by whoever decides the test
    return None


def _format_literal(template, nodes, values):
    """parts of `template.format(*values)` for a literal template (None: a field this does not read - names, attribute / index look-ups, nested
    specs, mixed numbering - or an argument that is not one scalar value)"""
    import string
    try:
        fields = list(string.Formatter().parse(template))
    except ValueError:
        return None
    parts, auto, manual = [], 0, False
    for lit, name, spec, conv in fields:
        if lit:
            parts.append(lit)
        if name is None:
            continue
        if "{" in (spec or "") or "}" in (spec or ""):
            return None
        if name == "":
            if manual:
                return None
            k, auto = auto, auto + 1
        elif name.isdigit():
            if auto:
                return None
            k, manual = int(name), True
        else:
            return None
        if k >= len(values):
            return None
        x, a = values[k], nodes[k]
        if is_unknown(x) or isinstance(x, tuple):
            return None
        plain = not spec and conv in (None, "s")
        c = const_of(x)
        sp = str_parts(x)
        if plain and sp is None and c is not None and c.denominator == 1 and not (isinstance(a, ast.Constant) and isinstance(a.value, float)):
            parts.append(str(int(c)))
        elif plain and sp is not None:
            parts += sp
        else:
            try:
                parts.append(F.fn("fmt", need(x), spec or "", "" if conv in (None, "s") else str(ord(conv))))
            except Unsupported:
                return None
    return parts


def mk_str(parts):
    out = []
    for p in parts:
        if isinstance(p, str) and out and isinstance(out[-1], str):
            out[-1] += p
        else:
            out.append(p)
    if len(out) == 1 and isinstance(out[0], str):
        return F.sym(repr(out[0]))
    return F.fn("str", *[F.sym(repr(p)) if isinstance(p, str) else need(p) for p in out])


# ------------------------------------------------------------------------------------------------------------- evaluator
class Trace:
    def __init__(self):
        self.cells = []      # (root name, index value, stored value, node)          - the list Sem.cells() reads
        self.cellx = []      # per cell: dict(guard=((value, pol), ...), loops=((symbol name, domain value), ...), seq=int, aug=bool)
        self.calls = []      # (name, [positional], {keyword}, node)
        self.callx = []      # per call: dict(guard, loops, seq)
        self.tests = []      # (value, node, guard, kind)
        self.raises = []     # (node, guard)
        self.loops = []      # (symbol name, domain value, iterable value, node)
        self.inits = {}      # buffer symbol -> value it was created from
        self.allocs = {}     # buffer symbol -> (allocator name, [positional values], {keyword: value}) when it was created by np.zeros / np.tile / ...
        self.unbound = []    # (name, node, guard): a name read that nothing binds on the path (a local before its assignment, or no such global)
        self.rebinds = []    # (old buffer symbol, new buffer symbol): whole-array in-place updates made inside helpers
        self.seq = 0
        self.act = 0
        self.nver = {}
        self.dtypes = False  # opt-in: conversions to a floating dtype stay visible as  asfloat(x),  other casts as  ascast(x, dtype)
        self.floats = []     # nodes that bring a floating value into the evaluated code without leaving a mark in the values: float
                             # literals (1.0 * x is x), true divisions, casts the evaluator writes as the identity
        self.lost = []       # (what, node): effects the evaluator could not attribute to an array it tracks (a store through a name whose value is
                             # not a view of a known array, a tracked array handed to an own helper that is not followed): the recorded content of
                             # the arrays may then be incomplete, so nothing that is read from them may be judged
        self.compvars = {}   # key of a comp(...) value -> name of its own loop symbol
        self.born_exact = {} # (pass 5) ... -> were all its array operands read at that moment (subscripts of the arrays themselves, not locals computed earlier)
        self.born = {}       # (pass 5) key of a comparison value -> clock (seq) when it was first formed: its operands were read no later than that


def module_names(mod):
    """names bound at module level (imports, definitions, assignments - also under if / try / with)"""
    if getattr(mod, "_c10_names", None) is None:
        import builtins
        out = set(dir(builtins))
        stack = list(mod.tree.body)
        while stack:
            n = stack.pop()
            if isinstance(n, (ast.FunctionDef, ast.AsyncFunctionDef, ast.ClassDef)):
                out.add(n.name)
                # names declared global inside functions are module names as well
                for x in ast.walk(n):
                    if isinstance(x, ast.Global):
                        out.update(x.names)
                continue
            if isinstance(n, (ast.Import, ast.ImportFrom)):
                for a in n.names:
                    out.add((a.asname or a.name).split(".")[0])
                continue
            for x in ast.walk(n):
                if isinstance(x, ast.Name) and isinstance(x.ctx, ast.Store):
                    out.add(x.id)
                elif isinstance(x, (ast.Import, ast.ImportFrom)):
                    for a in x.names:
                        out.add((a.asname or a.name).split(".")[0])
                elif isinstance(x, (ast.FunctionDef, ast.ClassDef)):
                    out.add(x.name)
        mod._c10_names = out
    return mod._c10_names


def module_consts(ctx, rel):
    """module-level `NAME = <numeric / string / list-of-those expression>` -> values (folded into the functions that read them)"""
    return _module_consts(ctx.src, rel)


_PURE_BUILTINS = {"tuple", "list", "str", "len", "range", "zip", "enumerate", "dict", "int", "float", "reversed", "sorted", "min", "max", "sum", "abs", "round",
                  "frozenset", "set", "bool"}


def _is_const_value(v, depth=4, funcs=None):
    """a value made of numbers and string literals only (nested tuples, a literal table)"""
    if v is None or is_unknown(v) or isinstance(v, str) or depth <= 0:
        return False
    if isinstance(v, tuple):
        return all(_is_const_value(x, depth - 1, funcs) for x in v)
    if const_of(v) is not None:
        return True
    if funcs and sym_of(v) in funcs:
        return True          # the name of a module-level function (an entry of a dispatch table)
    sp = str_parts(v)
    if sp is not None:
        return len(sp) == 1 and isinstance(sp[0], str)
    u = app(v)
    if u is not None and u[0] in ("dict", "tuple") and not any(isinstance(x, str) for x in u[1]):
        return all(_is_const_value(x, depth - 1, funcs) for x in u[1])
    return False


def _folded_const(src, node, known, funcs=None):
    """value of a module-level expression that reads nothing but literals, constants bound earlier, its own comprehension variables and pure
    builtins - evaluated like function code (comprehensions over literals are expanded, f-strings of integer constants are strings); None
    when the expression reads anything else or does not come out as a constant"""
    own = {x.id for x in ast.walk(node) if isinstance(x, ast.Name) and isinstance(x.ctx, ast.Store)}
    funcs = set(funcs or ())
    for x in ast.walk(node):
        if isinstance(x, ast.Name) and isinstance(x.ctx, ast.Load) and x.id not in known and x.id not in own and x.id not in _PURE_BUILTINS and x.id not in funcs:
            return None
        if isinstance(x, (ast.Lambda, ast.Await, ast.Yield, ast.YieldFrom, ast.NamedExpr, ast.Starred)):
            return None
        if isinstance(x, ast.Attribute) and not (x.attr in ("join", "format", "upper", "lower", "split") and isinstance(x.value, (ast.Constant, ast.Name))):
            return None
    try:
        ev = XEval(None, env=dict(known), src=src)
        v = ev.ev(node)
    except Exception:  # noqa
        return None
    if isinstance(v, tuple) and any(isinstance(x, tuple) for x in v):
        try:
            v = tuple(wrap(x) if isinstance(x, tuple) else x for x in v)
        except Unsupported:
            return None
    return v if _is_const_value(v, funcs=funcs) else None


def _module_consts(src, rel):
    m = src.mod(rel)
    if getattr(m, "_c10_consts", None) is not None:
        return dict(m._c10_consts)
    out = {}
    ev = AutoEvaluator(None, src=src)
    body = []
    for st in m.tree.body:
        # `_B4, _B8 = 4, 8` is two bindings
        if isinstance(st, ast.Assign) and len(st.targets) == 1 and isinstance(st.targets[0], (ast.Tuple, ast.List)) and isinstance(st.value, (ast.Tuple, ast.List)) \
                and len(st.targets[0].elts) == len(st.value.elts) and all(isinstance(t, ast.Name) for t in st.targets[0].elts) \
                and not any(isinstance(e, ast.Starred) for e in st.value.elts):
            body += [ast.copy_location(ast.Assign(targets=[t], value=e), st) for t, e in zip(st.targets[0].elts, st.value.elts)]
        elif isinstance(st, ast.AnnAssign) and st.value is not None and isinstance(st.target, ast.Name):
            body.append(ast.copy_location(ast.Assign(targets=[st.target], value=st.value), st))
        else:
            body.append(st)
    for st in body:
        if isinstance(st, ast.Assign) and len(st.targets) == 1 and isinstance(st.targets[0], ast.Name):
            try:
                ast.literal_eval(st.value)
                lit = True
            except Exception:  # noqa
                # arithmetic on literals and on constants bound earlier (`_B8 = 2 * _B4`, `_B = _EXPONENTS[0]`)
                lit = all(isinstance(n, (ast.Constant, ast.BinOp, ast.UnaryOp, ast.Tuple, ast.List, ast.Subscript, ast.Slice, ast.operator, ast.unaryop, ast.expr_context))
                          or (isinstance(n, ast.Name) and n.id in out) for n in ast.walk(st.value)) and not isinstance(st.value, ast.Constant)
            if not lit:
                # (pass 5) a constant *computed* from literals and earlier constants by pure builtins: a comprehension over a literal
                # (`[f"b={b}" for b in (4, 8, 12)]`), tuple(...) / dict(zip(...)) / "sep".join(...) / str.format of those
                v = _folded_const(src, st.value, out, getattr(m, "funcs", {}))
                if v is not None:
                    out[st.targets[0].id] = v
                    continue
                out.pop(st.targets[0].id, None)        # re-bound to something that is not a constant
                continue
            if isinstance(st.value, ast.Constant) and st.value.value is None:
                continue
            ev.env = dict(out)
            v = ev.ev(st.value)
            if is_unknown(v):
                continue
            if isinstance(v, tuple):
                if any(is_unknown(x) or isinstance(x, tuple) for x in v):
                    continue
            elif const_of(v) is None and not (isinstance(st.value, ast.Constant) and isinstance(st.value.value, str)) and str_parts(v) is None:
                continue
            out[st.targets[0].id] = v
    m._c10_consts = dict(out)
    return out


class XEval(AutoEvaluator):
    def __init__(self, fn=None, facts=None, trace=None, depth=0, loop_depth=0, path=None, home=None, **kw):
        super().__init__(fn, **kw)
        self.fn = fn
        self.facts = facts
        self.tr = trace or Trace()
        self.cells = self.tr.cells
        self.calls = self.tr.calls
        self.inline_depth = depth
        self.loop_depth = loop_depth
        self.loopstack = []
        self.path = list(path or [])
        self.jump = None
        self.erase_T = True
        self.returns = []            # (value, node, guard)
        self.tmp = 0
        self.tr.act += 1
        self.act = self.tr.act
        self.locals_ = set()
        self.globals_ = None
        self.home = home if home is not None else getattr(fn, "_vmod", None)      # module of the function the rule evaluates
        self.imported = set()        # names bound by import statements inside the function
        self.lists = {}              # name -> (loop depth, path length) where the list under construction was created
        self.closures = set()        # ids of FunctionDefs met inside the evaluated body (nested helpers, named lambdas)
        if fn is not None:
            a = fn.args
            for x in a.posonlyargs + a.args + a.kwonlyargs + ([a.vararg] if a.vararg else []) + ([a.kwarg] if a.kwarg else []):
                self.env.setdefault(x.arg, F.sym(x.arg))
            self.locals_ = {x.id for n in ast.walk(fn) for x in [n] if isinstance(x, ast.Name) and isinstance(x.ctx, ast.Store)}
            for n in ast.walk(fn):
                if isinstance(n, ast.Global):
                    self.locals_ -= set(n.names)
            # (pass 5) `X[j], Y[j] = f(...)`: subscript stores inside an unpacking target make X and Y arrays like plain subscript stores do
            for n in ast.walk(fn):
                if isinstance(n, ast.Assign):
                    for t in n.targets:
                        if isinstance(t, (ast.Tuple, ast.List)):
                            for e_ in ast.walk(t):
                                if isinstance(e_, ast.Subscript) and isinstance(e_.value, ast.Name) and isinstance(e_.ctx, ast.Store):
                                    self.buffers.add(e_.value.id)
            # (pass 5) a local that is only ever bound to a dict display / dict(...) is a table of values, not an array: `t[key] = v` updates the table
            dict_bound, other_bound = set(), set()
            for n in ast.walk(fn):
                if isinstance(n, ast.Assign):
                    for t in n.targets:
                        pairs = [(t, n.value)]
                        if isinstance(t, (ast.Tuple, ast.List)) and isinstance(n.value, (ast.Tuple, ast.List)) and len(t.elts) == len(n.value.elts):
                            pairs = list(zip(t.elts, n.value.elts))
                        for tt, vv in pairs:
                            if isinstance(tt, ast.Name):
                                isd = (isinstance(vv, ast.Dict) and all(k is not None for k in vv.keys)) or \
                                      (isinstance(vv, ast.Call) and dotted(vv.func) == "dict" and not vv.args and all(k.arg is not None for k in vv.keywords))
                                (dict_bound if isd else other_bound).add(tt.id)
                            else:
                                other_bound.update(x.id for x in ast.walk(tt) if isinstance(x, ast.Name) and isinstance(x.ctx, ast.Store))
                elif isinstance(n, (ast.For, ast.AugAssign, ast.AnnAssign, ast.NamedExpr, ast.With, ast.comprehension)):
                    tgt = n.target if not isinstance(n, ast.With) else None
                    if isinstance(n, ast.AugAssign) and not isinstance(n.target, ast.Name):
                        tgt = None
                    if isinstance(n, ast.With):
                        for it_ in n.items:
                            if it_.optional_vars is not None:
                                other_bound.update(x.id for x in ast.walk(it_.optional_vars) if isinstance(x, ast.Name))
                    if tgt is not None:
                        other_bound.update(x.id for x in ast.walk(tgt) if isinstance(x, ast.Name) and isinstance(x.ctx, ast.Store))
            self.buffers -= (dict_bound - other_bound - {x.arg for x in a.posonlyargs + a.args + a.kwonlyargs})
            mod = getattr(fn, "_vmod", None)
            self.globals_ = module_names(mod) if mod is not None else None
            # a local created by an allocation is an array even when only helpers store into it (through a view passed as argument)
            for n in ast.walk(fn):
                if isinstance(n, ast.Assign) and len(n.targets) == 1 and isinstance(n.targets[0], ast.Name) and isinstance(n.value, ast.Call) \
                        and dotted(n.value.func) in ALLOCATORS:
                    self.buffers.add(n.targets[0].id)
                # ... and so is a local a row of which (X[j]) is handed to a function of the module or to an out= parameter: the callee may fill it
                if isinstance(n, ast.Call):
                    own_callee = isinstance(n.func, ast.Name) and mod is not None and n.func.id in getattr(mod, "funcs", {})
                    pnames = {x.arg for x in a.posonlyargs + a.args + a.kwonlyargs}
                    for arg in ([k.value for k in n.keywords if k.arg == "out"] + (list(n.args) if own_callee else [])):
                        if isinstance(arg, ast.Subscript) and isinstance(arg.value, ast.Name) and arg.value.id in self.locals_ and arg.value.id not in pnames:
                            self.buffers.add(arg.value.id)
                        elif isinstance(arg, ast.Name) and arg.id in self.locals_ and not own_callee and arg.id not in pnames:
                            self.buffers.add(arg.id)

    # ------------------------------------------------------------------ helpers
    def _tmpname(self, v):
        self.tmp += 1
        n = f"<val:{self.act}:{self.tmp}>"
        self.env[n] = v
        return ast.Name(id=n, ctx=ast.Load())

    def _loops(self):
        return tuple(self.loopstack)

    def truth(self, v):
        return truth(v, self.facts)

    def decide(self, test):
        return self.truth(self.ev(test))

    # ------------------------------------------------------------------ expressions
    def mk_len(self, x):
        if isinstance(x, tuple):
            return F.const(len(x))
        u = app(x, "idx")
        if u is not None and not isinstance(u[1][1], str) and not isinstance(u[1][0], str):
            t = app(u[1][1], "tuple")
            parts = list(t[1]) if t is not None else [u[1][1]]
            s = app(parts[-1], "slice")
            if s is not None and all(self._scalar_index(p) for p in parts[:-1]):
                lo, hi, stp = s[1]
                clo = 0 if sym_of(lo) == "None" else const_of(lo)
                chi = 0 if sym_of(hi) == "None" else const_of(hi)
                if sym_of(stp) == "None" and clo is not None and chi is not None and clo >= 0 and chi <= 0:
                    pre = parts[:-1]
                    inner = u[1][0] if not pre else F.fn("idx", u[1][0], pre[0] if len(pre) == 1 else F.fn("tuple", *pre))
                    return self.mk_len(inner) - clo + chi
        u = app(x, "comp")
        if u is not None:
            return u[1][1]
        u = app(x, "idx")
        if u is not None and not isinstance(u[1][1], str) and not isinstance(u[1][0], str):
            t = app(u[1][1], "tuple")
            parts = list(t[1]) if t is not None else [u[1][1]]
            if len(parts) >= 2 and _full_slice(parts[0]) and all(self._scalar_index(p) for p in parts[1:]):
                return self.mk_len(u[1][0])                          # X[:, k] has as many entries as X has rows
        u = app(x, "call:np.digitize")
        if u is not None and u[1] and not isinstance(u[1][0], str):
            return self.mk_len(u[1][0])                              # one bin index per value
        if not isinstance(x, (tuple, str)) and not is_unknown(x) and const_of(x) is None and x.d.is_const():
            arrs = [m for m in x.n.t if m]
            if len(arrs) == 1 and len(arrs[0]) == 1 and arrs[0][0][1] == 1 and len(x.n.t) == 2 and sym_of(F.Rat(F.Poly.atom(arrs[0][0][0]))) is None:
                return self.mk_len(F.Rat(F.Poly.atom(arrs[0][0][0])))       # a * X + b has the length of X
        if not isinstance(x, (tuple, str)) and not is_unknown(x) and const_of(x) is None and x.d.is_const() and len(x.n.t) == 1 and app(x) is None:
            (mono, _), = x.n.t.items()
            arrays = [(a, e) for a, e in mono if not self._is_scalar(a)]
            if len(arrays) == 1 and len(mono) >= 2 and sym_of(F.Rat(F.Poly.atom(arrays[0][0]))) is None:
                return self.mk_len(F.Rat(F.Poly.atom(arrays[0][0])))       # s * X (s a number) has the length of X
        u = app(x)
        if u is not None and u[0] == "zip" and u[1] and not any(isinstance(a, str) for a in u[1]):
            return self._zip_len([untuple(a) for a in u[1]])
        if u is not None and u[0] in ("zip", "enumerate") and u[1] and not isinstance(u[1][0], str):
            return self.mk_len(untuple(u[1][0]))        # element-wise constructs have the length of what they run over
        if u is not None and u[0] == "range" and not any(isinstance(a, str) for a in u[1]):
            if len(u[1]) == 1:
                return u[1][0]
            if len(u[1]) == 2:
                return u[1][1] - u[1][0]
        return F.fn("len", need(x))

    def _zip_len(self, vs):
        """zip stops at its shortest argument: zip(b, b[1:]) has len(b) - 1 elements"""
        lens = [self.mk_len(v) for v in vs]
        best = lens[0]
        for ln in lens[1:]:
            try:
                c = const_of(ln - best)
            except Unsupported:
                c = None
            if c is not None and c < 0:
                best = ln
        return best

    RAINFLOW = ("call:cyclecount.rainflow", "call:rainflow")
    CYCLE_COLUMNS = ("amp", "mean", "count")          # documented column order of the cycle table (rainflow's docstring; binify reads [:, 0..2])

    def _scalar_index(self, ix):
        """an index that selects one element (a loop symbol, an integer, or a sum of those)"""
        if isinstance(ix, (tuple, str)) or is_unknown(ix):
            return False
        if not ix.d.is_const():
            return False
        for m in ix.n.t:
            for a, e in m:
                d = F.atom_desc(a)
                if d[0] != "s" or not d[1].startswith("_i") or e != 1:
                    return False
        return True

    def mk_idx(self, base, ix):
        if isinstance(base, tuple):
            c = const_of(ix) if not isinstance(ix, tuple) else None
            if c is not None and c.denominator == 1 and -len(base) <= c < len(base):
                return base[int(c)]
            return F.fn("idx", wrap(base), wrap(ix))
        tu = app(base, "transposed")
        if tu is not None and len(tu[1]) == 1 and not isinstance(tu[1][0], str):
            # T.T[k] is the column T[:, k];  T.T[i, j] is T[j, i]
            ixw = wrap(ix)
            t = app(ixw, "tuple")
            if t is None and self._scalar_index(ixw):
                return self.mk_idx(tu[1][0], F.fn("tuple", F.fn("slice", NONE, NONE, NONE), ixw))
            if t is not None and len(t[1]) == 2 and not any(isinstance(x, str) for x in t[1]):
                return self.mk_idx(tu[1][0], F.fn("tuple", t[1][1], t[1][0]))
            return Unknown("index into a transposed table")
        ix = self._from_end(base, norm_index(wrap(ix)))
        u = app(base)
        if u is not None and u[0] in self.RAINFLOW:
            # a column of the cycle table by position or by name: T[:, 0] (ndarray form), T.iloc[:, 0], T["amp"], T.loc[:, "amp"]
            t = app(ix, "tuple")
            if t is not None and len(t[1]) == 2 and _full_slice(t[1][0]) and not isinstance(t[1][1], str):
                c = const_of(t[1][1])
                if c is not None and c.denominator == 1 and 0 <= c < 3:
                    return F.fn("idx", base, F.sym(repr(self.CYCLE_COLUMNS[int(c)])))
                sp = str_parts(t[1][1])
                if sp is not None and len(sp) == 1 and sp[0] in self.CYCLE_COLUMNS:
                    return F.fn("idx", base, t[1][1])
        if u is not None and u[0] == "dict" and not isinstance(ix, (str, tuple)):
            ks, vs = u[1][0::2], u[1][1::2]
            hit = [v for k, v in zip(ks, vs) if not isinstance(k, str) and same(k, ix)]
            if len(hit) == 1 and not isinstance(hit[0], str):
                return untuple(hit[0])                      # TABLE[key] of a literal table
        sp = str_parts(base) if not isinstance(base, (tuple, str)) else None
        if sp is not None and len(sp) == 1 and isinstance(sp[0], str):
            c = const_of(ix)
            if c is not None and c.denominator == 1 and -len(sp[0]) <= c < len(sp[0]):
                return F.sym(repr(sp[0][int(c)]))            # a character of a string literal
        if u is not None and u[0] == "zip" and not any(isinstance(a, str) for a in u[1]) and self._scalar_index(ix):
            return tuple(self.mk_idx(untuple(a), ix) for a in u[1])          # element k of zip(a, b) is (a[k], b[k])
        if u is not None and u[0] == "enumerate" and len(u[1]) == 1 and not isinstance(u[1][0], str) and self._scalar_index(ix):
            return (ix, self.mk_idx(untuple(u[1][0]), ix))
        if u is not None and u[0] == "range" and not any(isinstance(a, str) for a in u[1]) and self._scalar_index(ix) and const_of(ix) is None:
            if len(u[1]) == 1:
                return ix
            if len(u[1]) == 2:
                return u[1][0] + ix
        if const_of(base) is not None and self._scalar_index(ix):
            return base                                     # an element / a row of a constant-filled array
        if u is not None and u[0] == "comp" and len(u[1]) == 2 and not isinstance(u[1][0], str):
            r = self._idx_comp(base, u, ix)
            if r is not None:
                return r
        if u is None and not isinstance(base, (tuple, str)) and not is_unknown(base) and const_of(base) is None:
            r = self._idx_scaled(base, ix)
            if r is not None:
                return r
        u = app(base, "idx")
        if u is not None and not isinstance(u[1][0], str) and not isinstance(u[1][1], str):
            b0, i0 = u[1]
            t0 = app(i0, "tuple")
            first = list(t0[1]) if t0 is not None else [i0]
            if all(self._scalar_index(x) for x in first):
                t1 = app(ix, "tuple")
                rest = list(t1[1]) if t1 is not None else [ix]
                return F.fn("idx", b0, F.fn("tuple", *(first + rest)))
            if len(first) >= 2 and _full_slice(first[0]) and all(self._scalar_index(x) for x in first[1:]) and self._scalar_index(ix):
                # (pass 5) X[:, k][i] is X[i, k]: an element of a column taken as a view
                return F.fn("idx", b0, F.fn("tuple", ix, *first[1:]))
            s = app(first[-1], "slice")
            if s is not None and all(self._scalar_index(x) for x in first[:-1]) and self._scalar_index(ix) and const_of(ix) is None:
                lo, hi, stp = s[1]
                clo = 0 if sym_of(lo) == "None" else const_of(lo)
                if sym_of(stp) == "None" and clo is not None and clo >= 0 and (sym_of(hi) == "None" or (const_of(hi) is not None and const_of(hi) < 0)):
                    new = first[:-1] + [ix + clo]
                    return F.fn("idx", b0, new[0] if len(new) == 1 else F.fn("tuple", *new))
        return F.fn("idx", need(base), ix)

    SCALAR_CALLS = {"call:np.max", "call:np.min", "call:np.sum", "call:np.mean", "call:np.var", "call:np.std", "call:np.ptp", "call:np.argmax", "call:np.argmin", "len",
                    "call:float", "call:int", "call:np.median", "call:np.prod"}

    def _is_scalar(self, a):
        """an atom that is one number whatever it is computed from: a full reduction (no axis), the length of something, a power of those"""
        av = F.Rat(F.Poly.atom(a))
        u = app(av)
        if u is None:
            return False
        if u[0] == "idx":
            # (pass 5) one element of an allocated array: as many scalar indices as the allocation has axes (Amax[j] with Amax = np.zeros(LF))
            b, ix = peel(av)
            s = sym_of(b)
            rank = self._rank(s) if s is not None else None
            return rank is not None and len(ix) == rank and all(not isinstance(x, str) and self._scalar_index(x) for x in ix)
        if u[0] in self.SCALAR_CALLS:
            return not any(isinstance(x, str) or (app(x) or ("",))[0].startswith("kw:axis") for x in u[1]) and len([x for x in u[1] if not (app(x) or ("",))[0].startswith("kw:")]) == 1
        if u[0] == "abs" and len(u[1]) == 1 and single_atom(u[1][0]) is not None:
            return self._is_scalar(single_atom(u[1][0]))
        return False

    def _idx_scaled(self, base, ix):
        """(c * s * X)[k] is c * s * X[k] for numbers c, s (s a full reduction) and one array X"""
        if not base.d.is_const() or len(base.n.t) != 1:
            return None
        (mono, coef), = base.n.t.items()
        arrays = [(a, e) for a, e in mono if not self._is_scalar(a)]
        if len(arrays) != 1 or arrays[0][1] != 1 or len(mono) < 2:
            return None
        rest = F.const(coef / base.d.const_value())
        for a, e in mono:
            if a != arrays[0][0]:
                rest = rest * F.Rat(F.Poly.atom(a)) ** e
        return self.mk_idx(F.Rat(F.Poly.atom(arrays[0][0])), ix) * rest

    def _idx_comp(self, base, u, ix):
        """[f(j) for j in range(n)][k] is f(k);  np.array([[a(j), b(j)] for j ...])[:, 1] is [b(j) for j ...];  [j, 1] is b(j)"""
        elt, dom = u[1]
        t = app(ix, "tuple")
        parts = list(t[1]) if t is not None else [ix]
        if any(isinstance(p, str) for p in parts) or len(parts) > 2:
            return None
        var = self.tr.compvars.get((base.n.key(), base.d.key()))
        row, rest = parts[0], parts[1:]
        tu = app(elt, "tuple")
        if rest:
            c = const_of(rest[0])
            if tu is None or c is None or c.denominator != 1 or not (-len(tu[1]) <= c < len(tu[1])) or isinstance(tu[1][int(c)], str):
                return None
            elt = tu[1][int(c)]
        if _full_slice(row):
            return self._mk_comp(var, elt, dom) if rest else base
        if not self._scalar_index(row) or var is None:
            return None
        if depends(row, var):
            return None
        try:
            return elt.subs({var: row})
        except Unsupported:
            return None

    def _lengths(self, base):
        """values that stand for the number of entries of `base` (a 1-D array): len(base), base.size, the size it was allocated with"""
        out = []
        try:
            out.append(self.mk_len(base))
            out.append(F.fn("attr:size", need(base)))
            s = sym_of(base)
            if s is not None:
                out.append(F.sym(s + ".size"))
                al = self.tr.allocs.get(s)
                if al is not None and al[0] in ("np.zeros", "np.empty", "np.ones", "np.full") and (al[1] or "shape" in al[2]):
                    shp = al[1][0] if al[1] else al[2]["shape"]
                    if not isinstance(shp, tuple) and not is_unknown(shp) and app(shp, "tuple") is None:
                        out.append(shp)
        except Unsupported:
            pass
        return out

    def _from_end(self, base, ix):
        """X[len(X) - k] is X[-k] (also inside slices and index tuples)"""
        if isinstance(base, (tuple, str)) or is_unknown(base) or isinstance(ix, (tuple, str)) or is_unknown(ix):
            return ix
        u = app(ix)
        if u is not None and u[0] in ("tuple",):
            return ix
        if u is not None and u[0] == "slice":
            parts = [p if isinstance(p, str) or sym_of(p) == "None" else self._from_end(base, p) for p in u[1]]
            return F.fn("slice", *parts)
        if const_of(ix) is not None or sym_of(ix) is not None:
            return ix
        for ln in self._lengths(base):
            try:
                c = const_of(ix - ln)
            except Unsupported:
                c = None
            if c is not None and c < 0 and c.denominator == 1:
                return F.const(c)
        return ix

    def _ev(self, node):
        if (isinstance(node, ast.Constant) and isinstance(node.value, (float, complex))) or (isinstance(node, ast.BinOp) and isinstance(node.op, ast.Div)):
            self.tr.floats.append(node)
        if isinstance(node, ast.BinOp) and self.tr.dtypes and isinstance(node.op, (ast.Mult, ast.Add, ast.Sub)) and not getattr(node, '_c10_seen', False) \
                and any(isinstance(x, ast.Constant) and isinstance(x.value, float) for x in (node.left, node.right)):
            # array (+ - *) float literal: the result is floating point whatever the array was (1.0 * x is not x)
            n0 = len(self.tr.floats)
            node._c10_seen = True
            try:
                r = self._ev(node)
            finally:
                node._c10_seen = False
            if is_unknown(r) or isinstance(r, tuple) or r is None:
                return r
            del self.tr.floats[n0:]
            return F.fn('asfloat', need(r))
        if isinstance(node, ast.BinOp) and isinstance(node.op, ast.BitXor) and self.tr.dtypes:
            a, b = self._ev(node.left), self._ev(node.right)
            if is_unknown(a) or is_unknown(b) or isinstance(a, tuple) or isinstance(b, tuple):
                return a if is_unknown(a) else (b if is_unknown(b) else Unknown('^ on tuples'))
            x, y = (a, b) if repr(a) <= repr(b) else (b, a)
            return F.fn('mask:BitXor', need(x), need(y))
        if isinstance(node, ast.Name):
            if node.id not in self.env and self.fn is not None and isinstance(node.ctx, ast.Load):
                if (node.id in self.locals_ or (self.globals_ is not None and node.id not in self.globals_)) and node.id not in self.imported:
                    self.tr.unbound.append((node.id, node, tuple(self.path)))
            if node.id in self.buffers:
                return self.env[node.id] if node.id in self.env else F.sym(node.id)
            return super()._ev(node)
        if isinstance(node, ast.Compare) and len(node.ops) > 1:
            parts = []
            left = node.left
            for op, right in zip(node.ops, node.comparators):
                parts.append(self._ev(ast.Compare(left=left, ops=[op], comparators=[right])))
                left = right
            if any(is_unknown(p) or isinstance(p, tuple) for p in parts):
                return next((p for p in parts if is_unknown(p)), Unknown("comparison of tuples"))
            return F.fn("bool:And", *parts)
        if isinstance(node, ast.Compare) and len(node.ops) == 1:
            a, b = self._ev(node.left), self._ev(node.comparators[0])
            if is_unknown(a) or is_unknown(b):
                return a if is_unknown(a) else b
            try:
                cv = F.fn("cmp:" + type(node.ops[0]).__name__, wrap(a), wrap(b))
                self._born(cv, node)
                return cv
            except Unsupported as e:
                return Unknown(str(e))
        if isinstance(node, ast.IfExp):
            tv = self._ev(node.test)
            c = self.truth(tv)
            self.tr.tests.append((tv, node.test, tuple(self.path), "ifexp", self.tr.seq))
            if c is True:
                return self._ev(node.body)
            if c is False:
                return self._ev(node.orelse)
            if is_unknown(tv) or isinstance(tv, tuple):
                return Unknown(f"undecided conditional {ast.unparse(node.test)}")
            return mk_ite(tv, self.ev(node.body), self.ev(node.orelse))
        if isinstance(node, (ast.ListComp, ast.GeneratorExp)):
            return self._comp(node)
        if isinstance(node, (ast.List, ast.Tuple)) and len(node.elts) == 1 and isinstance(node.elts[0], ast.Starred):
            return self._ev(node.elts[0].value)                      # [*xs]: the elements of xs
        if isinstance(node, (ast.List, ast.Tuple)) and any(isinstance(e, ast.Starred) for e in node.elts) and isinstance(node.ctx, ast.Load):
            # (pass 5) (a, b, *rows): starred values that are sequences of known length are spliced in
            out = []
            for e in node.elts:
                if isinstance(e, ast.Starred):
                    x = untuple(self._ev(e.value))
                    if not isinstance(x, tuple):
                        return x if is_unknown(x) else Unknown("starred value of unknown length in a display")
                    out += list(x)
                else:
                    out.append(self._ev(e))
            return tuple(out)
        if isinstance(node, ast.Lambda) and not node.args.vararg and not node.args.kwarg and not node.args.kwonlyargs:
            return F.sym(self._lambda(node, None))
        if isinstance(node, ast.DictComp):
            return self._dictcomp(node)
        if isinstance(node, ast.Dict):
            parts = []
            for k, v in zip(node.keys, node.values):
                if k is None:
                    return Unknown("** in a dict literal")
                parts += [wrap(self._ev(k)), wrap(self._ev(v))]
            return F.fn("dict", *parts)
        if isinstance(node, ast.JoinedStr):
            parts = []
            for x in node.values:
                if isinstance(x, ast.Constant):
                    parts.append(str(x.value))
                else:
                    v = self._ev(x.value)
                    if is_unknown(v) or isinstance(v, tuple):
                        return Unknown("f-string part")
                    sp = str_parts(v)
                    spec = ast.unparse(x.format_spec) if x.format_spec is not None else ""
                    if sp is None and not spec and x.conversion in (-1, 115) and const_of(v) is not None and const_of(v).denominator == 1 \
                            and isinstance(x.value, (ast.Name, ast.Constant)) and not (isinstance(x.value, ast.Constant) and isinstance(x.value.value, float)):
                        sp = [str(int(const_of(v)))]          # f"b={b}" with b an integer constant
                    if sp is not None and not spec and x.conversion in (-1, 115):
                        parts += sp
                    else:
                        parts.append(F.fn("fmt", need(v), spec if spec else "", "" if x.conversion in (-1, 115) else str(x.conversion)))
            return mk_str(parts)
        if isinstance(node, ast.BinOp) and isinstance(node.op, (ast.FloorDiv, ast.Mod)):
            a, b = self._ev(node.left), self._ev(node.right)
            ca, cb = const_of(a), const_of(b)
            if ca is not None and cb is not None and ca.denominator == 1 and cb.denominator == 1 and cb != 0:
                return F.const(int(ca) // int(cb) if isinstance(node.op, ast.FloorDiv) else int(ca) % int(cb))      # 12 // 2
        if isinstance(node, ast.BinOp) and isinstance(node.op, ast.Mod):
            a = self._ev(node.left)
            pa = str_parts(a)
            if pa is not None and len(pa) == 1 and isinstance(pa[0], str):
                import re as _re
                specs = list(_re.finditer(r"%(?:[-+ #0]*\d*(?:\.\d+)?[diouxXeEfFgGrsa]|%)", pa[0]))
                real = [m for m in specs if m.group() != "%%"]
                b = self._ev(node.right)
                if len(real) == 1 and not isinstance(b, tuple) and not is_unknown(b):
                    m = real[0]
                    pre, post = pa[0][:m.start()].replace("%%", "%"), pa[0][m.end():].replace("%%", "%")
                    cb = const_of(b)
                    if m.group() in ("%d", "%i", "%s") and cb is not None and cb.denominator == 1 \
                            and not (isinstance(node.right, ast.Constant) and isinstance(node.right.value, float)):
                        return mk_str([pre, str(int(cb)), post])                         # "b=%d" % 4
                    return mk_str([pre, F.fn("fmt", need(b), m.group(), ""), post])      # "{:.%df}" % precision
                return Unknown("% formatting")
        if isinstance(node, ast.BinOp) and isinstance(node.op, ast.Add):
            a, b = self._ev(node.left), self._ev(node.right)
            pa, pb = str_parts(a), str_parts(b)
            if pa is not None and pb is not None:
                return mk_str(pa + pb)
            if is_unknown(a) or is_unknown(b):
                return a if is_unknown(a) else b
            if isinstance(a, tuple) or isinstance(b, tuple):
                return _vec_binop(node.op, a, b)
            if self.binop_hook is not None:
                r = self.binop_hook(node, a, b, self)
                if r is not NotImplemented:
                    return r
            return need(a) + need(b)
        if isinstance(node, ast.Attribute) and node.attr == "T":
            return self._transposed(self._ev(node.value))
        if isinstance(node, ast.Attribute) and node.attr == "values":
            return self._ev(node.value)                  # the array behind a Series / DataFrame
        if isinstance(node, ast.Attribute) and node.attr in self.CYCLE_COLUMNS and isinstance(node.value, ast.Name) and node.value.id in self.env:
            b = self._ev(node.value)
            if head(b) in self.RAINFLOW:
                return F.fn("idx", need(b), F.sym(repr(node.attr)))          # T.amp is T["amp"]
        if isinstance(node, ast.Attribute) and isinstance(node.value, ast.Name) and node.value.id in self.env and node.value.id not in self.buffers \
                and f"{node.value.id}.{node.attr}" not in self.env:
            # (pass 5) a field of a record built by SimpleNamespace(name=value, ...) or by a module-level namedtuple: the value handed in
            bu = app(self.env[node.value.id]) if not isinstance(self.env[node.value.id], tuple) else None
            if bu is not None and bu[0] in ("call:SimpleNamespace", "call:types.SimpleNamespace") and not any(isinstance(a, str) for a in bu[1]):
                for a in bu[1]:
                    k = app(a)
                    if k is not None and k[0] == "kw:" + node.attr and len(k[1]) == 1 and not isinstance(k[1][0], str):
                        return untuple(k[1][0])
            if bu is not None and bu[0].startswith("call:") and bu[0][5:].isidentifier() and not any(isinstance(a, str) for a in bu[1]):
                fields = self._record_fields(bu[0][5:])
                if fields is not None and node.attr in fields and len(bu[1]) == len(fields) and not any((app(a) or ("",))[0].startswith("kw:") for a in bu[1]):
                    return untuple(bu[1][fields.index(node.attr)])
        if isinstance(node, ast.Subscript) and dotted(node.value) in ("np.s_", "np.index_exp", "numpy.s_"):
            try:
                return self._index_value(node.slice)          # np.s_[:, :-1] is the index itself
            except Unsupported as e:
                return Unknown(str(e))
        if isinstance(node, ast.Attribute) and node.attr == "shape" and isinstance(node.value, ast.Name) and node.value.id in self.buffers:
            al = self.tr.allocs.get(sym_of(self.env.get(node.value.id)) or "")
            if al is not None and al[0] in ("np.zeros", "np.empty", "np.ones", "np.full"):
                shp = al[1][0] if al[1] else al[2].get("shape")
                if isinstance(shp, tuple) and not any(is_unknown(x) for x in shp):
                    return shp                           # the shape the array was allocated with
        if isinstance(node, ast.Attribute) and node.attr in ("shape", "size", "ndim") and not isinstance(node.value, ast.Name):
            v = self._ev(node.value)
            if is_unknown(v):
                return v
            return F.fn("attr:" + node.attr, wrap(v))
        if isinstance(node, ast.Subscript) and dotted(node.value) in ("np.r_", "np.c_", "numpy.r_", "numpy.c_"):
            parts = [self._ev(e) for e in (node.slice.elts if isinstance(node.slice, ast.Tuple) else [node.slice])]
            if any(is_unknown(x) or isinstance(x, tuple) for x in parts):
                return next((x for x in parts if is_unknown(x)), Unknown("np.r_ of a tuple"))
            return F.fn("hcat", *[need(x) for x in parts])               # np.r_[a, b] / np.c_[A, b]: pieces side by side
        if isinstance(node, ast.Subscript):
            base = self._ev(node.value)
            if is_unknown(base):
                return base
            if isinstance(base, tuple):
                r = super()._ev(node)
                if not is_unknown(r):
                    return r
            try:
                ix = self._index_value(node.slice)
            except Unsupported as e:
                return Unknown(str(e))
            lu = app(base)
            if lu is not None and lu[0] in ("attr:loc", "attr:iloc") and len(lu[1]) == 1 and not isinstance(lu[1][0], str):
                t = app(ix, "tuple")
                if t is not None and len(t[1]) == 2 and _full_slice(t[1][0]):
                    # X.loc[:, c] is the column X[c];  X.iloc[:, k] is X[:, k]
                    return self.mk_idx(lu[1][0], t[1][1] if lu[0] == "attr:loc" else ix)
            u = app(base, "attr:shape")
            if u is not None and const_of(ix) == 0:
                return self.mk_len(u[1][0])
            if sym_of(base) == "<locals>":
                sp = str_parts(ix)
                if sp is not None and len(sp) == 1 and isinstance(sp[0], str) and sp[0] in self.env:
                    return self.env[sp[0]]
                if sp is not None and len(sp) == 1 and isinstance(sp[0], str):
                    self.tr.unbound.append((sp[0], node, tuple(self.path)))
                return Unknown(f"locals()[{ix!r}]")
            return self.mk_idx(base, ix)
        if isinstance(node, ast.BinOp) and isinstance(node.op, ast.MatMult):
            return self._dot(self._ev(node.left), self._ev(node.right))
        return super()._ev(node)

    def _born(self, cv, node):
        """(pass 5) remember when a comparison value was first formed, and whether every array it reads was read right there: the expression
        subscripts the arrays themselves (or views of them); a local holding a value *computed* from an array earlier carries an older
        content of that array into the comparison"""
        key = (cv.n.key(), cv.d.key())
        if key in self.tr.born:
            return
        exact = True
        for n in ast.walk(node):
            if isinstance(n, ast.Name) and isinstance(n.ctx, ast.Load) and n.id not in self.buffers and n.id in self.env:
                x = self.env[n.id]
                for y in ([x] if not isinstance(x, tuple) else list(x)):
                    if y is None or isinstance(y, (str, tuple)):
                        continue
                    if is_unknown(y):
                        exact = False
                        continue
                    if self._view(y) is not None:
                        continue
                    if any(sym_of(z) in self.tr.inits or any(c[0] == sym_of(z) for c in self.tr.cells) for z in walk(y) if sym_of(z) is not None):
                        exact = False
        self.tr.born[key] = self.tr.seq
        self.tr.born_exact[key] = exact

    def _transposed(self, v):
        """x.T / np.transpose(x): matrices are commuting symbols for the algebra, so the transposition is dropped - except on an allocated 2-D
        table, whose rows and columns are told apart when it is indexed or unpacked (`a, b, c = T.T` are its columns)"""
        s = sym_of(v)
        if s is not None and s in self.tr.inits and self._rank(s) == 2:
            return F.fn("transposed", v)
        if head(v) in self.RAINFLOW:
            return F.fn("transposed", v)          # amp, mean, count = table.T: the columns of the cycle table
        u = app(v, "transposed") if not isinstance(v, (tuple, str)) and v is not None and not is_unknown(v) else None
        if u is not None and len(u[1]) == 1 and not isinstance(u[1][0], str):
            return u[1][0]
        return v

    def _record_fields(self, name):
        """field names of a record type bound at module level by  Name = namedtuple("...", [fields] | "a b c")  in the module of the evaluated
        function (or of the rule's home function); None when there is no such binding"""
        for mod in (getattr(self.fn, "_vmod", None), self.home):
            tree = getattr(mod, "tree", None)
            if tree is None:
                continue
            for st in tree.body:
                if isinstance(st, ast.Assign) and len(st.targets) == 1 and isinstance(st.targets[0], ast.Name) and st.targets[0].id == name \
                        and isinstance(st.value, ast.Call) and dotted(st.value.func) in ("namedtuple", "collections.namedtuple") and len(st.value.args) == 2 \
                        and not st.value.keywords:
                    try:
                        f = ast.literal_eval(st.value.args[1])
                    except Exception:  # noqa
                        return None
                    if isinstance(f, str):
                        f = f.replace(",", " ").split()
                    return list(f) if all(isinstance(x, str) for x in f) else None
        return None

    def _dot(self, a, b):
        if is_unknown(a) or is_unknown(b):
            return a if is_unknown(a) else b
        if isinstance(a, tuple) and isinstance(b, tuple):
            if len(a) != len(b):
                return Unknown("dot of vectors of different length")
            tot = F.const(0)
            for x, y in zip(a, b):
                tot = tot + need(x) * need(y)
            return tot
        if isinstance(a, tuple) or isinstance(b, tuple):
            return Unknown("dot of a tuple and a formula")
        return need(a) * need(b)

    def _bind_target(self, target, v):
        if isinstance(target, ast.Name):
            self.env[target.id] = v
        elif isinstance(target, (ast.Tuple, ast.List)):
            for k, t in enumerate(target.elts):
                if isinstance(v, tuple) and len(v) == len(target.elts):
                    self._bind_target(t, v[k])
                elif is_unknown(v) or isinstance(v, tuple):
                    self._bind_target(t, Unknown("unpacking"))
                else:
                    self._bind_target(t, self.mk_idx(v, F.const(k)))

    def _iter_bind(self, target, itnode):
        """bind a loop / comprehension target to the generic element of the iterable; returns (symbol name, domain value, iterable value)"""
        k = F.sym(f"_i{self.loop_depth}")
        d = dotted(itnode.func) if isinstance(itnode, ast.Call) else None
        itv = None
        if d == "range" and not itnode.keywords and 1 <= len(itnode.args) <= 3:
            a = [self.ev(x) for x in itnode.args]
            if any(is_unknown(x) or isinstance(x, tuple) for x in a):
                dom = Unknown("range bounds")
            else:
                dom = a[0] if len(a) == 1 else F.fn("range", *a)
            self._bind_target(target, k)
        elif d == "enumerate" and len(itnode.args) == 1 and isinstance(target, (ast.Tuple, ast.List)) and len(target.elts) == 2:
            itv = self.ev(itnode.args[0])
            dom = Unknown("iterable") if is_unknown(itv) else self.mk_len(itv)
            self._bind_target(target.elts[0], k)
            self._bind_target(target.elts[1], itv if is_unknown(itv) else self.mk_idx(itv, k))
        elif d == "zip" and isinstance(target, (ast.Tuple, ast.List)) and len(target.elts) == len(itnode.args):
            vs = [self.ev(x) for x in itnode.args]
            itv = vs[0] if vs else None
            dom = Unknown("iterable") if (not vs or any(is_unknown(v) for v in vs)) else self._zip_len(vs)
            for t, v in zip(target.elts, vs):
                self._bind_target(t, v if is_unknown(v) else self.mk_idx(v, k))
        else:
            itv = self.ev(itnode)
            dom = Unknown("iterable") if is_unknown(itv) else self.mk_len(itv)
            self._bind_target(target, itv if is_unknown(itv) else self.mk_idx(itv, k))
        return f"_i{self.loop_depth}", dom, itv

    def _fresh_array(self, call):
        """an allocation that is not bound to a name of its own (an element of a list of arrays): an array with a private name"""
        k = self.tr.nver.get("<anon>", 0) + 1
        self.tr.nver["<anon>"] = k
        s = f"<arr:{k}>"
        self.tr.inits[s] = self.ev(call)
        try:
            self.tr.allocs[s] = (dotted(call.func), [self.ev(a) for a in call.args if not isinstance(a, ast.Starred)], {k_.arg: self.ev(k_.value) for k_ in call.keywords if k_.arg})
        except Unsupported:
            pass
        return F.sym(s)

    def _is_alloc(self, node):
        return isinstance(node, ast.Call) and dotted(node.func) in ALLOCATORS

    def _literal_iter(self, node):
        """the elements of an iterable that is a literal sequence of known length (a tuple / list display, a name bound to one, zip / enumerate /
        reversed of those), else None; nothing is evaluated when it is not"""
        if isinstance(node, (ast.Tuple, ast.List)):
            if any(isinstance(e, ast.Starred) for e in node.elts):
                return None
            return tuple(self.ev(e) for e in node.elts)
        if isinstance(node, ast.Name) and node.id not in self.buffers:
            v = untuple(self.env.get(node.id))
            return v if isinstance(v, tuple) else None
        if isinstance(node, ast.Call) and not node.keywords and not node.args and isinstance(node.func, ast.Attribute) and node.func.attr in ("items", "keys", "values") \
                and isinstance(node.func.value, ast.Name) and node.func.value.id in self.env and node.func.value.id not in self.buffers:
            du = app(self.env[node.func.value.id], "dict") if not isinstance(self.env[node.func.value.id], tuple) else None
            if du is not None and not any(isinstance(x, str) for x in du[1]):
                ks, vs = [untuple(k) for k in du[1][0::2]], [untuple(v) for v in du[1][1::2]]
                return tuple(zip(ks, vs)) if node.func.attr == "items" else tuple(ks if node.func.attr == "keys" else vs)
        if isinstance(node, ast.Call) and not node.keywords and dotted(node.func) == "range" and 1 <= len(node.args) <= 2 \
                and all(isinstance(a, (ast.Constant, ast.Name)) or (isinstance(a, ast.Call) and dotted(a.func) == "len") for a in node.args):
            cs = [const_of(self.ev(a)) for a in node.args]
            if all(c is not None and c.denominator == 1 for c in cs):
                lo, hi = (0, int(cs[0])) if len(cs) == 1 else (int(cs[0]), int(cs[1]))
                if 0 <= hi - lo <= 12:
                    return tuple(F.const(k) for k in range(lo, hi))         # range(3) / range(len((4, 8, 12)))
            return None
        if isinstance(node, ast.Call) and not node.keywords and dotted(node.func) in ("zip", "enumerate", "reversed", "list", "tuple") and node.args:
            parts = [self._literal_iter(a) for a in node.args]
            if any(p is None for p in parts):
                return None
            d = dotted(node.func)
            if d == "zip":
                return tuple(zip(*parts)) if len({len(p) for p in parts}) == 1 else None
            if len(parts) != 1:
                return None
            if d == "enumerate":
                return tuple((F.const(i), x) for i, x in enumerate(parts[0]))
            return tuple(reversed(parts[0])) if d == "reversed" else parts[0]
        return None

    def _comp(self, node):
        if len(node.generators) != 1 or node.generators[0].is_async:
            return Unknown("nested comprehension")
        g = node.generators[0]
        lit = self._literal_iter(g.iter)
        if isinstance(lit, tuple) and len(lit) <= 12 and not g.ifs:
            # a comprehension over a literal sequence is the tuple of its elements
            saved = dict(self.env)
            out = []
            try:
                for item in lit:
                    self._bind_target(g.target, item)
                    out.append(self._fresh_array(node.elt) if self._is_alloc(node.elt) else self.ev(node.elt))
            finally:
                self.env = saved
            return tuple(out)
        saved = dict(self.env)
        try:
            name, dom, itv = self._iter_bind(g.target, g.iter)
            self.loop_depth += 1
            self.loopstack.append((name, dom))
            conds = [self.ev(c) for c in g.ifs]
            elt = self.ev(node.elt)
        finally:
            self.loop_depth -= 1
            if self.loopstack and self.loopstack[-1][0] == f"_i{self.loop_depth}":
                self.loopstack.pop()
            self.env = saved
        if is_unknown(elt) or is_unknown(dom) or any(is_unknown(c) or isinstance(c, tuple) for c in conds):
            return elt if is_unknown(elt) else Unknown("comprehension domain")
        try:
            return self._mk_comp(name, wrap(elt), need(dom), *[need(c) for c in conds])
        except Unsupported as e:
            return Unknown(str(e))

    def _mk_comp(self, var, elt, dom, *conds):
        v = F.fn("comp", elt, dom, *conds)
        self.tr.compvars[(v.n.key(), v.d.key())] = var
        return v

    def _dictcomp(self, node):
        """{k: table[k] for k in <tuple of constants>} is expanded; `table` may be locals()"""
        if len(node.generators) != 1 or node.generators[0].ifs or not isinstance(node.generators[0].target, ast.Name):
            return Unknown("dict comprehension")
        g = node.generators[0]
        keys = self.ev(g.iter)
        if not isinstance(keys, tuple):
            return Unknown("dict comprehension over a non-literal")
        saved = dict(self.env)
        parts = []
        try:
            for kv in keys:
                self.env[g.target.id] = kv
                parts += [wrap(self.ev(node.key)), wrap(self._fresh_array(node.value) if self._is_alloc(node.value) else self.ev(node.value))]
        except Unsupported as e:
            return Unknown(str(e))
        finally:
            self.env = saved
        return F.fn("dict", *parts)

    # ------------------------------------------------------------------ calls
    def _deep(self, v):
        return isinstance(v, tuple) and any(isinstance(x, tuple) for x in v)

    def _args_expanded(self, node):
        """the call with every argument evaluated once and replaced by a name bound to its value: `*tuple` arguments are expanded,
        `**d` is the keyword `_kwargs`, tuples given by keyword and nested tuples are opaque tuple(...) values"""
        args = []
        for a in node.args:
            if isinstance(a, ast.Name) and a.id.startswith("<val:"):
                args.append(a)
            elif isinstance(a, ast.Starred):
                v = self.ev(a.value)
                if isinstance(v, tuple):
                    args += [self._tmpname(wrap(x) if self._deep(x) else x) for x in v]
                elif is_unknown(v):
                    args.append(self._tmpname(v))
                else:
                    # f(*g(...), x): for a callee whose leading parameters are known, the starred value fills the ones not given otherwise
                    n = STAR_ARITY.get(dotted(node.func), 0) - sum(1 for x in node.args if not isinstance(x, ast.Starred))
                    if n >= 1 and sum(1 for x in node.args if isinstance(x, ast.Starred)) == 1:
                        args += [self._tmpname(self.mk_idx(v, F.const(k))) for k in range(n)]
                    else:
                        args.append(self._tmpname(F.fn("star", need(v))))
            else:
                v = self.ev(a)
                try:
                    args.append(self._tmpname(wrap(v) if self._deep(v) else v))
                except Unsupported as e:
                    args.append(self._tmpname(Unknown(str(e))))
        kws = []
        for k in node.keywords:
            if isinstance(k.value, ast.Name) and k.value.id.startswith("<val:"):
                kws.append(k)
                continue
            v = self.ev(k.value)
            if k.arg is None:
                du = app(v, "dict") if not is_unknown(v) and not isinstance(v, tuple) else None
                keys = [str_parts(x) if not isinstance(x, str) else None for x in du[1][0::2]] if du is not None else [None]
                if du is not None and all(sp is not None and len(sp) == 1 and isinstance(sp[0], str) and sp[0].isidentifier() for sp in keys):
                    for sp, x in zip(keys, du[1][1::2]):
                        kws.append(ast.keyword(arg=sp[0], value=self._tmpname(untuple(x))))       # f(**{"a": 1}) is f(a=1)
                    continue
            try:
                v = wrap(v) if isinstance(v, tuple) else v
            except Unsupported as e:
                v = Unknown(str(e))
            kws.append(ast.keyword(arg=k.arg if k.arg is not None else "_kwargs", value=self._tmpname(v)))
        return ast.Call(func=node.func, args=args, keywords=kws)

    def _map(self, node):
        """map(f, xs, ...) is the comprehension [f(x, ...) for x, ... in zip(xs, ...)]"""
        f = node.args[0]
        its = [untuple(self.ev(a)) for a in node.args[1:]]
        if any(is_unknown(v) for v in its):
            return next(v for v in its if is_unknown(v))
        name = f"_i{self.loop_depth}"
        k = F.sym(name)
        dom = self.mk_len(its[0])
        saved = dict(self.env)
        self.loop_depth += 1
        self.loopstack.append((name, dom))
        try:
            elems = [self.mk_idx(v, k) for v in its]
            if isinstance(f, ast.Lambda):
                a = f.args
                ps = [x.arg for x in a.posonlyargs + a.args]
                if a.vararg or a.kwarg or a.kwonlyargs or len(ps) != len(elems):
                    return Unknown("map with a lambda of another arity")
                for p_, e in zip(ps, elems):
                    self.env[p_] = e
                elt = self.ev(f.body)
            else:
                call = ast.Call(func=f, args=[self._tmpname(wrap(e) if self._deep(e) else e) for e in elems], keywords=[])
                ast.copy_location(call, node)
                elt = self.ev(call)
        except Unsupported as e:
            return Unknown(str(e))
        finally:
            self.loop_depth -= 1
            self.loopstack.pop()
            self.env = saved
        if is_unknown(elt) or is_unknown(dom):
            return elt if is_unknown(elt) else Unknown("map domain")
        return self._mk_comp(name, wrap(elt), need(dom))

    def _resolve_callee(self, node):
        """f = np.digitize; f(x, b)  /  lo = operator.le if right else operator.lt; lo(a, b)  /  f = partial(np.digitize, right=right); f(x, b):
        the call with the callee (and the partial's arguments) spelled out; the node itself otherwise"""
        if isinstance(node.func, (ast.Subscript, ast.IfExp)) and self.inline:
            # (pass 5) TABLE[key](...) with a table of module functions: the call of the function selected
            try:
                fv = self.ev(node.func)
            except Unsupported:
                fv = None
            fs = sym_of(fv) if fv is not None and not isinstance(fv, tuple) else None
            if fs is not None and fs in self.inline and fs not in self.env:
                new = ast.Call(func=ast.copy_location(ast.Name(id=fs, ctx=ast.Load()), node), args=node.args, keywords=node.keywords)
                ast.copy_location(new, node)
                for attr in ("_vparent", "_vmod"):
                    if hasattr(node, attr):
                        setattr(new, attr, getattr(node, attr))
                return new
            return node
        if not isinstance(node.func, ast.Name) or node.func.id not in self.env or node.func.id in self.buffers:
            return node
        v = self.env[node.func.id]
        if v is None or is_unknown(v) or isinstance(v, tuple):
            return node
        s = sym_of(v)
        if s is not None and self.inline and s in self.inline and s not in self.env and s.isidentifier() and s != node.func.id:
            # (pass 5) a local bound to a module function (chosen by a conditional expression the facts decide): the call of that function
            new = ast.Call(func=ast.copy_location(ast.Name(id=s, ctx=ast.Load()), node), args=node.args, keywords=node.keywords)
            ast.copy_location(new, node)
            for attr in ("_vparent", "_vmod"):
                if hasattr(node, attr):
                    setattr(new, attr, getattr(node, attr))
            return new
        if s is not None and "." in s and not s.startswith("<") and all(p.isidentifier() for p in s.split(".")) and s.split(".")[0] not in self.env:
            new = ast.Call(func=ast.parse(s, mode="eval").body, args=node.args, keywords=node.keywords)
        else:
            u = app(v)
            if u is None or u[0] not in ("call:partial", "call:functools.partial") or not u[1] or isinstance(u[1][0], str):
                return node
            f = sym_of(u[1][0])
            if f is None or f.startswith("<") or not all(p.isidentifier() for p in f.split(".")):
                return node
            pos, kws = [], []
            for a in u[1][1:]:
                if isinstance(a, str):
                    return node
                k = app(a)
                if k is not None and k[0].startswith("kw:"):
                    kws.append(ast.keyword(arg=k[0][3:], value=self._tmpname(untuple(k[1][0]))))
                else:
                    pos.append(self._tmpname(untuple(a)))
            new = ast.Call(func=ast.parse(f, mode="eval").body, args=pos + list(node.args), keywords=kws + list(node.keywords))
        for n in ast.walk(new.func):
            ast.copy_location(n, node)
        ast.copy_location(new, node)
        for attr in ("_vparent", "_vmod"):
            if hasattr(node, attr):
                setattr(new, attr, getattr(node, attr))
        return new

    def _call(self, node):
        node = self._resolve_callee(node)
        if dotted(node.func) == "map" and len(node.args) >= 2 and not node.keywords and not any(isinstance(a, ast.Starred) for a in node.args):
            return self._map(node)
        cast = self._cast(node, dotted(node.func))
        if cast is not None:
            arg, kind = cast
            if not self.tr.dtypes:
                self.tr.floats.append(node)          # written as the identity below: remember that a dtype changed here
            else:
                v = self.ev(arg)
                if is_unknown(v) or isinstance(v, tuple):
                    return v if is_unknown(v) else Unknown('cast of a tuple')
                return F.fn('asfloat', need(v)) if kind == 'float' else F.fn('ascast', need(v), F.sym(kind))
        if node.args or node.keywords:
            new = self._args_expanded(node)
            ast.copy_location(new, node)
            for attr in ("_vparent", "_vmod"):
                if hasattr(node, attr):
                    setattr(new, attr, getattr(node, attr))
            node = new
        d = dotted(node.func)
        nargs, kws = len(node.args), {k.arg for k in node.keywords}
        # (pass 6) np.ravel(X) is X seen flat, exactly like X.ravel() (which the base evaluator writes as X): a store through
        # the result is a store into X (the rule that reads a one-index store into a two-axis table checks that it is a view)
        if d in ("np.ravel", "numpy.ravel") and nargs == 1 and not kws and not isinstance(node.args[0], ast.Starred):
            return self.ev(node.args[0])
        # ---- function spellings of operators:  np.greater_equal(a, b) is a >= b,  np.subtract(a, b) is a - b,  np.multiply(a, b, out=a) is a *= b
        if d in self.FUNC_CMP and nargs == 2 and not kws:
            a, b = self.ev(node.args[0]), self.ev(node.args[1])
            if is_unknown(a) or is_unknown(b):
                return a if is_unknown(a) else b
            try:
                cv = F.fn("cmp:" + self.FUNC_CMP[d], wrap(a), wrap(b))
                self._born(cv, node)
                return cv
            except Unsupported as e:
                return Unknown(str(e))
        if d in self.FUNC_ARITH and nargs == 2 and kws <= {"out"}:
            a, b = self.ev(node.args[0]), self.ev(node.args[1])
            if is_unknown(a) or is_unknown(b) or isinstance(a, tuple) or isinstance(b, tuple):
                v = a if is_unknown(a) else (b if is_unknown(b) else _vec_binop(self.FUNC_ARITH[d](), a, b))
            else:
                try:
                    v = _binop(self.FUNC_ARITH[d](), need(a), need(b))
                except Unsupported as e:
                    v = Unknown(str(e))
            if "out" in kws:
                self._store_out(next(k.value for k in node.keywords if k.arg == "out"), v, node)
            return v
        if d in ("np.negative", "operator.neg") and nargs == 1 and not kws:
            v = self.ev(node.args[0])
            return v if is_unknown(v) or isinstance(v, tuple) else -need(v)
        if d in ("np.fabs",) and nargs == 1 and not kws:
            v = self.ev(node.args[0])
            return v if is_unknown(v) or isinstance(v, tuple) else F.fn("abs", need(v))
        if d in ("np.logical_and", "np.logical_or", "np.bitwise_and", "np.bitwise_or") and nargs == 2 and not kws and not self.tr.dtypes:
            a, b = self.ev(node.args[0]), self.ev(node.args[1])
            if not (is_unknown(a) or is_unknown(b) or isinstance(a, tuple) or isinstance(b, tuple)):
                x, y = (a, b) if repr(a) <= repr(b) else (b, a)
                return F.fn("mask:BitAnd" if d.endswith("and") else "mask:BitOr", need(x), need(y))
        if d in ("np.logical_not", "operator.not_") and nargs == 1 and not kws and not self.tr.dtypes:
            v = self.ev(node.args[0])
            if not is_unknown(v) and not isinstance(v, tuple):
                return mk_not(v)
        if "out" in kws:
            # any other call that writes its result into an array of the caller
            self._record_call(node)
            inner = ast.Call(func=node.func, args=node.args, keywords=[k for k in node.keywords if k.arg != "out"])
            ast.copy_location(inner, node)
            v = self.ev(inner)
            self._store_out(next(k.value for k in node.keywords if k.arg == "out"), v, node)
            return v
        if isinstance(node.func, ast.Attribute) and node.func.attr in ("to_numpy", "tolist") and not nargs and not kws:
            return self.ev(node.func.value)                     # the array behind a Series / DataFrame
        if isinstance(node.func, ast.Attribute) and node.func.attr == "join" and nargs == 1 and not kws:
            sep, seq = str_parts(self.ev(node.func.value)), untuple(self.ev(node.args[0]))
            if sep is not None and isinstance(seq, tuple) and seq and all(str_parts(x) is not None for x in seq if not isinstance(x, tuple)) \
                    and not any(isinstance(x, tuple) for x in seq):
                parts = []
                for i, x in enumerate(seq):
                    parts += (sep if i else []) + str_parts(x)
                return mk_str(parts)                            # ", ".join((f, f))
        if isinstance(node.func, ast.Attribute) and node.func.attr == "format" and nargs >= 1 and not kws:
            # str.format on a literal template, filled symbolically: "b={}".format(4) is 'b=4'; "{{:.{}f}}".format(precision) is the string
            # '{:.' + str(precision) + 'f}'; "{0}, {0}".format(f) repeats the parts of f ({{ }} escapes, positional / numbered fields; a field with
            # a format spec or conversion becomes the same fmt(value, spec, conversion) part an f-string gives)
            fsp = str_parts(self.ev(node.func.value))
            if fsp is not None and len(fsp) == 1 and isinstance(fsp[0], str):
                filled = _format_literal(fsp[0], node.args, [self.ev(a) for a in node.args])
                if filled is not None:
                    return mk_str(filled or [""])
        if isinstance(node.func, ast.Attribute) and node.func.attr == "split" and nargs <= 1 and not kws:
            # "G1 G2 G4".split() / "a,b".split(","): the tuple of the pieces
            ssp = str_parts(self.ev(node.func.value))
            sep = str_parts(self.ev(node.args[0])) if nargs else None
            if ssp is not None and len(ssp) == 1 and isinstance(ssp[0], str) and (not nargs or (sep is not None and len(sep) == 1 and isinstance(sep[0], str) and sep[0])):
                return tuple(F.sym(repr(x)) for x in (ssp[0].split(sep[0]) if nargs else ssp[0].split()))
        if d in ("itertools.pairwise", "it.pairwise", "pairwise") and nargs == 1 and not kws:
            v = self.ev(node.args[0])
            if not is_unknown(v) and not isinstance(v, tuple):
                return F.fn("zip", need(v), self.mk_idx(v, F.fn("slice", F.const(1), NONE, NONE)))       # pairwise(b) is zip(b, b[1:])
        if d == "slice" and 1 <= nargs <= 3 and not kws:
            vs = [self.ev(a) for a in node.args]
            if not any(is_unknown(v) or isinstance(v, tuple) for v in vs):
                vs = [NONE, vs[0], NONE] if nargs == 1 else (vs + [NONE] if nargs == 2 else vs)
                return F.fn("slice", *[need(v) for v in vs])         # slice(a, b) is the index a:b
        if d in ("np.arange", "numpy.arange") and 1 <= nargs <= 3 and kws <= {"dtype"}:
            # np.arange(0, n) / np.arange(0, n, 1) / np.arange(n, dtype=float) / np.arange(0.0, n): the integers 0 .. n-1 (as floats or not)
            vs = [self.ev(a) for a in node.args]
            if not any(is_unknown(v) or isinstance(v, tuple) for v in vs):
                if len(vs) == 3 and const_of(vs[2]) == 1:
                    vs = vs[:2]
                if len(vs) == 2 and const_of(vs[0]) == 0:
                    vs = vs[1:]
                self._record_call(node)
                return F.fn("call:np.arange", *[need(v) for v in vs])
        if d == "np.where" and nargs == 3 and not kws:
            c, a, b = (self.ev(x) for x in node.args)
            if not (is_unknown(c) or isinstance(c, tuple) or is_unknown(a) or is_unknown(b) or isinstance(a, tuple) or isinstance(b, tuple)):
                ta, tb = _boolconst(a), _boolconst(b)
                if ta is True and tb is False:
                    return c
                if ta is False and tb is True:
                    return mk_not(c)
        if d == "np.append" and nargs == 2 and kws <= {"axis"}:
            a, b = self.ev(node.args[0]), self.ev(node.args[1])
            if not (is_unknown(a) or is_unknown(b) or isinstance(a, tuple) or isinstance(b, tuple)):
                return F.fn("hcat", need(a), need(b))           # 1-D pieces, or column blocks with axis=1
        if d == "np.insert" and nargs == 3 and not kws and const_of(self.ev(node.args[1])) == 0:
            a, b = self.ev(node.args[0]), self.ev(node.args[2])
            if not (is_unknown(a) or is_unknown(b) or isinstance(a, tuple) or isinstance(b, tuple)):
                return F.fn("hcat", need(b), need(a))           # np.insert(x, 0, v): v in front of x
        # ---- table look-ups through locals()
        if d == "locals" and not nargs:
            return F.sym("<locals>")
        # ---- library idioms with one canonical value
        if d == "len" and nargs == 1 and not kws:
            v = self.ev(node.args[0])
            return v if is_unknown(v) else self.mk_len(v)
        if d == "str" and nargs == 1 and not kws:
            v = self.ev(node.args[0])
            if is_unknown(v) or isinstance(v, tuple):
                return v if is_unknown(v) else Unknown("str of a tuple")
            cv = const_of(v)
            if cv is not None and cv.denominator == 1 and not (isinstance(node.args[0], ast.Constant) and isinstance(node.args[0].value, float)):
                return F.sym(repr(str(int(cv))))                     # str(4)
            return v if str_parts(v) is not None else F.fn("fmt", need(v), "", "")
        if d in ("np.atleast_1d", "np.atleast_2d") and nargs > 1 and not kws:
            return tuple(self.ev(a) for a in node.args)
        if d in ("np.square",) and nargs == 1 and not kws:
            v = self.ev(node.args[0])
            if is_unknown(v) or isinstance(v, tuple):
                return v if is_unknown(v) else tuple(need(x) * need(x) for x in v)
            return need(v) * need(v)
        if d in ("np.transpose",) and nargs == 1 and not kws:
            return self._transposed(self.ev(node.args[0]))
        if d == "np.tile" and nargs == 2 and not kws:
            self._record_call(node)
            v = self.ev(node.args[0])
            return v if is_unknown(v) else F.fn("tile", wrap(v))
        if d in ("np.dot",) and nargs == 2 and not kws:
            return self._dot(self.ev(node.args[0]), self.ev(node.args[1]))
        if isinstance(node.func, ast.Attribute) and node.func.attr == "dot" and nargs == 1 and not kws and d not in ("np.dot",):
            return self._dot(self.ev(node.func.value), self.ev(node.args[0]))
        if d == "np.diff" and nargs == 1 and kws <= {"axis", "n"}:
            v = self.ev(node.args[0])
            ax = next((const_of(self.ev(k.value)) for k in node.keywords if k.arg == "axis"), -1)
            nn = next((const_of(self.ev(k.value)) for k in node.keywords if k.arg == "n"), 1)
            if not is_unknown(v) and not isinstance(v, tuple) and nn == 1 and ax in (0, 1, -1):
                lo = F.fn("slice", F.const(1), NONE, NONE)
                hi = F.fn("slice", NONE, F.const(-1), NONE)
                if ax == 1:           # along the columns of a 2-D array
                    full = F.fn("slice", NONE, NONE, NONE)
                    lo, hi = F.fn("tuple", full, lo), F.fn("tuple", full, hi)
                return self.mk_idx(v, lo) - self.mk_idx(v, hi)
        if d in ("np.inner", "np.vdot") and nargs == 2 and not kws:
            return self._dot(self.ev(node.args[0]), self.ev(node.args[1]))
        if d in ("np.power", "pow") and nargs == 2 and not kws:
            a, b = self.ev(node.args[0]), self.ev(node.args[1])
            if not is_unknown(a) and not is_unknown(b) and not isinstance(a, tuple) and not isinstance(b, tuple):
                try:
                    return need(a) ** need(b)
                except Unsupported as e:
                    return Unknown(str(e))
        if d in ("np.hstack", "np.concatenate") and nargs == 1 and kws <= {"axis"}:
            ax = next((self.ev(k.value) for k in node.keywords if k.arg == "axis"), None)
            if ax is None or const_of(ax) in (1, -1) or (d == "np.concatenate" and const_of(ax) == 0):
                v = untuple(self.ev(node.args[0]))
                if isinstance(v, tuple):
                    parts = []
                    for x in v:
                        x = untuple(x)
                        if isinstance(x, tuple):
                            parts += list(x)
                        else:
                            parts.append(x)
                    if any(is_unknown(x) or isinstance(x, tuple) for x in parts):
                        return next((x for x in parts if is_unknown(x)), Unknown("nested tuple"))
                    return F.fn("hcat", *[need(x) for x in parts])
        if d in ("np.vstack", "np.column_stack", "np.stack", "np.row_stack") and nargs == 1 and (not kws or (d == "np.stack" and kws == {"axis"})):
            v = untuple(self.ev(node.args[0]))
            if isinstance(v, tuple):
                out = []
                for x in v:
                    x = untuple(x)
                    if isinstance(x, tuple):
                        out += list(x)
                    else:
                        out.append(x)
                return tuple(out)
        if d == "zip" and not kws and nargs >= 1:
            vs = [untuple(self.ev(a)) for a in node.args]
            if all(isinstance(v, tuple) for v in vs) and len({len(v) for v in vs}) == 1:
                return tuple(tuple(v[i] for v in vs) for i in range(len(vs[0])))
            if any(is_unknown(v) for v in vs):
                return next(v for v in vs if is_unknown(v))
            try:
                return F.fn("zip", *[wrap(v) for v in vs])           # element-wise: indexed / iterated through mk_idx
            except Unsupported as e:
                return Unknown(str(e))
        if d == "enumerate" and not kws and nargs == 1:
            v = self.ev(node.args[0])
            if is_unknown(v):
                return v
            try:
                return F.fn("enumerate", wrap(v))
            except Unsupported as e:
                return Unknown(str(e))
        if d == "range" and not kws and 1 <= nargs <= 2:
            vs = [self.ev(a) for a in node.args]
            if any(is_unknown(v) or isinstance(v, tuple) for v in vs):
                return Unknown("range bounds")
            return F.fn("range", *vs)
        if d in ("list", "tuple") and not kws and nargs == 1:
            return self.ev(node.args[0])                              # a sequence of the same elements
        if d == "np.fromiter" and nargs >= 1 and kws <= {"dtype", "count"}:
            return self.ev(node.args[0])
        if d == "np.full" and 1 <= nargs <= 3 and kws <= {"fill_value", "dtype", "shape"}:
            fv = node.args[1] if nargs >= 2 else next((k.value for k in node.keywords if k.arg == "fill_value"), None)
            if fv is not None:
                v = self.ev(fv)
                b = _boolconst(v) if sym_of(v) in ("True", "False") else None
                if b is not None:
                    self._record_call(node)
                    return F.const(1 if b else 0)                     # np.full(n, False) / np.zeros(n, bool), np.full(n, True) / np.ones(n, bool)
                if const_of(v) is not None:
                    self._record_call(node)
                    return v
        if d == "dict" and nargs <= 1:
            parts = []
            if nargs == 1:
                v = untuple(self.ev(node.args[0]))
                if isinstance(v, tuple):
                    v = tuple(untuple(x) for x in v)
                if not (isinstance(v, tuple) and all(isinstance(x, tuple) and len(x) == 2 for x in v)):
                    return Unknown("dict() of something that is not a sequence of pairs")
                for k, x in v:
                    parts += [wrap(k), wrap(x)]
            for k in node.keywords:
                if k.arg is None:
                    return Unknown("**kwargs")
                parts += [F.sym(repr(k.arg)), wrap(self.ev(k.value))]
            return F.fn("dict", *parts)
        # ---- x.max() / np.max(x) / max(x)
        m = None
        recv = None
        if d in ("np.amax", "np.amin", "numpy.amax", "numpy.amin") and nargs >= 1:
            m, recv, rest = d[-3:], node.args[0], node.args[1:]          # the older names of np.max / np.min
        elif isinstance(node.func, ast.Attribute) and node.func.attr in METHODS:
            if d is not None and d.split(".")[0] in ("np", "numpy") and d.count(".") == 1:
                if nargs >= 1:
                    m, recv, rest = node.func.attr, node.args[0], node.args[1:]
            else:
                m, recv, rest = node.func.attr, node.func.value, node.args
        elif d in ("sum", "any", "all", "max", "min") and nargs == 1:
            m, recv, rest = d, node.args[0], []
        if m is not None:
            self._record_call(node)
            v = self.ev(recv)
            if is_unknown(v):
                return v
            args = [wrap(v)]
            for a in rest:
                x = self.ev(a)
                if is_unknown(x):
                    return x
                args.append(wrap(x))
            for k in sorted(node.keywords, key=lambda k: k.arg or ""):
                if k.arg is None:
                    return Unknown("**kwargs")
                x = self.ev(k.value)
                if is_unknown(x):
                    return x
                args.append(F.fn("kw:" + k.arg, wrap(x)))
            return F.fn("call:np." + m, *args)
        if not self.inline:
            self._unfollowed(node)
        return super()._call(node)

    FUNC_CMP = {"np.greater": "Gt", "np.greater_equal": "GtE", "np.less": "Lt", "np.less_equal": "LtE", "np.equal": "Eq", "np.not_equal": "NotEq",
                "operator.gt": "Gt", "operator.ge": "GtE", "operator.lt": "Lt", "operator.le": "LtE", "operator.eq": "Eq", "operator.ne": "NotEq"}
    FUNC_ARITH = {"np.subtract": ast.Sub, "np.add": ast.Add, "np.multiply": ast.Mult, "np.divide": ast.Div, "np.true_divide": ast.Div,
                  "operator.sub": ast.Sub, "operator.add": ast.Add, "operator.mul": ast.Mult, "operator.truediv": ast.Div}

    def _store_out(self, target, v, node):
        """f(..., out=X): the result is written into X - a store like `X[...] = f(...)` when X is (a view of) an array the evaluation tracks"""
        cur = self.ev(target)
        vw = self._view(cur) if not (cur is None or is_unknown(cur) or isinstance(cur, tuple)) else None
        s = sym_of(cur) if vw is None else None
        if vw is None and s is None:
            self.tr.lost.append((f"out={ast.unparse(target)} of a call", node))
            return
        if vw is None:
            root, ixv = s, F.fn("slice", NONE, NONE, NONE)
        else:
            root, ix = vw
            ixv = ix[0] if len(ix) == 1 else F.fn("tuple", *ix)
        self.tr.seq += 1
        self.seq = self.tr.seq
        self.cell_seq.append(self.tr.seq)
        self.tr.cells.append((root, ixv, v, node))
        self.tr.cellx.append(dict(guard=tuple(self.path), loops=self._loops(), seq=self.tr.seq, aug=False))
        self.stores.append((root, repr(ixv), v, node))

    FLOAT_DTYPES = {"float", "np.float64", "np.double", "np.float_", "np.float32", "np.single", "np.longdouble", "numpy.float64", "numpy.float32",
                    "'float'", "'float64'", "'float32'", "'f8'", "'f4'", "'d'", "'f'", "'double'", "'<f8'", "'=f8'", "'<f4'"}

    def _cast(self, node, d):
        """(argument node, 'float' | dtype text) when the call converts an array to another dtype: x.astype(T), np.asarray / np.array /
        np.asanyarray / np.ascontiguousarray(x, dtype=T), float(x), np.float64(x), np.asfarray(x); None for any other call"""
        def kind(t):
            txt = dotted(t) if not isinstance(t, ast.Constant) else repr(t.value)
            if txt is None:
                txt = ast.unparse(t)
            return "float" if txt in self.FLOAT_DTYPES else txt
        kw = {k.arg: k.value for k in node.keywords}
        if isinstance(node.func, ast.Attribute) and node.func.attr == "astype" and d not in ("np.astype",):
            t = node.args[0] if node.args else kw.get("dtype")
            return (node.func.value, kind(t)) if t is not None else None
        if d in ("np.asarray", "np.array", "np.asanyarray", "np.ascontiguousarray", "numpy.asarray", "numpy.array") and node.args:
            t = node.args[1] if len(node.args) >= 2 else kw.get("dtype")
            return (node.args[0], kind(t)) if t is not None else None
        if d in ("float", "np.float64", "np.double", "np.float32", "np.float_", "np.asfarray", "np.single") and len(node.args) == 1 and not kw:
            return (node.args[0], "float")
        return None

    def _record_call(self, node):
        n0 = len(self.tr.calls)
        super()._record_call(node)
        for _ in range(len(self.tr.calls) - n0):
            self.tr.seq += 1
            self.tr.callx.append(dict(guard=tuple(self.path), loops=self._loops(), seq=self.tr.seq))

    def _inline_call(self, node):
        r = self._inline_call0(node)
        if r is NotImplemented:
            self._unfollowed(node)
        return r

    def _unfollowed(self, node):
        """a call of a function defined in the analysed module that is not followed (not in the rule's table, *args, too deep) and is handed an
        array this evaluation tracks (or a view of one): what it stores there is not in the record"""
        name = dotted(node.func)
        own = getattr(self.fn, "_vmod", None)
        if not name or "." in name or own is None or name not in getattr(own, "funcs", {}):
            return
        vals = []
        for a in node.args:
            vals.append(self.ev(a.value if isinstance(a, ast.Starred) else a))
        for k in node.keywords:
            vals.append(self.ev(k.value))
        for v in vals:
            for x in ([v] if not isinstance(v, tuple) else list(v)):
                if x is None or is_unknown(x) or isinstance(x, (tuple, str)):
                    continue
                b, _ = peel(x)
                sb = sym_of(b)
                if sb is not None and (sb in self.tr.inits or any(c[0] == sb for c in self.tr.cells)):
                    self.tr.lost.append((f"`{name}` is handed the array `{sb}` and is not followed", node))
                    return

    def _inline_call0(self, node):
        name = dotted(node.func)
        if isinstance(node.func, ast.Name) and node.func.id in self.env and (sym_of(self.env[node.func.id]) or "").startswith("<lambda:"):
            name = sym_of(self.env[node.func.id])                   # a local bound to a lambda (possibly chosen by a ternary the facts decide)
        elif isinstance(node.func, ast.Name) and node.func.id in self.env and (sym_of(self.env[node.func.id]) or "").startswith("<func:"):
            name = sym_of(self.env[node.func.id])[6:-1]             # a local bound to a function defined in the body
        elif name is None and isinstance(node.func, (ast.IfExp, ast.Lambda)):
            fv = self.ev(node.func)
            if (sym_of(fv) or "").startswith("<lambda:"):
                name = sym_of(fv)
        fn = self.inline.get(name) if self.inline else None
        own = getattr(self.fn, "_vmod", None)
        if fn is None and name and "." not in name and own is not None and self.home is not None and own is not self.home and self.inline_depth > 0:
            # inside a helper that lives in another module than the analysed function: bare names are that module's functions
            fn = own.funcs.get(name)
        if fn is None or self.inline_depth >= 4 or fn is self.fn:
            return NotImplemented
        a = fn.args
        params = [x.arg for x in a.posonlyargs + a.args]
        if params and params[0] in ("self", "cls") and name and "." in name and name.split(".")[0] == "self":
            params = params[1:]
        if a.vararg or a.kwarg or any(isinstance(x, ast.Starred) for x in node.args) or any(k.arg is None for k in node.keywords):
            return NotImplemented
        if len(node.args) > len(params):
            return NotImplemented
        env = {}
        for p_, x in zip(params, node.args):
            env[p_] = self.ev(x)
        kwonly = [x.arg for x in a.kwonlyargs]
        for k in node.keywords:
            if k.arg not in params and k.arg not in kwonly:
                return NotImplemented
            env[k.arg] = self.ev(k.value)
        dflt = dict(zip(params[::-1], (a.defaults or [])[::-1]))
        for p_ in params:
            if p_ not in env:
                if p_ in dflt:
                    env[p_] = self.ev(dflt[p_])
                else:
                    return NotImplemented
        for p_, dd in zip(kwonly, a.kw_defaults):
            if p_ not in env and dd is not None:
                env[p_] = self.ev(dd)
        consts = getattr(self, "consts", {})
        cmod = getattr(fn, "_vmod", None)
        if cmod is not None and own is not None and cmod is not own:
            consts = _module_consts(self.src, cmod.rel)          # the callee reads the constants of its own module
        full = dict(consts)
        if id(fn) in self.closures:
            full.update({k: v for k, v in self.env.items() if not k.startswith("<")})        # a closure reads the enclosing function's names
        full.update(env)
        sub = type(self)(fn, facts=self.facts, trace=self.tr, depth=self.inline_depth + 1, loop_depth=self.loop_depth, path=self.path, home=self.home,
                         env=full, src=self.src, subscript=self.subscript, call=self.call_hook, binop=self.binop_hook)
        sub.consts = consts
        sub.inline = self.inline
        sub.closures = set(self.closures)
        if id(fn) in self.closures:
            sub.buffers |= {b for b in self.buffers if b not in sub.locals_}               # the enclosing function's arrays stay arrays
        sub.loopstack = list(self.loopstack)
        n0 = len(self.tr.rebinds)
        sub.run(fn.body)
        self._apply_rebinds(n0)
        v = combine_returns(sub.returns, len(self.path))
        if v is None:
            return NONE
        return v

    def _apply_rebinds(self, n0):
        """a helper updated an array it was handed as a whole in place (`arr += x`): the names that held the old content hold the new one"""
        for old, new in self.tr.rebinds[n0:]:
            for k, v in list(self.env.items()):
                if not k.startswith("<") and sym_of(v) == old:
                    self.env[k] = F.sym(new)

    # ------------------------------------------------------------------ assignments
    def _new_version(self, name, init):
        k = self.tr.nver.get((self.act, name), 0) + 1
        self.tr.nver[(self.act, name)] = k
        s = name + (f"'{self.inline_depth}.{self.act}" if self.inline_depth else "") + (f"#{k}" if k > 1 else "")
        self.env[name] = F.sym(s)
        self.tr.inits[s] = init
        self.env[f"<init:{name}>"] = init
        return s

    def _assign(self, target, v, st, aug=False):
        if isinstance(target, ast.Name) and target.id in self.buffers:
            val = getattr(st, "value", None)
            copied = self._copies(val)           # `B = A.copy()` / np.array(A) / A.astype(t): a new array that starts with A's content
            if not aug and not copied and sym_of(v) is not None and sym_of(v) in self.tr.inits:
                self.env[target.id] = v         # `pv = PV`: a second name for the same array, not a new array
                return
            if not aug and not copied and self._view(v) is not None:
                self.env[target.id] = v         # `row = X[j]`: stores into `row` are stores into X[j]
                return
            sname = self._new_version(target.id, v)
            if copied and sym_of(v) in self.tr.allocs:
                self.tr.allocs[sname] = self.tr.allocs[sym_of(v)]          # same shape as the array it was copied from
            if isinstance(val, ast.Call) and dotted(val.func) in ALLOCATORS and not aug:
                try:
                    self.tr.allocs[sname] = (dotted(val.func), [self.ev(a) for a in val.args if not isinstance(a, ast.Starred)],
                                             {k.arg: self.ev(k.value) for k in val.keywords if k.arg})
                except Unsupported:
                    pass
            return
        if isinstance(target, (ast.Tuple, ast.List)) and not isinstance(v, tuple) and not is_unknown(v) and v is not None \
                and not any(isinstance(t, ast.Starred) for t in target.elts):
            for k, t in enumerate(target.elts):
                self._assign(t, self.mk_idx(v, F.const(k)), st)
            return
        if isinstance(target, ast.Subscript) and isinstance(target.value, ast.Name) and target.value.id in self.buffers:
            nm = target.value.id
            cur = self.env.get(nm)
            try:
                ix = norm_index(self._index_value(target.slice))
                if cur is not None and not is_unknown(cur) and not isinstance(cur, tuple):
                    ix = self._from_end(cur, ix)
            except Unsupported as e:
                ix = Unknown(str(e))
            root = nm
            if cur is not None and not is_unknown(cur) and not isinstance(cur, tuple):
                b, pre = peel(cur)
                s = sym_of(b)
                if s is not None:
                    root = s
                    if pre and not is_unknown(ix):
                        t = app(ix, "tuple")
                        ix = norm_index(F.fn("tuple", *(pre + (list(t[1]) if t is not None else [ix]))))
            if cur is not None and not is_unknown(cur) and not isinstance(cur, tuple) and sym_of(peel(cur)[0]) is None:
                # the name does not hold (a view of) an array the evaluator knows: whatever this store changes is not in the record
                self.tr.lost.append((f"store through `{nm}`, which holds {cur!r}"[:200], st))
            if not aug and not is_unknown(ix) and (_full_slice(ix) or sym_of(ix) == "Ellipsis") and not self.path and not self.loopstack \
                    and sym_of(cur) == root and root in self.tr.inits and not is_unknown(v) and not isinstance(v, tuple):
                # `X[:] = v` outside loops and tests: every entry is overwritten (v broadcast over the rows), the shape stays
                al = self.tr.allocs.get(root)
                sname = self._new_version(nm, v)
                if al is not None:
                    self.tr.allocs[sname] = al
                return
            self.tr.seq += 1
            self.seq = self.tr.seq
            self.cell_seq.append(self.tr.seq)
            self.tr.cells.append((root, ix, v, st))
            self.tr.cellx.append(dict(guard=tuple(self.path), loops=self._loops(), seq=self.tr.seq, aug=aug))
            self.stores.append((root, ast.unparse(target.slice), v, st))
            if not aug and not is_unknown(v) and not isinstance(v, tuple) and v is not None and not is_unknown(ix) and depends(v, root) and self._view(self.mk_idx(F.sym(root), ix)):
                # (pass 5) `levels = B[j] * amax; B[j] = levels`: from here on the local holds what B[j] holds (the row was computed from the row's
                # previous content, which no value can name any more) - reads through the local are reads of the stored row, as in `B[j] *= amax`
                for k, x in list(self.env.items()):
                    if not k.startswith("<") and k not in self.buffers and not isinstance(x, tuple) and x is not None and not is_unknown(x) and same(x, v):
                        self.env[k] = self.mk_idx(F.sym(root), ix)
            return
        if isinstance(target, ast.Name):
            if target.id not in self.pinned:
                self.env[target.id] = v
            return
        if isinstance(target, ast.Subscript) and isinstance(target.value, ast.Name) and target.value.id not in self.buffers and target.value.id in self.env \
                and not isinstance(self.env[target.value.id], tuple) and app(self.env[target.value.id], "dict") is not None:
            # (pass 5) `table[key] = value` on a local dict: the table with that entry (a literal key; anything else leaves the table undetermined)
            nm = target.value.id
            du = app(self.env[nm], "dict")
            try:
                key = self._index_value(target.slice)
            except Unsupported:
                key = None
            lit = key is not None and (const_of(key) is not None or (str_parts(key) is not None and len(str_parts(key)) == 1 and isinstance(str_parts(key)[0], str)))
            if not lit or any(isinstance(x, str) for x in du[1]) or is_unknown(v) or v is None or self.loopstack:
                self.env[nm] = Unknown(f"dict `{nm}` stored into with a key or value that is not determined")
                return
            if aug:
                self.env[nm] = Unknown(f"in-place update of an entry of dict `{nm}`")
                return
            parts, hit = [], False
            for k_, x_ in zip(du[1][0::2], du[1][1::2]):
                if same(k_, key):
                    parts += [k_, wrap(v)]
                    hit = True
                else:
                    parts += [k_, x_]
            if not hit:
                parts += [key, wrap(v)]
            try:
                self.env[nm] = F.fn("dict", *parts)
            except Unsupported as e:
                self.env[nm] = Unknown(str(e))
            return
        return super()._assign(target, v, st, aug)

    # ------------------------------------------------------------------ statements
    def run(self, stmts):
        n = len(self.path)
        for st in stmts:
            if self.done or self.jump:
                break
            self.stmt(st)
        del self.path[n:]

    def _run_keep(self, stmts):
        """a block that is not a scope of its own for guards (the arm of a decided `if`, a `with` / `try` body): an early exit inside it
        (`if bad: continue`) leaves its negated test in force for the rest of the *enclosing* block"""
        for st in stmts:
            if self.done or self.jump:
                break
            self.stmt(st)

    def _run_arm(self, stmts, entry):
        """run one arm under an extra guard entry; returns (env after, terminated)"""
        n = len(self.path)
        self.path.append(entry)
        for st in stmts:
            if self.done or self.jump:
                break
            self.stmt(st)
        kept = self.path[n + 1:]
        del self.path[n:]
        term = bool(self.done or self.jump)
        return self.env, term, kept

    def stmt(self, st):
        if self.done or self.jump:
            return
        if isinstance(st, ast.If):
            return self._if(st)
        if isinstance(st, ast.For):
            return self._for(st)
        if isinstance(st, ast.While):
            return self._while(st)
        if isinstance(st, ast.Return):
            v = self.ev(st.value) if st.value is not None else None
            self.returns.append((v, st, tuple(self.path)))
            self.done = True
            return
        if isinstance(st, ast.Raise):
            self.tr.raises.append((st, tuple(self.path)))
            self.done = True
            return
        if isinstance(st, ast.Continue):
            self.jump = "continue"
            return
        if isinstance(st, ast.Break):
            self.jump = "break"
            return
        if isinstance(st, ast.With):
            for it in st.items:
                v = self.ev(it.context_expr)
                if it.optional_vars is not None:
                    self._bind_target(it.optional_vars, v)
            return self._run_keep(st.body)
        if isinstance(st, ast.Try):
            self._run_keep(st.body)
            if not (self.done or self.jump):
                self._run_keep(st.orelse)
                self._run_keep(st.finalbody)
            return
        if isinstance(st, ast.FunctionDef):
            # a helper defined inside the function (a closure): followed like a module-level helper, reading the enclosing names
            self.inline = dict(self.inline or {})
            self.inline[st.name] = st
            self.closures.add(id(st))
            self.env[st.name] = F.sym(f"<func:{st.name}>")          # the name is bound (it may be passed around: keep = inside if flag else always)
            return
        if isinstance(st, (ast.AsyncFunctionDef, ast.ClassDef)):
            self.env[st.name] = F.sym(f"<def:{st.name}>")
            return
        if isinstance(st, ast.Import):
            for a in st.names:
                self.imported.add((a.asname or a.name).split(".")[0])
                if a.asname and a.asname != a.name:
                    self.env[a.asname] = F.sym(a.name)
            return
        if isinstance(st, ast.ImportFrom):
            for a in st.names:
                self.imported.add(a.asname or a.name)
                self.env[a.asname or a.name] = F.sym(f"{st.module}.{a.name}" if st.module else a.name)
            return
        if isinstance(st, ast.Match):
            return self._match(st)
        if isinstance(st, (ast.Pass, ast.Assert, ast.Global, ast.Nonlocal, ast.Delete)):
            return
        if not isinstance(st, (ast.Assign, ast.AugAssign, ast.AnnAssign, ast.Expr)):
            # a statement this evaluator does not execute (async for / with, type aliases, ...): what it binds is not known afterwards
            for n in ast.walk(st):
                if isinstance(n, ast.Name) and isinstance(n.ctx, ast.Store):
                    self.env[n.id] = Unknown(f"bound inside a {type(st).__name__} statement")
            self.tr.lost.append((f"a {type(st).__name__} statement is not executed", st))
            return
        if isinstance(st, ast.AugAssign) and isinstance(st.target, ast.Name) and self._inplace(st):
            return
        if isinstance(st, ast.Assign) and isinstance(st.value, (ast.List, ast.Tuple)) and len(st.value.elts) >= 2 and any(self._is_alloc(e) for e in st.value.elts) \
                and not any(isinstance(e, ast.Starred) for e in st.value.elts):
            # a, b = np.zeros(n), np.zeros(n)  /  arrays = [np.zeros(n), np.zeros(n)]: one array per allocation, whatever name reaches it later
            v = tuple(self._fresh_array(e) if self._is_alloc(e) else self.ev(e) for e in st.value.elts)
            for t in st.targets:
                self._assign(t, v, st)
            return
        if isinstance(st, ast.Assign) and len(st.targets) > 1 and self._is_alloc(st.value) and all(isinstance(t, ast.Name) for t in st.targets):
            # a = b = np.zeros(n): two names, one array
            self._assign(st.targets[0], self.ev(st.value), st)
            first = self.env.get(st.targets[0].id)
            for t in st.targets[1:]:
                self.env[t.id] = first
            return
        if isinstance(st, ast.Assign) and len(st.targets) == 1 and isinstance(st.targets[0], ast.Name) and st.targets[0].id not in self.buffers \
                and ((isinstance(st.value, ast.List) and not st.value.elts)
                     or (isinstance(st.value, ast.Call) and dotted(st.value.func) == "list" and not st.value.args and not st.value.keywords)):
            self.lists[st.targets[0].id] = (len(self.loopstack), len(self.path))
            self.env[st.targets[0].id] = ()
            return
        if isinstance(st, ast.Expr) and isinstance(st.value, ast.Call) and isinstance(st.value.func, ast.Attribute) and st.value.func.attr == "update" \
                and isinstance(st.value.func.value, ast.Name) and st.value.func.value.id in self.env and st.value.func.value.id not in self.buffers \
                and not isinstance(self.env[st.value.func.value.id], tuple) and app(self.env[st.value.func.value.id], "dict") is not None:
            # (pass 5) table.update(name=value, ...) / table.update({...}) on a local dict: one store per entry
            nm = st.value.func.value.id
            items = [(ast.Constant(value=k.arg), k.value) for k in st.value.keywords if k.arg is not None]
            okay = all(k.arg is not None for k in st.value.keywords) and len(st.value.args) <= 1
            if okay and st.value.args:
                a0 = st.value.args[0]
                if isinstance(a0, ast.Dict) and all(k is not None for k in a0.keys):
                    items = list(zip(a0.keys, a0.values)) + items
                else:
                    okay = False
            if not okay:
                self.env[nm] = Unknown(f"dict `{nm}` updated from something that is not a literal")
                return
            for k_, v_ in items:
                tgt = ast.Subscript(value=ast.Name(id=nm, ctx=ast.Load()), slice=k_, ctx=ast.Store())
                ast.copy_location(tgt, st)
                ast.fix_missing_locations(tgt)
                self._assign(tgt, self.ev(v_), st)
            return
        if isinstance(st, ast.Expr) and isinstance(st.value, ast.Call) and isinstance(st.value.func, ast.Attribute) and st.value.func.attr == "append" \
                and isinstance(st.value.func.value, ast.Name) and st.value.func.value.id in self.lists and len(st.value.args) == 1 and not st.value.keywords:
            return self._append(st.value.func.value.id, st.value.args[0])
        return super().stmt(st)

    def _match(self, st):
        """match subject: case <literal> | <literal>: ... case _: ...   is the chain  if subject == literal or ...: ... else: ..."""
        subj = self._tmpname(self.ev(st.subject))

        def test(p):
            if isinstance(p, ast.MatchValue):
                return ast.Compare(left=subj, ops=[ast.Eq()], comparators=[p.value])
            if isinstance(p, ast.MatchSingleton):
                return ast.Compare(left=subj, ops=[ast.Is()], comparators=[ast.Constant(value=p.value)])
            if isinstance(p, ast.MatchOr):
                ts = [test(q) for q in p.patterns]
                return None if any(t is None for t in ts) else ast.BoolOp(op=ast.Or(), values=ts)
            return None

        chain = None
        tail = None
        for case in st.cases:
            p = case.pattern
            wild = isinstance(p, ast.MatchAs) and p.pattern is None
            t = None if wild else test(p)
            if (t is None and not wild) or (wild and case.guard is not None and p.name is not None):
                for n in ast.walk(st):
                    if isinstance(n, ast.Name) and isinstance(n.ctx, ast.Store):
                        self.env[n.id] = Unknown("bound inside a match statement with structural patterns")
                self.tr.lost.append(("a match statement with structural patterns is not executed", st))
                return
            body = list(case.body)
            if wild and p.name is not None:
                body = [ast.Assign(targets=[ast.Name(id=p.name, ctx=ast.Store())], value=subj)] + body
            if case.guard is not None:
                t = case.guard if t is None else ast.BoolOp(op=ast.And(), values=[t, case.guard])
            if t is None:
                node = body          # irrefutable: the else arm
                if tail is None:
                    chain = body
                else:
                    tail.orelse = body
                tail = False
                break
            node = ast.If(test=t, body=body, orelse=[])
            if tail is None:
                chain = [node]
            else:
                tail.orelse = [node]
            tail = node
        for top in (chain or []):
            for n in ast.walk(top):
                if not hasattr(n, "lineno") and isinstance(n, (ast.stmt, ast.expr)):
                    ast.copy_location(n, st)
        self._run_keep(chain or [])

    def _lambda(self, lam, name):
        """a lambda is a helper without a name: registered in the inline table under a private name (its value is the symbol of that name)"""
        key = getattr(lam, "_c10_name", None)
        if key is None:
            self.tr.nver["<lambda>"] = self.tr.nver.get("<lambda>", 0) + 1
            key = lam._c10_name = f"<lambda:{self.tr.nver['<lambda>']}>"
            fn = ast.FunctionDef(name=name or "lambda", args=lam.args, body=[ast.Return(value=lam.body)], decorator_list=[], returns=None, type_params=[])
            ast.copy_location(fn, lam)
            ast.copy_location(fn.body[0], lam)
            fn._vmod = getattr(self.fn, "_vmod", None)
            fn._vparent = getattr(lam, "_vparent", None)
            lam._c10_fn = fn
        self.inline = dict(self.inline or {})
        self.inline[key] = lam._c10_fn
        self.closures.add(id(lam._c10_fn))
        return key

    def _append(self, name, arg):
        """`xs = []` ... `xs.append(v)`: outside a loop the list grows by one element; inside one loop (possibly under tests) it is the
        comprehension [v for <loop> if <tests>]"""
        depth0, plen0 = self.lists[name]
        cur = self.env.get(name)
        v = self.ev(arg)
        here = len(self.loopstack)
        if here == depth0 and isinstance(cur, tuple) and len(self.path) <= plen0:
            self.env[name] = cur + (v,)
            return
        ok = here == depth0 + 1 and isinstance(cur, tuple) and not cur and not is_unknown(v) and not is_unknown(self.loopstack[-1][1])
        if ok:
            try:
                conds = [need(c if pol else mk_not(c)) for c, pol in self.path[plen0:]]
                self.env[name] = self._mk_comp(self.loopstack[-1][0], wrap(v), need(self.loopstack[-1][1]), *conds)
                return
            except Unsupported:
                pass
        self.env[name] = Unknown(f"list {name} built in a way that is not one append per iteration")

    COPY_CALLS = {"np.copy", "np.array", "numpy.array", "numpy.copy", "copy.copy", "copy.deepcopy", "np.ascontiguousarray"}

    def _copies(self, val):
        """does the expression node make a new array out of an existing one (so that stores into the result leave the source alone)"""
        if not isinstance(val, ast.Call):
            return False
        if isinstance(val.func, ast.Attribute) and val.func.attr in ("copy", "astype", "flatten") and dotted(val.func) not in ("np.copy", "copy.copy"):
            return True
        return dotted(val.func) in self.COPY_CALLS and len(val.args) >= 1

    def _rank(self, s, depth=3):
        """number of axes of a buffer symbol when its allocation (or that of the array it was made from) shows it"""
        al = self.tr.allocs.get(s)
        if al is not None and al[0] in ("np.zeros", "np.empty", "np.ones", "np.full"):
            shp = al[1][0] if al[1] else al[2].get("shape")
            if isinstance(shp, tuple):
                return len(shp)
            t = app(shp, "tuple") if shp is not None and not is_unknown(shp) else None
            if t is not None:
                return len(t[1])
            return None if shp is None or is_unknown(shp) else 1
        ini = self.tr.inits.get(s)
        if depth and ini is not None and not is_unknown(ini) and not isinstance(ini, tuple):
            rs = [self._rank(sym_of(x), depth - 1) for x in walk(ini) if sym_of(x) in self.tr.inits and sym_of(x) != s]
            rs = [r for r in rs if r is not None]
            return max(rs) if rs else None
        return None

    def _subscripted(self, name):
        return self.fn is not None and any(isinstance(n, ast.Subscript) and isinstance(n.value, ast.Name) and n.value.id == name for n in ast.walk(self.fn))

    def _view(self, v):
        """(root symbol, [indices]) when v is a view of an array obtained by basic indexing (integers, loop indices, slices - no masks, no
        index arrays computed by calls), else None"""
        if v is None or is_unknown(v) or isinstance(v, (tuple, str)):
            return None
        b, ix = peel(v)
        s = sym_of(b)
        if s is None or not ix or s.startswith("_i") or s in ("None", "True", "False"):
            return None
        for x in ix:
            if isinstance(x, str):
                return None
            if app(x, "slice") is not None:
                if any(apps(p, "call:") or apps(p, "cmp:") for p in app(x, "slice")[1]):
                    return None
                continue
            if apps(x, "call:") or apps(x, "cmp:") or apps(x, "mask:") or apps(x, "invert") or apps(x, "not") or apps(x, "bool:") or apps(x, "comp"):
                return None
        return s, ix

    def _inplace(self, st):
        """`row *= a` where `row` is a view of an array (`row = X[j]`, or a parameter handed X[j]): an in-place update of X[j], recorded as a
        store into X like `X[j] *= a`; a whole array handed to a helper and updated there is a new version of that array for the caller.
        A name holding a scalar element is simply re-bound (False: the ordinary assignment applies)."""
        name = st.target.id
        cur = self.env.get(name)
        if cur is None or is_unknown(cur) or isinstance(cur, tuple):
            return False
        s, ix = sym_of(cur), []
        if s is not None:
            # a whole array: only inside a helper, for an array of the caller (the analysed function's own arrays are versioned by _assign)
            if self.inline_depth == 0 or s not in self.tr.inits:
                return False
        else:
            vw = self._view(cur)
            if vw is None:
                if self.inline_depth > 0 and self.fn is not None and name in {x.arg for x in self.fn.args.posonlyargs + self.fn.args.args} \
                        and app(cur, "idx") is not None and not self._is_scalar(single_atom(cur)):
                    # `row *= a` on a parameter bound to X[j] with X not an array this evaluation tracks: if it is a row, the caller's X changes
                    self.tr.lost.append((f"in-place update of the parameter `{name}`, which holds {cur!r}"[:200], st))
                return False
            s, ix = vw
            nsc = sum(1 for x in ix if app(x, "slice") is None)
            rank = self._rank(s)
            sliced = any(not isinstance(x, str) and app(x, "slice") is not None for x in ix)
            if rank is not None:
                if not (sliced or nsc < rank):
                    return False
            elif not (sliced or self._subscripted(name)):
                return False
        v = self.ev(st.value)
        if is_unknown(v) or isinstance(v, tuple):
            nv = v if is_unknown(v) else Unknown("in-place update with a tuple")
        else:
            try:
                r = self.binop_hook(ast.BinOp(left=st.target, op=st.op, right=st.value), cur, v, self) if self.binop_hook is not None else NotImplemented
                nv = r if r is not NotImplemented else _binop(st.op, need(cur), need(v))
            except Unsupported as e:
                nv = Unknown(str(e))
        if not ix:
            k = self.tr.nver.get(("<inplace>", s), 0) + 1
            self.tr.nver[("<inplace>", s)] = k
            new = f"{s}~{k}"
            self.tr.inits[new] = nv
            self.tr.rebinds.append((s, new))
            for key, val in list(self.env.items()):
                if not key.startswith("<") and sym_of(val) == s:
                    self.env[key] = F.sym(new)
            return True
        self.tr.seq += 1
        self.seq = self.tr.seq
        self.cell_seq.append(self.tr.seq)
        ixv = ix[0] if len(ix) == 1 else F.fn("tuple", *ix)
        self.tr.cells.append((s, ixv, nv, st))
        self.tr.cellx.append(dict(guard=tuple(self.path), loops=self._loops(), seq=self.tr.seq, aug=True))
        self.stores.append((s, repr(ixv), nv, st))
        return True

    def _if(self, st):
        tv = self.ev(st.test)
        c = self.truth(tv)
        self.tr.tests.append((tv, st.test, tuple(self.path), "if", self.tr.seq))
        if c is True:
            return self._run_keep(st.body)
        if c is False:
            return self._run_keep(st.orelse)
        if is_unknown(tv) or isinstance(tv, tuple):
            # a test that cannot be lowered: both arms are still visited (their stores are recorded) but nothing is known after
            tv = F.fn("opaque-test", ast.unparse(st.test))
        env0 = dict(self.env)
        d0, j0 = self.done, self.jump
        nret = len(self.returns)
        env_a, term_a, kept_a = self._run_arm(st.body, (tv, True))
        done_a, jump_a = self.done, self.jump
        self.env, self.done, self.jump = dict(env0), d0, j0
        env_b, term_b, kept_b = self._run_arm(st.orelse, (tv, False))
        done_b, jump_b = self.done, self.jump
        if term_a and term_b:
            self.done = done_a and done_b
            self.jump = None if self.done else (jump_a or jump_b or "continue")
            if not self.done and (done_a or done_b) and not (jump_a or jump_b):
                self.done = True
            return
        self.done, self.jump = d0, j0
        if term_a:
            self.env = env_b
            self.path.append((tv, False))
            self.path.extend(kept_b)
            return
        if term_b:
            self.env = env_a
            self.path.append((tv, True))
            self.path.extend(kept_a)
            return
        # an arm that itself dropped into a "rest of the block" guard (nested early exit) makes the merge conditional on that guard too
        ca = tv if not kept_a else conj([(tv, True)] + kept_a)
        merged = {}
        for k in set(env_a) | set(env_b):
            a, b = env_a.get(k), env_b.get(k)
            if a is None or b is None:
                x = a if a is not None else b
                merged[k] = x if k.startswith("<") else mk_ite(ca if a is not None else mk_not(ca), x, F.sym(f"<unbound:{k}>")) if not is_unknown(x) else x
            elif kept_a and kept_b:
                merged[k] = a if same(a, b) else Unknown("merge after nested early exits")
            elif kept_b:
                merged[k] = mk_ite(mk_not(conj([(tv, False)] + kept_b)), a, b)
            else:
                merged[k] = mk_ite(ca, a, b)
        self.env = merged
        if kept_a or kept_b:
            try:
                alive = F.fn("bool:Or", need(conj([(tv, True)] + kept_a)), need(conj([(tv, False)] + kept_b)))
            except Unsupported:
                alive = F.fn("opaque-test", ast.unparse(st.test))
            self.path.append((alive, True))

    def _carried(self, body_nodes):
        """names bound inside a loop body that already have a value: loop-carried, fresh symbols for the generic iteration"""
        names = set()
        for n in body_nodes:
            for x in ast.walk(n):
                if isinstance(x, ast.Name) and isinstance(x.ctx, ast.Store):
                    names.add(x.id)
        for nm in sorted(names):
            if nm in self.env and nm not in self.buffers and nm not in self.pinned:
                self.env[nm] = F.sym(f"<{nm}>")

    def _for(self, st):
        lit = self._literal_iter(st.iter)
        if isinstance(lit, tuple) and len(lit) <= 12 and not st.orelse and not any(isinstance(n, ast.Break) for n in ast.walk(st)) \
                and not any(is_unknown(x) for x in lit):
            # `for di, b in zip(indicators, (4, 8, 12))`: one pass per element, the targets bound to the elements themselves
            for item in lit:
                self._bind_target(st.target, item)
                self.run(st.body)
                self.jump = None
                if self.done:
                    break
            return
        self._carried(st.body)
        name, dom, itv = self._iter_bind(st.target, st.iter)
        self.tr.loops.append((name, dom, itv, st))
        self.loop_depth += 1
        self.loopstack.append((name, dom))
        try:
            self.run(st.body)
        finally:
            self.loop_depth -= 1
            self.loopstack.pop()
        self.jump = None
        if not self.done:
            self.run(st.orelse)

    def _counted(self, st):
        """`i = a` ... `while i < n: <body>; i += 1` (the increment last, no other binding of i, no break / continue): the loop
        `for i in range(a, n)`; returns that For statement or None"""
        t = st.test
        if st.orelse or not (isinstance(t, ast.Compare) and len(t.ops) == 1 and isinstance(t.ops[0], ast.Lt) and isinstance(t.left, ast.Name)):
            return None
        ctr = t.left.id
        if not st.body or any(isinstance(n, (ast.Break, ast.Continue)) for n in ast.walk(st)):
            return None
        last = st.body[-1]
        if not (isinstance(last, ast.AugAssign) and isinstance(last.target, ast.Name) and last.target.id == ctr and isinstance(last.op, ast.Add)
                and isinstance(last.value, ast.Constant) and last.value.value == 1):
            return None
        for n in st.body[:-1]:
            for x in ast.walk(n):
                if isinstance(x, ast.Name) and x.id == ctr and isinstance(x.ctx, ast.Store):
                    return None
        if any(isinstance(x, ast.Name) and x.id == ctr for x in ast.walk(t.comparators[0])):
            return None
        cur = self.env.get(ctr)
        if cur is None or is_unknown(cur) or isinstance(cur, tuple):
            return None
        start = self._tmpname(cur)
        args = [t.comparators[0]] if const_of(cur) == 0 else [start, t.comparators[0]]
        rng = ast.Call(func=ast.Name(id="range", ctx=ast.Load()), args=args, keywords=[])
        loop = ast.For(target=ast.Name(id=ctr, ctx=ast.Store()), iter=rng, body=st.body[:-1] or [ast.Pass()], orelse=[], type_comment=None)
        for n in (rng, loop, loop.target, rng.func):
            ast.copy_location(n, st)
        return loop

    def _while(self, st):
        loop = self._counted(st)
        if loop is not None:
            return self._for(loop)
        self._carried(st.body)
        tv = self.ev(st.test)
        self.tr.tests.append((tv, st.test, tuple(self.path), "while", self.tr.seq))
        name = f"_w{self.loop_depth}"
        self.loopstack.append((name, Unknown("while")))
        try:
            self.run(st.body)
        finally:
            self.loopstack.pop()
        self.jump = None


def combine_returns(rets, prefix=0):
    """one value for a list of guarded returns (paths are exclusive; the last one is the fall-through)"""
    if not rets:
        return None
    if len(rets) == 1:
        return rets[0][0]
    vals = [r[0] for r in rets]
    if any(v is None or is_unknown(v) for v in vals):
        return next((v for v in vals if is_unknown(v)), Unknown("return without a value on one path"))
    out = vals[-1]
    for v, _, g in reversed(rets[:-1]):
        out = mk_ite(conj(list(g[prefix:])), v, out)
    return out


# ----------------------------------------------------------------------------------------------------------------- XSem
class XSem:
    """sem.Sem with the extended evaluator; `facts` decides regimes, everything else is explored"""

    def __init__(self, ctx, fn, facts=None, inline=None, consts=None, env=None, run=True, call=None, binop=None, body=None, dtypes=False):
        from .sem import and_binop
        self.ctx = ctx
        self.fn = fn
        full = dict(consts or {})
        full.update(env or {})
        self.ev = XEval(fn, facts=facts, env=full, src=ctx.src, call=call, binop=binop or and_binop)
        self.ev.consts = dict(consts or {})
        if inline:
            self.ev.inline = {k: v for k, v in inline.items() if v is not fn}
        self.consts = dict(consts or {})
        self.ev.tr.dtypes = bool(dtypes)
        if hasattr(ctx, "traces"):
            ctx.traces.append(self.ev.tr)          # c10.Careful: a failed comparison is a verdict only if no effect was lost on the way
        if run:
            self.ev.run(fn.body if body is None else body)
        self.tr = self.ev.tr

    # -- expected side: a Python expression over parameters / canonical symbols, evaluated by a pristine evaluator
    ALIASES = {"np", "math", "locate", "signal", "pd", "cyclecount", "srs", "dsp", "mp", "it", "rain", "numba"}

    def E(self, text, **bind):
        tree = ast.parse(text, mode="eval").body
        env = dict(self.consts)
        for n in ast.walk(tree):
            if isinstance(n, ast.Name) and n.id not in self.ALIASES and n.id not in env:
                env[n.id] = F.sym(n.id)
        env.update(bind)
        e = XEval(None, env=env, src=self.ctx.src, binop=self.ev.binop_hook)
        return e.ev(tree)

    def same(self, got, want, **bind):
        w = self.E(want, **bind) if isinstance(want, str) else want
        return same(got, w)

    def env(self, name):
        return self.ev.env.get(name)

    def cells(self, root=None):
        """[(root, index, value, node, extra)]; a store of a freshly allocated array that was filled element by element (`X[j] = row` with
        `row = np.zeros(n); row[k] = ...`, typically returned by a helper) also appears as the stores X[j, k] = ... it amounts to"""
        out = []
        for c, x in zip(self.tr.cells, self.tr.cellx):
            for cc in [(c[0], c[1], c[2], c[3], x)] + self._through(c, x, 2):
                if root is None or cc[0] == root:
                    out.append(cc)
        return out

    def _through(self, c, x, depth):
        b = sym_of(c[2])
        if not depth or b is None or b == c[0] or b not in self.tr.allocs or is_unknown(c[1]):
            return []
        inner = [(d, y) for d, y in zip(self.tr.cells, self.tr.cellx) if d[0] == b]
        if not inner or any(y["seq"] > x["seq"] for _, y in inner):
            return []
        t = app(c[1], "tuple")
        pre = list(t[1]) if t is not None else [c[1]]
        if any(isinstance(p, str) or app(p, "slice") is not None or apps(p, "call:") or apps(p, "cmp:") or apps(p, "hcat") or apps(p, "mask:") or apps(p, "invert")
               or apps(p, "comp") for p in pre):
            return []          # only X[j] = row with integer / loop indices j: a mask or a slice does not compose with the row's own indices
        out = []
        for d, y in inner:
            if is_unknown(d[1]):
                return []
            t2 = app(d[1], "tuple")
            ix = norm_index(F.fn("tuple", *(pre + (list(t2[1]) if t2 is not None else [d[1]]))))
            guard = tuple(x["guard"]) + tuple(g for g in y["guard"] if not any(g[1] == h[1] and same(g[0], h[0]) for h in x["guard"]))
            extra = dict(guard=guard, loops=y["loops"], seq=x["seq"], aug=y["aug"])
            out.append((c[0], ix, d[2], d[3], extra))
            out += [(c[0],) + tuple(e[1:]) for e in self._through((c[0], ix, d[2], d[3]), extra, depth - 1)]
        return out

    def calls(self, *names):
        return [c + (x,) for c, x in zip(self.tr.calls, self.tr.callx) if c[0] in names]

    def ret(self):
        return combine_returns(self.ev.returns)

    def returns(self):
        return list(self.ev.returns)

    def ret_node(self):
        return self.ev.returns[-1][1] if self.ev.returns else self.fn

    def init(self, symname):
        return self.tr.inits.get(symname)

    def deref(self, v, depth=6):
        """replace buffer symbols that were never stored into by the value they were created from"""
        if v is None or is_unknown(v) or depth <= 0:
            return v
        if isinstance(v, tuple):
            return tuple(self.deref(x, depth) for x in v)
        stored = {c[0] for c in self.tr.cells}
        mp = {}
        for x in walk(v):
            s = sym_of(x)
            if s is not None and s in self.tr.inits and s not in stored:
                i = self.tr.inits[s]
                if i is not None and not is_unknown(i) and not isinstance(i, tuple):
                    mp[s] = i
        if not mp:
            return v
        try:
            return self.deref(v.subs(mp), depth - 1)
        except Unsupported:
            return v

    def load(self, v):
        """idx(B, i) of an array B: the value last stored at exactly that index (store-to-load forwarding), else v itself"""
        b, ix = peel(v)
        s = sym_of(b)
        if s is None or not ix:
            return v
        for c in reversed(self.tr.cells):
            if c[0] == s and not is_unknown(c[1]):
                _, cix = peel(F.fn("idx", F.sym(s), c[1]))
                if len(cix) == len(ix) and all(same(p, q) for p, q in zip(cix, ix)):
                    return c[2]
        return v


# --------------------------------------------------------------------------------------------------------------- degrees
ANY = "any"          # the degree of 0: homogeneous of every degree


class Inhomogeneous(Exception):
    pass


class Degrees:
    """degree of homogeneity of values when the designated root symbols are multiplied by a positive factor.

    roots: {symbol name: degree}; every other symbol has degree 0 except array symbols, whose degree is derived from what was stored.
    None = unknown (an opaque function of a scaled quantity)."""

    LINEAR = {"transposed": 0, "abs": 0, "call:np.max": 0, "call:np.min": 0, "call:np.sum": 0, "call:np.mean": 0, "call:np.ptp": 0, "call:np.std": 0,
              "call:signal.detrend": 0, "call:dsp.windowends": 0, "call:pd.DataFrame": 0, "call:pd.Series": 0, "tile": 0, "call:DataFrame": 0, "call:Series": 0,
              "call:np.sort": 0, "call:np.cumsum": 0, "call:np.ravel": 0, "call:np.array": 0, "star": 0, "call:np.asarray": 0,
              "call:float": 0, "call:np.tile": 0, "call:np.maximum.accumulate": 0, "call:np.fmax": None, "call:np.fmin": None}
    INVARIANT = {"call:np.argmax", "call:np.argmin", "call:np.argsort", "call:np.sign", "call:np.nonzero", "len", "attr:size",
                 "attr:shape", "attr:ndim", "call:cyclecount.findap", "call:findap", "call:np.any", "call:np.all", "call:bool",
                 "not", "invert", "call:np.isfinite", "call:np.isnan", "call:np.searchsorted"}

    def __init__(self, S, roots, tables=()):
        self.S = S
        self.roots = dict(roots)
        self.tables = set(tables)          # names of calls returning a cycle table (columns amp / mean scale, count does not)
        self.memo = {}
        self.busy = set()
        self.cur = {}
        self.problems = []                 # [(what, value)] inhomogeneous sums met on the way
        self.at = None                     # evaluation clock (Trace.seq) the question refers to: stores made later do not count; None = at the end

    def asof(self, v, seq):
        """degree of v as read when the clock stood at `seq` (an array that is re-scaled later still held its earlier content)"""
        old, self.at = self.at, seq
        try:
            return self.of(v)
        finally:
            self.at = old

    # -- arrays
    def of_array(self, s):
        """degree of what an array holds: its creating value, then every store in order - a store whose value reads the array itself
        (`B[j] = B[j] * m`) is an update of the current content, any other store must agree with it.  None when the array holds
        quantities of different degree (its elements are then resolved index by index)"""
        if not self.busy and (s, self.at) in self.memo:
            return self.memo[(s, self.at)]
        if s in self.busy:
            return self.cur.get(s, ANY)
        self.busy.add(s)
        try:
            init = self.S.tr.inits.get(s)
            d = ANY if init is None else self.of(init)
            for c, cx in zip(self.S.tr.cells, self.S.tr.cellx):
                if c[0] != s or d is None:
                    continue
                if self.at is not None and cx["seq"] > self.at:
                    continue            # stored after the moment asked about
                self.cur[s] = d
                dv = self.of(c[2])
                if dv is None:
                    d = None
                    break
                upd = not isinstance(c[2], tuple) and not is_unknown(c[2]) and depends(c[2], s)
                if d is ANY or upd:
                    if dv is not ANY:
                        d = dv
                elif dv is not ANY and dv != d:
                    d = None
                    break
        finally:
            self.busy.discard(s)
            self.cur.pop(s, None)
        if not self.busy:
            self.memo[(s, self.at)] = d
        return d

    def _of_part(self, s, ix):
        """(pass 5) degree of the part of array `s` selected by the index list `ix` when the array as a whole holds quantities of different
        degree and no store was made at exactly this index (a row `T[2]` of a table filled by `T[2, j] = ...`): the common degree of the
        creating value and of every store that may touch the part (stores at another constant position of an axis do not); None when they
        disagree or a touching store updates the array from itself"""
        key = ("part", s, tuple(repr(x) for x in ix))
        if key in self.busy:
            return None
        self.busy.add(key)
        try:
            init = self.S.tr.inits.get(s)
            ds = [ANY if init is None else self.of(init)]
            for c, cx in zip(self.S.tr.cells, self.S.tr.cellx):
                if c[0] != s:
                    continue
                if self.at is not None and cx["seq"] > self.at:
                    continue
                if is_unknown(c[1]) or is_unknown(c[2]):
                    return None
                _, cix = peel(F.fn("idx", F.sym(s), c[1]))
                if any(const_of(p) is not None and const_of(q) is not None and const_of(p) != const_of(q) and const_of(p) >= 0 and const_of(q) >= 0
                       for p, q in zip(ix, cix)):
                    continue
                if not isinstance(c[2], tuple) and depends(c[2], s):
                    return None
                ds.append(self.of(c[2]))
            try:
                return self._common(ds)
            except Inhomogeneous:
                return None
        finally:
            self.busy.discard(key)

    def _common(self, ds):
        out = ANY
        for d in ds:
            if d is None:
                return None
            if d is ANY:
                continue
            if out is ANY:
                out = d
            elif out != d:
                raise Inhomogeneous()
        return out

    def of_poly(self, p):
        ds = []
        for m, c in p.t.items():
            tot = Fraction(0)
            for a, e in m:
                d = self.of_atom(a)
                if d is None:
                    return None
                if d is ANY:
                    tot = None
                    break
                tot += d * e
            if tot is None:
                continue
            ds.append(tot)
        if not p.t:
            return ANY
        return self._common(ds)

    def of(self, v):
        if v is None or is_unknown(v):
            return None
        if isinstance(v, str):
            return Fraction(0)
        if isinstance(v, tuple):
            try:
                return self._common([self.of(x) for x in v])
            except Inhomogeneous:
                return None
        k = (v.n.key(), v.d.key(), self.at)
        if not self.busy and k in self.memo:
            return self.memo[k]
        try:
            n, d = self.of_poly(v.n), self.of_poly(v.d)
            if n is None or d is None:
                r = None
            elif n is ANY:
                r = ANY
            else:
                r = n - (Fraction(0) if d is ANY else d)
        except Inhomogeneous:
            self.problems.append(("sum of quantities of different degree", v))
            r = None
        if not self.busy:
            self.memo[k] = r
        return r

    def of_atom(self, a):
        d = F.atom_desc(a)
        if d[0] == "s":
            nm = d[1]
            if nm in self.roots:
                return Fraction(self.roots[nm])
            if nm in self.S.tr.inits or any(c[0] == nm for c in self.S.tr.cells):
                return self.of_array(nm)
            return Fraction(0)
        if d[0] == "sqrt":
            x = self.of_poly(F._poly_from_key(d[1]))
            return x if x is None or x is ANY else x / 2
        if d[0] in ("exp", "sin", "cos"):
            x = self.of_poly(F._poly_from_key(d[1]))
            return Fraction(0) if x is not None and (x is ANY or x == 0) else None
        if d[0] != "fn":
            return None
        name = d[1]
        args = [None if isinstance(k, str) else _key_rat(k) for k in d[2]]
        strs = [k if isinstance(k, str) else None for k in d[2]]
        if name == "root":
            x = self.of(args[0])
            return x if x is None or x is ANY else x / int(strs[1])
        if name == "idx":
            base = args[0]
            # a column of a cycle table
            u = app(base)
            if u is not None and u[0] in self.tables:
                col = sym_of(args[1])
                x = self.of(u[1][0]) if u[1] and not isinstance(u[1][0], str) else None
                if col in ("'count'",):
                    return Fraction(0)
                if col in ("'amp'", "'mean'"):
                    return x
                return None
            # a pair returned by a resampling function: (signal, sample rate)
            if u is not None and u[0] in ("call:rollfunc",) and const_of(args[1]) in (0, 1):
                return self.of(u[1][0]) if const_of(args[1]) == 0 else Fraction(0)
            # an element of an array: what the array holds; when it holds quantities of different degree, what was stored at exactly this index
            b, ix = peel(F.Rat(F.Poly.atom(a)))
            s = sym_of(b)
            if s is not None and ix and (s in self.S.tr.inits or any(c[0] == s for c in self.S.tr.cells)):
                r = self.of_array(s)
                if r is not None:
                    return r
                for c, cx in reversed(list(zip(self.S.tr.cells, self.S.tr.cellx))):
                    if self.at is not None and cx["seq"] > self.at:
                        continue
                    if c[0] == s and not is_unknown(c[1]):
                        _, cix = peel(F.fn("idx", F.sym(s), c[1]))
                        if len(cix) == len(ix) and all(same(p, q) for p, q in zip(cix, ix)):
                            key = ("cell", id(c))
                            if key in self.busy:
                                return None
                            self.busy.add(key)
                            try:
                                return self.of(c[2])
                            finally:
                                self.busy.discard(key)
                return self._of_part(s, ix)
            return self.of(base)
        if name in ("tuple", "hcat", "fstr", "zip", "enumerate"):
            try:
                return self._common([self.of(x) for x in args if x is not None])
            except Inhomogeneous:
                return None
        if name == "comp":
            return self.of(args[0])
        if name == "ite":
            try:
                return self._common([self.of(args[1]), self.of(args[2])])
            except Inhomogeneous:
                return None
        if name.startswith(("cmp:", "bool:", "mask:")) or name in self.INVARIANT:
            return Fraction(0)
        if name.startswith("kw:"):
            return self.of(args[0])
        if name == "log":
            x = self.of(args[0])
            return Fraction(0) if x is not None and (x is ANY or x == 0) else None
        if name == "call:np.var":
            x = self.of(args[0])
            return x if x is None or x is ANY else 2 * x
        if name in ("call:signal.lfilter", "call:lfilter") and len(args) >= 3:
            cb, ca = self.of(args[0]), self.of(args[1])
            if cb is None or ca is None or (cb is not ANY and cb != 0) or (ca is not ANY and ca != 0):
                return None
            return self.of(args[2])
        if name == "call:np.interp" and len(args) >= 3:
            x, xp, fp = self.of(args[0]), self.of(args[1]), self.of(args[2])
            if x is None or xp is None or fp is None:
                return None
            if x is not ANY and xp is not ANY and x != xp:
                self.problems.append(("np.interp: the abscissa and the table abscissae have different degree", F.Rat(F.Poly.atom(a))))
                return None
            return fp
        if name == "call:np.einsum" and len(args) >= 2 and strs[0] is None and str_parts(args[0]) is not None and all(a is not None for a in args[1:]):
            ds = [self.of(x) for x in args[1:]]            # a sum of products with one factor from each operand
            if any(x is None for x in ds):
                return None
            return ANY if any(x is ANY for x in ds) else sum(ds, Fraction(0))
        if name in self.LINEAR and self.LINEAR[name] is not None:
            return self.of(args[self.LINEAR[name]]) if args and args[self.LINEAR[name]] is not None else None
        if name.startswith("call:") and name[5:].isidentifier():
            # a local callable built from a closure (functools.partial of a lambda, ...) may read scaled arrays that are not among its arguments
            cv = self.S.ev.env.get(name[5:])
            if cv is not None and not is_unknown(cv) and any((sym_of(x) or "").startswith("<lambda:") for x in walk(cv)):
                return None
        # anything else: invariant when none of its arguments scales
        ds = [self.of(x) for x in args if x is not None]
        if all(x is not None and (x is ANY or x == 0) for x in ds):
            return Fraction(0)
        return None


# --------------------------------------------------------------------------------------------------------------- stencils
class Stencil:
    """An element-wise value over one 1-D array `base` (differences of slices, sign, abs, comparisons, mask operators, sums and products)
    as a function of a window of consecutive elements: element j of the value reads base[j + o] for the offsets o in `offsets`.

    `st(window, bits)` evaluates element 0 on concrete integers.  bits=None: exact arithmetic.  bits=8: numpy's arithmetic for an array of
    that signed integer width - every sum, difference, product and abs whose operands all have the array's own dtype wraps around (two's
    complement), comparisons / sign / mask operators are exact, a value that went through a conversion to float (`asfloat`) is exact from
    there on.  Because +, -, * modulo 2^bits form a ring, the association the normal form lost does not matter for same-dtype polynomials;
    a polynomial that mixes converted and unconverted operands in a product is refused (Unsupported), like everything that is not
    element-wise (reductions, scalar indices, other arrays, non-integer constants, divisions).

    kinds: 'b' boolean mask, 'p' Python integer (takes the dtype of the other operand), 'i' the array's own dtype, 'f' float."""

    CMP = {"Eq": lambda a, b: a == b, "NotEq": lambda a, b: a != b, "Lt": lambda a, b: a < b, "LtE": lambda a, b: a <= b, "Gt": lambda a, b: a > b,
           "GtE": lambda a, b: a >= b}
    UFUNC_CMP = {"call:np.equal": "Eq", "call:np.not_equal": "NotEq", "call:np.less": "Lt", "call:np.less_equal": "LtE", "call:np.greater": "Gt",
                 "call:np.greater_equal": "GtE"}

    def __init__(self, v, base):
        self.base = base
        self.base_kind = "f" if apps(base, "asfloat") else "i"
        self.offsets = set()
        self.memo = {}
        self.kind, self.f, self.sig = self._el(v, 0)

    def __call__(self, window, bits=None):
        return self.f(window, bits)

    @staticmethod
    def wrap(x, bits):
        h = 1 << (bits - 1)
        return ((x + h) % (2 * h)) - h

    def _el(self, v, off):
        if v is None or is_unknown(v) or isinstance(v, (tuple, str)):
            raise Unsupported(f"not an element-wise value: {v!r}")
        key = (v.n.key(), v.d.key(), off)
        if key not in self.memo:
            self.memo[key] = self._el0(v, off)
        return self.memo[key]

    def _el0(self, v, off):
        if same(v, self.base):
            if off < 0:
                raise Unsupported("reads before the window")
            self.offsets.add(off)
            return self.base_kind, (lambda w, b, o=off: w[o]), ("x", off, self.base_kind)
        c = const_of(v)
        if c is not None:
            if c.denominator != 1:
                raise Unsupported(f"non-integer constant {c}")
            return "p", (lambda w, b, c=int(c): c), ("c", int(c))
        s = sym_of(v)
        if s in ("True", "False"):
            return "b", (lambda w, b, c=int(s == "True"): c), ("c", s)
        if s is not None:
            raise Unsupported(f"reads `{s}`, which is not the array of retained samples")
        if single_atom(v) is not None:
            return self._atom(v, off)
        if not v.d.is_const():
            # a true division: floating point; exact as long as neither side multiplies unconverted integers first
            parts = []
            for p in (v.n, v.d):
                for mono, coef in p.t.items():
                    if coef.denominator != 1 or sum(e for _, e in mono) > 1:
                        raise Unsupported("a division whose numerator or denominator is not linear")
                parts.append(self._el(F.Rat(p), off))
            (kn, fn_, gn), (kd, fd, gd) = parts
            if "b" in (kn, kd):
                raise Unsupported("division of boolean masks")

            def quot(w, b, fn_=fn_, fd=fd):
                n, d = fn_(w, b), fd(w, b)
                return Fraction(n, d) if d else (Fraction(10 ** 9) if n > 0 else Fraction(-10 ** 9) if n < 0 else Fraction(0))      # +-inf; 0/0 is not ordered
            return "f", quot, ("div", gn, gd)
        if v.d.const_value() != 1:
            raise Unsupported("a division by a constant")
        terms = []
        kinds = set()
        for mono, coef in v.n.t.items():
            if coef.denominator != 1:
                raise Unsupported(f"non-integer coefficient {coef}")
            fs = [self._el(F.Rat(F.Poly.atom(a)), off) + (e,) for a, e in mono]
            kinds |= {k for k, _, _, _ in fs}
            terms.append((int(coef), fs))
        if kinds <= {"b", "p"} and "b" in kinds:
            raise Unsupported("arithmetic on boolean masks")
        kind = "f" if "f" in kinds else ("i" if "i" in kinds else "p")
        if kind == "f" and any(sum(e for k, _, _, e in fs if k == "i") >= 2 for _, fs in terms):
            raise Unsupported("a product of unconverted integers inside a floating-point expression (the order of evaluation decides whether it wraps)")

        def poly(w, b, terms=terms, kind=kind):
            tot = 0
            for coef, fs in terms:
                t = coef
                for _, f, _, e in fs:
                    t *= f(w, b) ** e
                tot += t
            return Stencil.wrap(tot, b) if kind == "i" and b else tot
        sig = ("poly", tuple(sorted(((coef, tuple(sorted((g, e) for _, _, g, e in fs))) for coef, fs in terms), key=repr)))
        return kind, poly, sig

    def _args(self, a, off):
        if any(isinstance(x, str) for x in a):
            raise Unsupported("a text argument")
        return [self._el(x, off) for x in a]

    def _atom(self, v, off):
        nm, a = app(v)
        if nm == "idx":
            if len(a) != 2 or isinstance(a[0], str) or isinstance(a[1], str):
                raise Unsupported("index")
            sl = app(a[1], "slice")
            if sl is None:
                raise Unsupported(f"the index {a[1]!r} is not a slice (the value is not element-wise)")
            lo, hi, stp = sl[1]
            clo = 0 if sym_of(lo) == "None" else const_of(lo)
            chi = 0 if sym_of(hi) == "None" else const_of(hi)
            if sym_of(stp) != "None" or clo is None or chi is None or clo.denominator != 1 or clo < 0 or chi > 0:
                raise Unsupported(f"slice {a[1]!r}")
            return self._el(a[0], off + int(clo))
        if nm in ("abs", "call:np.abs", "call:np.absolute", "call:np.fabs", "call:abs") and len(a) == 1:
            (k, f, g), = self._args(a, off)
            if k == "b":
                raise Unsupported("abs of a boolean mask")
            return k, (lambda w, b, f=f, k=k: Stencil.wrap(abs(f(w, b)), b) if k == "i" and b else abs(f(w, b))), ("abs", g)
        if nm == "call:np.sign" and len(a) == 1:
            (k, f, g), = self._args(a, off)
            if k == "b":
                raise Unsupported("sign of a boolean mask")
            return k, (lambda w, b, f=f: (lambda x: (x > 0) - (x < 0))(f(w, b))), ("sign", g)
        if nm == "call:np.signbit" and len(a) == 1:
            (k, f, g), = self._args(a, off)
            return "b", (lambda w, b, f=f: int(f(w, b) < 0)), ("signbit", g)
        if nm == "asfloat" and len(a) == 1:
            (k, f, g), = self._args(a, off)
            return "f", f, ("asfloat", g)
        op = nm[4:] if nm.startswith("cmp:") else self.UFUNC_CMP.get(nm)
        if op in self.CMP and len(a) == 2:
            (_, f1, g1), (_, f2, g2) = self._args(a, off)
            return "b", (lambda w, b, f1=f1, f2=f2, c=self.CMP[op]: int(c(f1(w, b), f2(w, b)))), ("cmp", op, g1, g2)
        if nm in ("not", "invert", "call:np.logical_not", "call:np.invert", "call:np.bitwise_not") and len(a) == 1:
            (k, f, g), = self._args(a, off)
            if k != "b" and nm != "call:np.logical_not":
                raise Unsupported("bitwise complement of integers")
            return "b", (lambda w, b, f=f: int(not f(w, b))), ("not", g)
        junct = {"bool:And": all, "mask:BitAnd": all, "call:np.logical_and": all, "call:np.bitwise_and": all,
                 "bool:Or": any, "mask:BitOr": any, "call:np.logical_or": any, "call:np.bitwise_or": any,
                 "mask:BitXor": lambda xs: sum(1 for x in xs if x) % 2 == 1, "call:np.logical_xor": lambda xs: sum(1 for x in xs if x) % 2 == 1,
                 "call:np.bitwise_xor": lambda xs: sum(1 for x in xs if x) % 2 == 1}
        if nm in junct and len(a) >= 2:
            xs = self._args(a, off)
            if any(k != "b" for k, _, _ in xs) and not nm.startswith("call:np.logical_"):
                raise Unsupported(f"{nm} on integers")
            fs = [f for _, f, _ in xs]
            return "b", (lambda w, b, fs=fs, j=junct[nm]: int(bool(j([bool(f(w, b)) for f in fs])))), \
                (nm.split(":")[-1].replace("np.logical_", "").replace("np.bitwise_", "").replace("Bit", "").lower(), tuple(sorted((g for _, _, g in xs), key=repr)))
        if nm in ("ite", "call:np.where") and len(a) == 3:
            (_, fc, gc), (ka, fa, ga), (kb, fb, gb) = self._args(a, off)
            order = "bpif"
            k = ka if order.index(ka) >= order.index(kb) else kb
            if {ka, kb} == {"b", "p"}:
                k = "b"          # np.where(c, False, True) / the evaluator's 0 and 1 for the literals
            return k, (lambda w, b, fc=fc, fa=fa, fb=fb: fa(w, b) if fc(w, b) else fb(w, b)), ("ite", gc, ga, gb)
        raise Unsupported(f"`{nm}` is not an element-wise operation this evaluation knows")
