"""Value-level evaluation for the C14 rules (helper of verifier/c14.py; built on e2_eval.AutoEvaluator / sem.py).

`GeomEval` evaluates a function of pyyeti/nastran/n2p.py on symbols.  On top of AutoEvaluator it

  * works with small dense arrays as (nested) tuples: `np.array([[c, s], [-s, c]])`, `a @ b` / `np.dot(a, b)` / `a.dot(b)` for
    matrix-matrix, matrix-vector, vector-matrix and vector-vector operands, `.T` / `np.transpose`, numpy-style constant
    indexing (`m[2:]`, `m[0, 1]`, `m[:, 2]`), element-wise comparisons;
  * keeps a *row memory* for arrays that are filled through one-dimensional subscript stores: `x[i:i+3] = ...` followed by
    `x[i:i+2]` (or `x[i]`, or a store through the view `x[slice(i, i+6)][slice(0, 3)]`) reads what was stored, an element that
    was never stored is the symbol `x[<index value>]`;
  * follows loops: a `for` over a constant `range` / `np.arange` / tuple and a `while` with a decidable test are unrolled, any
    other `for` is evaluated for one generic element (a fresh symbol); `continue` / `break` / `raise` end the iteration / path;
    what happened inside each loop is delimited in `self.loops`;
  * reads module-level constants (`_DEG2RAD = math.pi / 180.0`) and local aliases of library functions
    (`atan2, cos, sin = math.atan2, math.cos, math.sin`);
  * knows hypot / atan2 / norm / abs / any / all / slice() and treats `.values`, `.to_numpy()`, `np.asarray` ... as the identity;
  * follows the private helpers of the module (inline table, see `helpers`).

`explore` runs a function once per *regime*: a test the rule's `truth` function (asked with the *value* of the test) does not
decide splits the regime in two.  No solver and no search.

`conc` evaluates an extracted formula exactly (Fractions; square roots to 1e-30, comparisons refuse to decide within 1e-15) at a
point of a rule's finite witness table.  It is used only to *refute*: a guard that is false at a point where the property needs
it to be true is reported together with the point."""
from __future__ import annotations

import ast
import math
from fractions import Fraction

from . import e2_formula as F
from .core import Unsupported
from .e1_srcmodel import dotted
from .e2_eval import AutoEvaluator, Unknown, is_unknown, need

MAX_PATHS = 96
NONE = F.sym("None")
TRUE = F.sym("True")
FALSE = F.sym("False")

IDENT_ATTRS = {"values", "real", "array"}
IDENT_METHODS = {"astype", "copy", "to_numpy", "squeeze", "view", "__array__"}
IDENT_FUNCS = {"np.asarray", "np.array", "np.atleast_1d", "np.asanyarray", "np.ascontiguousarray", "float", "np.float64",
               "np.squeeze"}
HYPOT = {"math.hypot", "np.hypot"}
ATAN2 = {"math.atan2", "np.arctan2", "np.atan2"}
NORM = {"linalg.norm", "np.linalg.norm", "la.norm", "scipy.linalg.norm", "norm"}
ABS = {"abs", "np.abs", "np.absolute", "math.fabs", "np.fabs"}
ANY = {"any", "np.any"}
ALL = {"all", "np.all"}
DOT = {"np.dot", "np.matmul"}


class NeedDecision(Exception):
    def __init__(self, key, node):
        super().__init__(str(key)[:80])
        self.key = key
        self.node = node


# ------------------------------------------------------------------------------------------------------------------ values
def vkey(v):
    if isinstance(v, tuple):
        return ("tuple",) + tuple(vkey(x) for x in v)
    if v is None or is_unknown(v):
        return None
    return ("rat", v.n.key(), v.d.key())


def same(a, b):
    if a is None or b is None or is_unknown(a) or is_unknown(b):
        return False
    if isinstance(a, tuple) or isinstance(b, tuple):
        return isinstance(a, tuple) and isinstance(b, tuple) and len(a) == len(b) and all(same(x, y) for x, y in zip(a, b))
    try:
        return need(a).equals(need(b))
    except Unsupported:
        return False


def is_rat(v):
    return isinstance(v, F.Rat)


def const_of(v):
    """Fraction value of a constant formula, else None"""
    if is_rat(v) and v.is_const():
        return v.const_value()
    return None


def int_of(v):
    c = const_of(v)
    if c is not None and c.denominator == 1:
        return int(c)
    return None


def wrap(v):
    """a value usable as an argument of an opaque application"""
    if isinstance(v, tuple):
        return F.fn("tuple", *[wrap(x) for x in v])
    return need(v)


def single_atom(v):
    """value that is exactly one atom (coefficient 1, power 1) -> its description, else None"""
    if not is_rat(v):
        return None
    try:
        if not v.d.is_const() or v.d.const_value() != 1 or len(v.n.t) != 1:
            return None
        (m, c), = v.n.t.items()
        if c != 1 or len(m) != 1 or m[0][1] != 1:
            return None
        return F.atom_desc(m[0][0])
    except Exception:  # noqa
        return None


def fn_parts(v):
    """value that is one opaque application -> (name, [argument values or strings]) else None"""
    d = single_atom(v)
    if d is None or d[0] != "fn":
        return None
    return d[1], [_arg(k) for k in d[2]]


def _arg(k):
    if isinstance(k, str):
        return k
    return F.Rat(F._poly_from_key(k[1]), F._poly_from_key(k[2]))


def untuple(v):
    """tuple(...) application -> python tuple of values (recursively), anything else unchanged"""
    p = fn_parts(v)
    if p is not None and p[0] == "tuple":
        return tuple(untuple(a) for a in p[1])
    return v


def atoms_of(v):
    """all atom descriptions occurring in a value, arguments of applications included (depth first)"""
    out = []
    seen = set()

    def poly(p):
        for a in p.atoms():
            if a in seen:
                continue
            seen.add(a)
            d = F.atom_desc(a)
            out.append((a, d))
            if d[0] in ("exp", "sin", "cos", "sqrt"):
                poly(F._poly_from_key(d[1]))
            elif d[0] == "fn":
                for k in d[2]:
                    if not isinstance(k, str):
                        poly(F._poly_from_key(k[1]))
                        poly(F._poly_from_key(k[2]))

    def walk(x):
        if isinstance(x, tuple):
            for y in x:
                walk(y)
        elif is_rat(x):
            poly(x.n)
            poly(x.d)
    walk(v)
    return out


def fn_atoms(v, name):
    """[argument list] of every application `name` inside the value"""
    return [[_arg(k) for k in d[2]] for _, d in atoms_of(v) if d[0] == "fn" and d[1] == name]


def mentions_sym(v, name):
    return any(d == ("s", name) for _, d in atoms_of(v))


def atom_rat(aid):
    return F.Rat(F.Poly.atom(aid))


def subs_atoms(v, mapping):
    """replace atoms (by atom id) with values, everywhere - inside arguments too"""
    if isinstance(v, tuple):
        return tuple(subs_atoms(x, mapping) for x in v)
    if not is_rat(v) or not mapping:
        return v
    return F._subs_poly(v.n, mapping) / F._subs_poly(v.d, mapping)


def atom_id(v):
    """atom id of a value that is exactly one atom"""
    if single_atom(v) is None:
        return None
    (m, _), = v.n.t.items()
    return m[0][0]


# ------------------------------------------------------------------------------------------------------- small dense arrays
def depth(v):
    d = 0
    while isinstance(v, tuple) and v:
        d += 1
        v = v[0]
    return d


def shape_of(v):
    if not isinstance(v, tuple):
        return ()
    if not v:
        return (0,)
    subs = [shape_of(x) for x in v]
    if any(x is None or x != subs[0] for x in subs):
        return None
    return (len(v),) + subs[0]


def is_matrix(v):
    return isinstance(v, tuple) and len(v) > 0 and all(isinstance(r, tuple) and len(r) == len(v[0]) for r in v) and \
        not any(isinstance(x, tuple) for r in v for x in r)


def is_vector(v):
    return isinstance(v, tuple) and not any(isinstance(x, tuple) for x in v)


def transpose(v):
    if is_matrix(v):
        return tuple(tuple(v[i][j] for i in range(len(v))) for j in range(len(v[0])))
    return v


def _dot(a, b):
    tot = F.const(0)
    for x, y in zip(a, b):
        if is_unknown(x):
            return x
        if is_unknown(y):
            return y
        tot = tot + need(x) * need(y)
    return tot


def matmul(a, b):
    """numpy `@` on nested tuples; a scalar symbol standing for a whole matrix multiplies element-wise (its entries are not known,
    the product of the symbol and each row entity is the canonical spelling of `M @ rows`)"""
    if is_unknown(a):
        return a
    if is_unknown(b):
        return b
    if is_matrix(a) and is_matrix(b):
        if len(a[0]) != len(b):
            return Unknown("matrix shapes")
        bt = transpose(b)
        return tuple(tuple(_dot(r, c) for c in bt) for r in a)
    if is_matrix(a) and is_vector(b):
        if len(a[0]) != len(b):
            return Unknown("matrix-vector shapes")
        return tuple(_dot(r, b) for r in a)
    if is_vector(a) and is_matrix(b):
        if len(a) != len(b):
            return Unknown("vector-matrix shapes")
        return tuple(_dot(a, c) for c in transpose(b))
    if is_vector(a) and is_vector(b):
        if len(a) != len(b):
            return Unknown("vector shapes")
        return _dot(a, b)
    if is_rat(a) and isinstance(b, tuple):
        return tuple(matmul(a, x) if isinstance(x, tuple) else (x if is_unknown(x) else a * need(x)) for x in b)
    if isinstance(a, tuple) and is_rat(b):
        return tuple(matmul(x, b) if isinstance(x, tuple) else (x if is_unknown(x) else need(x) * b) for x in a)
    if is_rat(a) and is_rat(b):
        if a.is_const() or b.is_const():
            return a * b
        return F.fn("matmul", a, b)       # two whole arrays: the order of the factors matters
    return Unknown("matmul operands")


def elementwise(f, a, b):
    if isinstance(a, tuple) and isinstance(b, tuple):
        if len(a) != len(b):
            if len(b) == 1:
                return tuple(elementwise(f, x, b[0]) for x in a)
            if len(a) == 1:
                return tuple(elementwise(f, a[0], y) for y in b)
            return Unknown("shape mismatch")
        return tuple(elementwise(f, x, y) for x, y in zip(a, b))
    if isinstance(a, tuple):
        return tuple(elementwise(f, x, b) for x in a)
    if isinstance(b, tuple):
        return tuple(elementwise(f, a, y) for y in b)
    if is_unknown(a):
        return a
    if is_unknown(b):
        return b
    try:
        return f(need(a), need(b))
    except Unsupported as e:
        return Unknown(str(e))


def compose_index(base, ix):
    """X[a:b, ...][c:d] -> X[a+c:a+d, ...] and X[a:b, ...][k] -> X[a+k, ...] for constant c, d, k inside the (constant) length of a:b"""
    p = fn_parts(base) if is_rat(base) else None
    if p is None or p[0] != "idx" or len(p[1]) != 2:
        return None
    ix0 = untuple(p[1][1])
    first = ix0[0] if isinstance(ix0, tuple) and ix0 else ix0
    s0 = as_slice(first) if is_rat(first) else None
    if s0 is None or s0[2] is not None or s0[1] is None:
        return None
    lo = F.const(0) if s0[0] is None else s0[0]
    n = int_of(s0[1] - lo)
    if n is None or n <= 0:
        return None
    s1 = as_slice(ix)
    if s1 is not None:
        c = 0 if s1[0] is None else int_of(s1[0])
        d = n if s1[1] is None else int_of(s1[1])
        if s1[2] is not None or c is None or d is None or not 0 <= c <= d <= n:
            return None
        new = slice_value(lo + c, lo + d, None)
    else:
        k = int_of(ix)
        if k is None or not 0 <= k < n:
            return None
        new = lo + k
    rest = ix0[1:] if isinstance(ix0, tuple) else ()
    newix = (new,) + tuple(rest) if rest else new
    return F.fn("idx", p[1][0], wrap_index(newix))


def slice_value(lo, hi, st):
    return F.fn("slice", NONE if lo is None else lo, NONE if hi is None else hi, NONE if st is None else st)


def as_slice(v):
    """slice(...) application -> (lo, hi, step) with None for absent parts, else None"""
    p = fn_parts(v)
    if p is None or p[0] != "slice" or len(p[1]) != 3:
        return None
    return tuple(None if same(x, NONE) else x for x in p[1])


def index_nested(base, ix):
    """numpy indexing of a nested tuple with constant indices; NotImplemented when an index is not a constant"""
    ixs = list(ix) if isinstance(ix, tuple) else [ix]

    def rec(v, ixs):
        if not ixs:
            return v
        if not isinstance(v, tuple):
            raise Unsupported("too many indices")
        i, rest = ixs[0], ixs[1:]
        s = as_slice(i) if is_rat(i) else None
        if s is not None:
            lo, hi, st = (None if x is None else int_of(x) for x in s)
            if any(x is not None and int_of(x) is None for x in s):
                raise Unsupported("symbolic slice of a dense array")
            return tuple(rec(x, rest) for x in v[slice(lo, hi, st)])
        if isinstance(i, tuple):
            ks = [int_of(x) for x in i]
            if any(k is None for k in ks):
                raise Unsupported("symbolic index list")
            return tuple(rec(v[k], rest) for k in ks)
        k = int_of(i)
        if k is None:
            raise Unsupported("symbolic index of a dense array")
        return rec(v[k], rest)
    try:
        return rec(base, ixs)
    except (Unsupported, IndexError):
        return NotImplemented


# ------------------------------------------------------------------------------------------------------------ the evaluator
class DictVal(tuple):
    """a dict literal with known keys: the tuple of its (key, value) pairs"""

    def lookup(self, k):
        for a, b in self:
            if same(a, k):
                return b
        return None


class Shared:
    """state shared by an evaluation and the helper evaluations it inlines"""

    def __init__(self):
        self.memory = {}       # (buffer symbol name, key of the element index) -> value
        self.rowlog = []       # (buffer symbol name, element index value, stored value, statement)
        self.cells = []
        self.calls = []
        self.loops = []
        self.asked = []        # (value of the test, node, decision)
        self.counter = 0
        self.visits = {}
        self.loopstack = []
        self.modconst = {}
        self.inits = []        # (buffer name, value it was (re)bound to, statement) in evaluation order
        self.envs = []         # environment of the evaluation and of every helper evaluation it inlined
        self.divs = []         # (numerator value, denominator value, node) of every evaluated division

    def fresh(self):
        self.counter += 1
        return self.counter

    def tag(self, node):
        """a name for what a node creates that does not depend on the regime: its position and how often it was reached (the name is
        an identity inside one evaluation, it is never compared with anything outside)"""
        k = (getattr(node, "lineno", 0), getattr(node, "col_offset", 0), id(node))
        n = self.visits.get(k, 0)
        self.visits[k] = n + 1
        return f"{k[0]}.{k[1]}" + (f".{n}" if n else "")


def helpers(ctx, rel, exclude=()):
    """inline table: the private module-level functions of `rel` (called by bare name).  Public functions are interfaces with a
    documented meaning of their own; a rule speaks about their call, not about their body."""
    m = ctx.src.mod(rel)
    return {q: f for q, f in m.funcs.items() if "." not in q and "#" not in q and q.startswith("_") and q not in exclude}


_FN_CACHE = {}


class GeomEval(AutoEvaluator):
    def __init__(self, fn, ctx, rel, truth=None, decisions=None, env=None, hook=None, sub_hook=None, inline=None, depth=0,
                 shared=None, alias=None):
        if fn is not None and id(fn) in _FN_CACHE and _FN_CACHE[id(fn)][0] is fn:
            super().__init__(None, src=ctx.src, env=env)      # the scan for buffer names was done before
            self.buffers = set(_FN_CACHE[id(fn)][2])
        else:
            super().__init__(fn, src=ctx.src, env=env)
        self.ctx, self.rel, self.fn = ctx, rel, fn
        self.mod = ctx.src.mod(rel)
        self.truth = truth
        self.decisions = decisions
        self.hook = hook
        self.sub_hook = sub_hook
        self.inline = inline or {}
        self.depth = depth
        self.sh = shared or Shared()
        self.cells = self.sh.cells
        self.calls = self.sh.calls
        self.sh.envs.append(self.env)
        self.alias = dict(alias or {})
        self.cond = self._oracle
        self.skip = None
        self.raised = False
        self.nested = set()
        self.gen = {}
        self.locals_ = set()
        if fn is not None:
            if id(fn) not in _FN_CACHE:
                loc = set()
                a = fn.args
                for x in a.posonlyargs + a.args + a.kwonlyargs:
                    loc.add(x.arg)
                for n in ast.walk(fn):
                    if isinstance(n, ast.Name) and isinstance(n.ctx, ast.Store):
                        loc.add(n.id)
                _FN_CACHE[id(fn)] = (fn, frozenset(loc), frozenset(self.buffers))
            self.locals_ = set(_FN_CACHE[id(fn)][1])

    # ---------------------------------------------------------------- decisions
    def _oracle(self, test, ev):
        v = self.ev(test)
        r = None
        if not is_unknown(v) and not isinstance(v, tuple):
            r = fold_bool(v)
            if r is None and self.truth is not None:
                r = self.truth(v, test, self)
        elif isinstance(v, tuple):
            r = len(v) > 0
        if r is not None:
            self.sh.asked.append((v, test, r))
            return r
        compound = isinstance(test, ast.BoolOp) or (isinstance(test, ast.UnaryOp) and isinstance(test.op, ast.Not)) or \
            (isinstance(test, ast.Compare) and len(test.ops) == 1 and isinstance(test.ops[0], (ast.NotEq, ast.IsNot)))
        if compound or self.decisions is None:
            return None
        k = vkey(v) if not is_unknown(v) and not isinstance(v, tuple) else ("text", ast.unparse(test))
        if k in self.decisions:
            r = self.decisions[k]
            self.sh.asked.append((v, test, r))
            return r
        raise NeedDecision(k, test)

    # ---------------------------------------------------------------- names / constants
    def _module_const(self, name):
        if name in self.sh.modconst:
            return self.sh.modconst[name]
        val = None
        defs = [st for st in self.mod.tree.body if isinstance(st, ast.Assign) and len(st.targets) == 1
                and isinstance(st.targets[0], ast.Name) and st.targets[0].id == name]
        if len(defs) == 1:
            self.sh.modconst[name] = None      # guards against a cycle
            sub = GeomEval(None, self.ctx, self.rel, shared=self.sh)
            v = sub.ev(defs[0].value)
            if not is_unknown(v):
                val = v
        self.sh.modconst[name] = val
        return val

    def _buf_value(self, name):
        """the array object a buffer name stands for: the caller's array (helper parameter), the allocation it was created by, or
        the symbol of its name"""
        if name in self.alias:
            return self.alias[name]
        iv = self.env.get(f"<init:{name}>")
        if iv is not None and ident(iv) is not None:
            return iv
        g = self.gen.get(name)
        return F.sym(f"{name}#{g}") if g else F.sym(name)      # every (re)binding of the name is an array of its own

    def _bufname(self, name):
        return ident(self._buf_value(name))

    def _elem(self, buf, e):
        v = self.sh.memory.get((buf, vkey(e)))
        if v is not None:
            return v
        return F.sym(f"{buf}[{e!r}]")

    def _ixval(self, sl):
        """python-level index: tuple for a[i, j], slice application for a[i:j], value otherwise"""
        if isinstance(sl, ast.Tuple):
            return tuple(self._ixval(e) for e in sl.elts)
        if isinstance(sl, ast.Slice):
            parts = []
            for p in (sl.lower, sl.upper, sl.step):
                if p is None:
                    parts.append(None)
                else:
                    v = self._ev(p)
                    if is_unknown(v) or isinstance(v, tuple):
                        raise Unsupported("slice bound")
                    parts.append(need(v))
            return slice_value(*parts)
        v = self._ev(sl)
        if is_unknown(v):
            raise Unsupported(v.why)
        return untuple(v) if is_rat(v) else v

    @staticmethod
    def _rows_of(ix):
        """one-dimensional index -> ('one', e) | ('many', [e...]) | None"""
        if isinstance(ix, tuple):
            return None
        s = as_slice(ix)
        if s is None:
            return ("one", ix)
        lo, hi, st = s
        if st is not None and int_of(st) != 1:
            return None
        lo = F.const(0) if lo is None else lo
        if hi is None:
            return None
        n = int_of(hi - lo)
        if n is None or n <= 0 or n > 12:
            return None
        return ("many", [lo + k for k in range(n)])

    def _resolve_rows(self, node):
        """Subscript chain on a buffer name -> (buffer symbol name, kind, [element index values]) or None"""
        if not isinstance(node, ast.Subscript):
            return None
        try:
            ix = self._ixval(node.slice)
        except Unsupported:
            return None
        if isinstance(node.value, ast.Name):
            nm = node.value.id
            if nm in self.buffers:
                buf = self._bufname(nm)
            elif nm in self.env and is_rat(self.env[nm]) and (ident(self.env[nm]) or "").startswith("zeros#"):
                buf = ident(self.env[nm])
            else:
                return None
            r = self._rows_of(ix)
            if r is None:
                return None
            return buf, r[0], ([r[1]] if r[0] == "one" else r[1])
        inner = self._resolve_rows(node.value)
        if inner is None or inner[1] != "many":
            return None
        sel = index_nested(tuple(inner[2]), ix)
        if sel is NotImplemented:
            return None
        if isinstance(sel, tuple):
            return inner[0], "many", list(sel)
        return inner[0], "one", [sel]

    # ---------------------------------------------------------------- expressions
    def _ev(self, node):
        if isinstance(node, ast.Name):
            if node.id in self.buffers:
                return self._buf_value(node.id)
            if node.id not in self.env and node.id not in self.locals_:
                mc = self._module_const(node.id)
                if mc is not None:
                    return mc
            return super()._ev(node)
        if isinstance(node, ast.NamedExpr):
            v = self.ev(node.value)
            self._assign(node.target, v, node)
            return v
        if isinstance(node, ast.Attribute):
            if node.attr == "T":
                b = self._ev(node.value)
                return self._transpose(b)
            if node.attr in IDENT_ATTRS:
                return self._ev(node.value)
            if node.attr in ("ndim", "shape", "size") and isinstance(node.value, ast.Name) and node.value.id in self.env \
                    and isinstance(self.env[node.value.id], tuple) and node.value.id not in self.buffers:
                sh = shape_of(self.env[node.value.id])
                if sh is not None:
                    if node.attr == "ndim":
                        return F.const(len(sh))
                    if node.attr == "size":
                        return F.const(math.prod(sh))
                    return tuple(F.const(k) for k in sh)
            return super()._ev(node)
        if isinstance(node, ast.UnaryOp) and isinstance(node.op, ast.USub):
            v = self._ev(node.operand)
            return neg(v)
        if isinstance(node, ast.UnaryOp) and isinstance(node.op, (ast.Not, ast.Invert)):
            v = self._ev(node.operand)
            if isinstance(v, tuple):
                return tuple(x if is_unknown(x) else F.fn("not", need(x)) for x in v) if is_vector(v) else Unknown("not of an array")
            if is_unknown(v):
                return v
            b = fold_bool(v)
            if b is not None:
                return FALSE if b else TRUE
            return F.fn("not", need(v))
        if isinstance(node, ast.Compare):
            vals = [self._ev(node.left)] + [self._ev(c) for c in node.comparators]
            if any(is_unknown(v) for v in vals):
                return next(v for v in vals if is_unknown(v))
            parts = [compare(type(op).__name__, a, b) for op, a, b in zip(node.ops, vals, vals[1:])]
            if len(parts) == 1:
                return parts[0]
            if any(is_unknown(p) or isinstance(p, tuple) for p in parts):
                return Unknown("chained comparison of arrays")
            return F.fn("bool:And", *parts)
        if isinstance(node, ast.BoolOp):
            vs = [self._ev(v) for v in node.values]
            if any(is_unknown(v) or isinstance(v, tuple) for v in vs):
                return next((v for v in vs if is_unknown(v)), Unknown("bool of arrays"))
            return F.fn("bool:" + type(node.op).__name__, *[need(v) for v in vs])
        if isinstance(node, ast.BinOp):
            if isinstance(node.op, ast.MatMult):
                return matmul(self._ev(node.left), self._ev(node.right))
            if isinstance(node.op, (ast.FloorDiv, ast.Mod)):
                a, b = self._ev(node.left), self._ev(node.right)
                if is_unknown(a) or is_unknown(b) or isinstance(a, tuple) or isinstance(b, tuple):
                    return a if is_unknown(a) else (b if is_unknown(b) else Unknown("integer operator on arrays"))
                ca, cb = const_of(a), const_of(b)
                if ca is not None and cb is not None and cb != 0:
                    return F.const(ca // cb if isinstance(node.op, ast.FloorDiv) else ca % cb)
                return F.fn("floordiv" if isinstance(node.op, ast.FloorDiv) else "mod", need(a), need(b))
            if isinstance(node.op, ast.Div):
                a, b = self._ev(node.left), self._ev(node.right)
                self.sh.divs.append((a, b, node))
                if is_unknown(a) or is_unknown(b):
                    return a if is_unknown(a) else b
                return elementwise(_div, a, b)
            return super()._ev(node)
        if isinstance(node, ast.Subscript):
            return self._subscript(node)
        if isinstance(node, ast.Dict) and node.keys and all(k is not None for k in node.keys):
            ks = [self._ev(k) for k in node.keys]
            vs = [self.ev(v) for v in node.values]
            if not any(is_unknown(k) for k in ks):
                return DictVal(zip(ks, vs))
        if isinstance(node, (ast.ListComp, ast.GeneratorExp, ast.SetComp, ast.DictComp, ast.Dict, ast.Set, ast.Lambda, ast.JoinedStr)):
            return F.fn("opaque", f"#{self.sh.fresh()}")
        return super()._ev(node)

    def _transpose(self, b):
        if is_unknown(b):
            return b
        if isinstance(b, tuple):
            return transpose(b)
        p = fn_parts(b)
        if p is not None and p[0] == "attr:T":
            return p[1][0]
        return F.fn("attr:T", need(b))

    def _subscript(self, node):
        rr = self._resolve_rows(node)
        if rr is not None:
            buf, kind, rows = rr
            vals = tuple(self._elem(buf, e) for e in rows)
            return vals[0] if kind == "one" else vals
        base = self._ev(node.value)
        if is_unknown(base):
            return base
        try:
            ix = self._ixval(node.slice)
        except Unsupported as e:
            return Unknown(str(e))
        if self.sub_hook is not None:
            r = self.sub_hook(base, ix, node, self)
            if r is not NotImplemented:
                return r
        if isinstance(base, DictVal):
            r = base.lookup(ix) if not isinstance(ix, tuple) or True else None
            return r if r is not None else Unknown("dict look-up")
        if isinstance(base, tuple):
            r = index_nested(base, ix)
            if r is NotImplemented:
                return Unknown(f"index of a dense array {ast.unparse(node.slice)}")
            return r
        if not isinstance(ix, tuple):
            r = compose_index(base, ix)
            if r is not None:
                return r
        if not isinstance(ix, tuple) and as_slice(ix) is not None:
            rows = self._rows_of(ix)
            if rows is not None and rows[0] == "many":
                return tuple(F.fn("idx", need(base), e) for e in rows[1])
        try:
            return F.fn("idx", need(base), wrap_index(ix))
        except Unsupported as e:
            return Unknown(str(e))

    # ---------------------------------------------------------------- calls
    def callee(self, func):
        name = dotted(func)
        if isinstance(func, ast.Name) and func.id in self.env and func.id not in self.buffers:
            d = single_atom(self.env[func.id]) if is_rat(self.env[func.id]) else None
            if d is not None and d[0] == "s":
                return d[1]
        if isinstance(func, ast.Name) and func.id not in self.env and func.id not in self.locals_ and func.id not in self.inline:
            mc = self._module_const(func.id)
            d = single_atom(mc) if is_rat(mc) else None
            if d is not None and d[0] == "s":
                return d[1]
        return name

    def _args(self, node):
        pos = [self.ev(a) for a in node.args if not isinstance(a, ast.Starred)]
        kws = {k.arg: self.ev(k.value) for k in node.keywords if k.arg is not None}
        return pos, kws

    def _opaque(self, v):
        if is_unknown(v):
            return F.fn("opaque", f"#{self.sh.fresh()}")
        return wrap(v) if not (isinstance(v, tuple) and any_unknown(v)) else F.fn("opaque", f"#{self.sh.fresh()}")

    def _call(self, node):
        name = self.callee(node.func)
        if self.hook is not None:
            r = self.hook(name, node, self)
            if r is not NotImplemented:
                return r
        if name in self.inline and self.inline[name] is not self.fn and self.depth < 4:
            r = self._inline(self.inline[name], node)
            if r is not NotImplemented:
                return r
        meth = node.func.attr if isinstance(node.func, ast.Attribute) else None
        nargs = len(node.args)
        # ---- library idioms with a value of their own
        if name in DOT and nargs == 2:
            return matmul(self.ev(node.args[0]), self.ev(node.args[1]))
        if name == "np.transpose" and nargs == 1:
            return self._transpose(self.ev(node.args[0]))
        if name in HYPOT and nargs == 2:
            a, b = self.ev(node.args[0]), self.ev(node.args[1])
            return elementwise(lambda x, y: F.sqrt(x * x + y * y), a, b)
        if name in ATAN2 and nargs == 2:
            self._record(name, node)
            a, b = self.ev(node.args[0]), self.ev(node.args[1])
            return elementwise(lambda x, y: F.fn("atan2", x, y), a, b)
        if name in NORM and nargs == 1 and not node.keywords:
            v = self.ev(node.args[0])
            if is_vector(v) and not any_unknown(v):
                tot = F.const(0)
                for x in v:
                    tot = tot + need(x) * need(x)
                return F.sqrt(tot)
        if name in ("math.radians", "np.radians", "np.deg2rad") and nargs == 1:
            return map_value(lambda x: x * F.sym("pi") / 180, self.ev(node.args[0]))
        if name in ("math.degrees", "np.degrees", "np.rad2deg") and nargs == 1:
            return map_value(lambda x: x * 180 / F.sym("pi"), self.ev(node.args[0]))
        if name in ABS and nargs == 1:
            v = self.ev(node.args[0])
            return map_value(lambda x: F.fn("abs", x), v)
        if (name in ANY or name in ALL) and nargs == 1:
            v = self.ev(node.args[0])
            if not is_unknown(v) and not (isinstance(v, tuple) and any_unknown(v)):
                return F.fn("any" if name in ANY else "all", wrap(v))
        if meth in ("any", "all") and nargs == 0 and name not in self.inline:
            v = self.ev(node.func.value)
            if not is_unknown(v) and not (isinstance(v, tuple) and any_unknown(v)):
                return F.fn(meth, wrap(v))
        if name == "slice" and 1 <= nargs <= 3:
            vs = [self.ev(a) for a in node.args]
            if not any(is_unknown(v) or isinstance(v, tuple) for v in vs):
                vs = [None if same(v, NONE) else v for v in vs]
                if len(vs) == 1:
                    vs = [None, vs[0], None]
                elif len(vs) == 2:
                    vs = vs + [None]
                return slice_value(*vs)
        if name in self.funcs and nargs == 1:
            v = self.ev(node.args[0])
            f = self.funcs[name]

            def safe(x, f=f, nm=name.split(".")[-1]):
                try:
                    return f(x)
                except Unsupported:
                    return F.fn(nm, x)       # outside the normal form (e.g. a quotient as argument): an opaque application, equal only to itself
            return map_value(safe, v)
        if name in ("np.zeros", "np.zeros_like", "np.empty", "np.empty_like"):
            self._record(name, node)
            return F.fn("zeros", f"#{self.sh.tag(node)}")
        if name in IDENT_FUNCS and nargs >= 1:
            return self.ev(node.args[0])
        if meth in IDENT_METHODS:
            return self.ev(node.func.value)
        if meth == "dot" and nargs == 1:
            return matmul(self.ev(node.func.value), self.ev(node.args[0]))
        if meth == "transpose" and nargs == 0:
            return self._transpose(self.ev(node.func.value))
        if meth in ("append", "extend") and nargs == 1 and isinstance(node.func.value, ast.Name) and node.func.value.id in self.env \
                and isinstance(self.env[node.func.value.id], tuple) and node.func.value.id not in self.buffers:
            v = self.ev(node.args[0])
            self._record(name, node)
            cur = self.env[node.func.value.id]
            self.env[node.func.value.id] = cur + ((v,) if meth == "append" else (tuple(v) if isinstance(v, tuple) else (v,)))
            return NONE
        if name in ("np.size", "np.ndim") and nargs == 1:
            v = self.ev(node.args[0])
            sh = shape_of(v) if isinstance(v, tuple) else None
            if sh is not None:
                return F.const(math.prod(sh) if name == "np.size" else len(sh))
        if meth in ("items", "keys", "values") and nargs == 0:
            d = self.ev(node.func.value)
            if isinstance(d, DictVal):
                return tuple(d) if meth == "items" else tuple(x[0 if meth == "keys" else 1] for x in d)
        if meth == "get" and nargs in (1, 2):
            d = self.ev(node.func.value)
            if isinstance(d, DictVal):
                k = self.ev(node.args[0])
                r = None if is_unknown(k) else d.lookup(k)
                if r is not None:
                    return r
                if not is_unknown(k) and all(const_of(a) is not None or single_atom(a) is not None for a, _ in d if is_rat(a)) \
                        and (const_of(k) is not None):
                    return self.ev(node.args[1]) if nargs == 2 else NONE
                return Unknown("dict look-up with a symbolic key")
        if name == "len" and nargs == 1:
            v = self.ev(node.args[0])
            if isinstance(v, tuple):
                return F.const(len(v))
        if name in ("tuple", "list") and nargs == 1:
            v = self.ev(node.args[0])
            if isinstance(v, tuple):
                return v
        # ---- anything else: an opaque application of the argument values
        self._record(name if name is not None else ("." + meth if meth else None), node)
        args = []
        cname = name
        if isinstance(node.func, ast.Attribute):
            root = node.func.value
            while isinstance(root, (ast.Attribute, ast.Subscript, ast.Call)):
                root = root.value if not isinstance(root, ast.Call) else root.func
            local = isinstance(root, ast.Name) and (root.id in self.env or root.id in self.buffers or root.id in self.locals_)
            if name is None or local:
                args.append(self._opaque(self.ev(node.func.value)))
                cname = "." + node.func.attr
        if cname is None:
            return F.fn("opaque", f"#{self.sh.fresh()}")
        for a in node.args:
            if isinstance(a, ast.Starred):
                args.append(F.fn("star", self._opaque(self.ev(a.value))))
            else:
                args.append(self._opaque(self.ev(a)))
        for k in node.keywords:
            args.append(F.fn("kw:" + str(k.arg), self._opaque(self.ev(k.value))))
        return F.fn("call:" + cname, *args)

    def _record(self, name, node):
        if name is None:
            return
        pos, kws = self._args(node)
        self.calls.append((name, pos, kws, node))

    def _inline(self, fn, node):
        a = fn.args
        params = [x.arg for x in a.posonlyargs + a.args]
        if a.vararg or a.kwarg or any(isinstance(x, ast.Starred) for x in node.args) or any(k.arg is None for k in node.keywords):
            return NotImplemented
        if len(node.args) > len(params):
            return NotImplemented
        env, alias = {}, {}
        if fn in self.nested:
            env = {k: v for k, v in self.env.items() if not k.startswith("<init:")}
            alias = dict(self.alias)
        kwonly = [x.arg for x in a.kwonlyargs]

        bound = set()

        def bind(p_, x):
            v = self.ev(x)
            env[p_] = v
            bound.add(p_)
            alias.pop(p_, None)
            if is_rat(v) and ident(v) is not None:
                alias[p_] = v          # an array handed to the helper: the helper's stores go to the caller's array
        for p_, x in zip(params, node.args):
            bind(p_, x)
        for k in node.keywords:
            if k.arg not in params and k.arg not in kwonly:
                return NotImplemented
            bind(k.arg, k.value)
        dflt = dict(zip(params[::-1], (a.defaults or [])[::-1]))
        for p_ in params:
            if p_ not in bound:
                if p_ not in dflt:
                    return NotImplemented
                env[p_] = self.ev(dflt[p_])
        for p_, d in zip(kwonly, a.kw_defaults):
            if p_ not in bound and d is not None:
                env[p_] = self.ev(d)
        sub = GeomEval(fn, self.ctx, self.rel, truth=self.truth, decisions=self.decisions, env=env, hook=self.hook,
                       sub_hook=self.sub_hook, inline=self.inline, depth=self.depth + 1, shared=self.sh, alias=alias)
        sub.nested = set(self.nested)
        self.ctx.src.funcs_consulted.add(f"{self.rel}:{fn.name}")
        sub.run(fn.body)
        if sub.raised:
            self.raised = True
            self.done = True
            return Unknown("helper raised")
        rets = sub.returns
        if not rets:
            return NONE
        if len(rets) != 1:
            return Unknown(f"several returns in {fn.name}")
        v = rets[0][0]
        if v is None:
            return NONE
        if is_rat(v):
            d = single_atom(v)
            if d is not None and d[0] == "s" and d[1] in sub.buffers and d[1] not in alias:
                # a buffer created in the helper: its elements live in the shared memory under the helper's name; hand over the
                # creating expression when nothing was stored
                if not any(c[0] == d[1] for c in self.sh.cells) and not any(r[0] == d[1] for r in self.sh.rowlog) \
                        and f"<init:{d[1]}>" in sub.env:
                    v = sub.env[f"<init:{d[1]}>"]
        return v

    # ---------------------------------------------------------------- statements
    def run(self, stmts):
        for st in stmts:
            if self.done or self.skip:
                break
            self.stmt(st)

    def stmt(self, st):
        if self.done or self.skip:
            return
        if isinstance(st, ast.Expr):
            if isinstance(st.value, (ast.Call, ast.NamedExpr)):
                self.ev(st.value)
            return
        if isinstance(st, ast.For):
            return self._for(st)
        if isinstance(st, ast.While):
            return self._while(st)
        if isinstance(st, ast.With):
            for it in st.items:
                v = self.ev(it.context_expr)
                if it.optional_vars is not None:
                    self._assign(it.optional_vars, v, st)
            return self.run(st.body)
        if isinstance(st, ast.Try):
            self.run(st.body)
            self.run(st.orelse)
            return self.run(st.finalbody)
        if isinstance(st, ast.Raise):
            self.raised = True
            self.done = True
            return
        if isinstance(st, ast.Continue):
            self.skip = "continue"
            return
        if isinstance(st, ast.Break):
            self.skip = "break"
            return
        if isinstance(st, ast.FunctionDef):
            # a nested helper: followed like a private module-level helper; it reads the enclosing scope
            self.inline = dict(self.inline)
            self.inline[st.name] = st
            self.nested.add(st)
            return
        if isinstance(st, (ast.AsyncFunctionDef, ast.ClassDef)):
            return
        return super().stmt(st)

    def _const_items(self, it):
        if isinstance(it, tuple):
            return list(it)
        p = fn_parts(it) if is_rat(it) else None
        if p is not None and p[0] in ("call:range", "call:np.arange"):
            ks = [int_of(a) if is_rat(a) else None for a in p[1]]
            if ks and all(k is not None for k in ks) and len(ks) <= 3:
                r = range(*ks)
                if len(r) <= 64:
                    return [F.const(k) for k in r]
        return None

    def _loop_open(self, st, it):
        rec = {"node": st, "iter": it, "var": None, "cells": [len(self.cells), None], "calls": [len(self.calls), None],
               "rows": [len(self.sh.rowlog), None], "asked": [len(self.sh.asked), None], "inits": [len(self.sh.inits), None], "depth": self.depth,
               "outer": self.sh.loopstack[-1] if self.sh.loopstack else None}
        self.sh.loops.append(rec)
        self.sh.loopstack.append(rec)
        return rec

    def _loop_close(self, rec):
        rec["cells"][1] = len(self.cells)
        rec["calls"][1] = len(self.calls)
        rec["rows"][1] = len(self.sh.rowlog)
        rec["asked"][1] = len(self.sh.asked)
        rec["inits"][1] = len(self.sh.inits)
        if self.sh.loopstack and self.sh.loopstack[-1] is rec:
            self.sh.loopstack.pop()

    def _for(self, st):
        it = self.ev(st.iter)
        rec = self._loop_open(st, it)
        items = None if is_unknown(it) else self._const_items(it)
        if items is None:
            tg = self.sh.tag(st)
            x = F.sym(f"<elem {tg}>")
            p = fn_parts(it) if is_rat(it) else None
            if p is not None and p[0] == "call:enumerate" and isinstance(st.target, ast.Tuple) and len(st.target.elts) == 2:
                x = (F.sym(f"<pos {tg}>"), x)
            items = [x]
            rec["generic"] = True
        for x in items:
            rec["var"] = x
            self._assign(st.target, x, st)
            self.run(st.body)
            if self.done:
                break
            sk, self.skip = self.skip, None
            if sk == "break":
                break
        self._loop_close(rec)

    def _while(self, st):
        rec = self._loop_open(st, None)
        for _ in range(64):
            v = self.ev(st.test)
            b = fold_bool(v) if is_rat(v) else None
            if b is False:
                break
            self.run(st.body)
            if self.done:
                break
            sk, self.skip = self.skip, None
            if sk == "break" or b is None:
                rec["generic"] = b is None
                break
        self._loop_close(rec)

    def _assign(self, target, v, st, aug=False):
        if isinstance(target, ast.Subscript):
            rr = self._resolve_rows(target)
            if rr is not None:
                buf, kind, rows = rr
                if kind == "one":
                    vals = [v]
                elif isinstance(v, tuple) and len(v) == len(rows):
                    vals = list(v)
                elif isinstance(v, tuple):
                    vals = [Unknown("shape of the stored value")] * len(rows)
                else:
                    vals = [v] * len(rows)
                for e, x in zip(rows, vals):
                    self.sh.memory[(buf, vkey(e))] = x
                    self.sh.rowlog.append((buf, e, x, st))
                return
            root = target.value
            while isinstance(root, ast.Subscript):
                root = root.value
            if isinstance(root, ast.Name) and root.id in self.buffers and root is target.value:
                try:
                    ix = self._ixval(target.slice)
                except Unsupported as e:
                    ix = Unknown(str(e))
                self.cells.append((self._bufname(root.id), ix, v, st))
                return
            self.cells.append((None, Unknown("store through an expression"), v, st))
            return
        if isinstance(target, ast.Name) and target.id in self.buffers:
            self.sh.inits.append((target.id, v, st))
            self.gen[target.id] = self.sh.tag(st)
        if isinstance(target, (ast.Tuple, ast.List)) and not isinstance(v, tuple) and is_rat(v):
            for k, t in enumerate(target.elts):
                self._assign(t, F.fn("idx", v, F.const(k)), st)
            return
        return super()._assign(target, v, st, aug)

    # ---------------------------------------------------------------- access for rules
    def init(self, name):
        return self.env.get(f"<init:{name}>")

    def ret(self):
        return self.returns[-1][0] if self.returns else None


def base_name(idn):
    """name of the local behind the identity of a symbol-named array (`loc2#7` -> `loc2`)"""
    return idn if idn is None or idn.startswith("zeros#") else idn.split("#")[0]


def ident(v):
    """identity of an array object: the name of a symbol or the serial number of an allocation"""
    d = single_atom(v) if is_rat(v) else None
    if d is None:
        return None
    if d[0] == "s":
        return d[1]
    if d[0] == "fn" and d[1] == "zeros":
        return "zeros" + d[2][0]
    return None


def _div(a, b):
    if b.is_zero():
        raise Unsupported("division by zero")
    return a / b


def any_unknown(v):
    if isinstance(v, tuple):
        return any(any_unknown(x) for x in v)
    return is_unknown(v) or v is None


def wrap_index(ix):
    if isinstance(ix, tuple):
        return F.fn("tuple", *[wrap_index(x) for x in ix])
    return need(ix)


def neg(v):
    if isinstance(v, tuple):
        return tuple(neg(x) for x in v)
    if is_unknown(v):
        return v
    return -need(v)


def map_value(f, v):
    if isinstance(v, tuple):
        return tuple(map_value(f, x) for x in v)
    if is_unknown(v):
        return v
    try:
        return f(need(v))
    except Unsupported as e:
        return Unknown(str(e))


_FLIP = {"Lt": ("Gt", True), "LtE": ("GtE", True)}


def compare(op, a, b):
    if isinstance(a, tuple) or isinstance(b, tuple):
        if op in ("Is", "IsNot") and (same(a, NONE) or same(b, NONE)):
            return FALSE if op == "Is" else TRUE
        if op in ("In", "NotIn"):
            return Unknown("membership")
        return elementwise(lambda x, y: compare(op, x, y), a, b)
    ca, cb = const_of(a), const_of(b)
    if ca is not None and cb is not None and op in ("Eq", "NotEq", "Lt", "LtE", "Gt", "GtE"):
        r = {"Eq": ca == cb, "NotEq": ca != cb, "Lt": ca < cb, "LtE": ca <= cb, "Gt": ca > cb, "GtE": ca >= cb}[op]
        return TRUE if r else FALSE
    if same(a, b):
        if op in ("Eq", "Is", "LtE", "GtE"):
            return TRUE
        if op in ("NotEq", "IsNot", "Lt", "Gt"):
            return FALSE
    if op in ("Is", "IsNot") and ((same(a, NONE) and cb is not None) or (same(b, NONE) and ca is not None)):
        return FALSE if op == "Is" else TRUE
    if op in _FLIP:
        op, _ = _FLIP[op]
        a, b = b, a
    if op == "NotEq":
        return F.fn("not", F.fn("cmp:Eq", *sorted_pair(a, b)))
    if op == "IsNot":
        return F.fn("not", F.fn("cmp:Is", *sorted_pair(a, b)))
    if op in ("Eq", "Is"):
        return F.fn("cmp:" + op, *sorted_pair(a, b))
    return F.fn("cmp:" + op, need(a), need(b))


def sorted_pair(a, b):
    a, b = need(a), need(b)
    return (a, b) if repr(vkey(a)) <= repr(vkey(b)) else (b, a)


def fold_bool(v):
    """truth of a value that is decided without any assumption, else None"""
    if not is_rat(v):
        return None
    if same(v, TRUE):
        return True
    if same(v, FALSE) or same(v, NONE):
        return False
    c = const_of(v)
    if c is not None:
        return c != 0
    p = fn_parts(v)
    if p is None:
        return None
    if p[0] == "not":
        r = fold_bool(p[1][0])
        return None if r is None else (not r)
    if p[0] in ("bool:And", "bool:Or"):
        rs = [fold_bool(a) for a in p[1]]
        if p[0] == "bool:And":
            if any(r is False for r in rs):
                return False
            return True if all(r is True for r in rs) else None
        if any(r is True for r in rs):
            return True
        return False if all(r is False for r in rs) else None
    if p[0] == "zeros":
        return None
    return None


def truth_of(v, atom):
    """three-valued truth of a test value from the truth of its atoms (`atom(value) -> True | False | None`): not / and / or are
    composed here, so a rule states its regime once, whatever the spelling of the test"""
    r = fold_bool(v)
    if r is not None:
        return r
    r = atom(v)
    if r is not None:
        return r
    p = fn_parts(v) if is_rat(v) else None
    if p is None:
        return None
    if p[0] == "not":
        r = truth_of(p[1][0], atom)
        return None if r is None else (not r)
    if p[0] in ("bool:And", "bool:Or"):
        rs = [truth_of(a, atom) for a in p[1]]
        if p[0] == "bool:And":
            if any(r is False for r in rs):
                return False
            return True if all(r is True for r in rs) else None
        if any(r is True for r in rs):
            return True
        return False if all(r is False for r in rs) else None
    return None


def explore(ctx, rel, fn, truth=None, hook=None, sub_hook=None, env=None, inline=None, presets=None, max_paths=MAX_PATHS):
    """one finished evaluation per regime of `fn`"""
    done = []
    stack = [dict(presets or {})]
    n = 0
    while stack:
        dec = stack.pop()
        n += 1
        if n > 4 * max_paths or len(done) > max_paths:
            raise Unsupported(f"more than {max_paths} regimes in {fn.name}")
        ev = GeomEval(fn, ctx, rel, truth=truth, decisions=dec, env=dict(env or {}), hook=hook, sub_hook=sub_hook, inline=inline)
        try:
            ev.run(fn.body)
        except NeedDecision as e:
            for b in (False, True):
                d2 = dict(dec)
                d2[e.key] = b
                stack.append(d2)
            continue
        done.append(ev)
    return done


# ------------------------------------------------------------------------------------- exact evaluation at a witness point
class Undecided(Exception):
    pass


_SCALE = 10 ** 30
_MARGIN = Fraction(1, 10 ** 15)


def csqrt(q):
    q = Fraction(q)
    if q < 0:
        raise Undecided("square root of a negative number")
    n, d = q.numerator, q.denominator
    rn, rd = math.isqrt(n), math.isqrt(d)
    if rn * rn == n and rd * rd == d:
        return Fraction(rn, rd)
    return Fraction(math.isqrt(n * _SCALE * _SCALE // d), _SCALE)


def _cmp(op, a, b):
    if a != b and abs(a - b) < _MARGIN:
        raise Undecided("comparison within the evaluation margin")
    return {"Gt": a > b, "GtE": a >= b, "Eq": a == b, "Is": a == b, "Lt": a < b, "LtE": a <= b}[op]


def conc(v, assign):
    """value of a formula at a point: `assign` maps atom ids to Fractions; booleans are 1 / 0; raises Undecided"""
    if isinstance(v, tuple):
        return tuple(conc(x, assign) for x in v)
    if is_unknown(v) or v is None:
        raise Undecided("unknown value")
    d = _cpoly(v.d, assign)
    if d == 0:
        raise Undecided("division by zero at the point")
    return _cpoly(v.n, assign) / d


def _cpoly(p, assign):
    tot = Fraction(0)
    for m, c in p.t.items():
        term = Fraction(c)
        for a, e in m:
            term *= _catom(a, assign) ** e
        tot += term
    return tot


def _cargs(d, assign):
    out = []
    for k in d[2]:
        if isinstance(k, str):
            raise Undecided("string argument")
        out.append(conc(_arg(k), assign))
    return out


def _flat(x):
    if isinstance(x, (tuple, list)):
        for y in x:
            yield from _flat(y)
    else:
        yield x


def _catom(a, assign):
    if a in assign:
        return Fraction(assign[a])
    d = F.atom_desc(a)
    k = d[0]
    if k == "s":
        if d[1] == "True":
            return Fraction(1)
        if d[1] in ("False", "None"):
            return Fraction(0)
        raise Undecided(f"free symbol {d[1]}")
    if k == "sqrt":
        return csqrt(_cpoly(F._poly_from_key(d[1]), assign))
    if k in ("sin", "cos"):
        arg = F._poly_from_key(d[1])
        at = single_atom(F.Rat(arg))
        if at is not None and at[0] == "fn" and at[1] == "atan2":
            y, x = _cargs(at, assign)
            h = csqrt(x * x + y * y)
            if h == 0:
                return Fraction(0) if k == "sin" else Fraction(1)     # atan2(0, 0) is 0
            return (y if k == "sin" else x) / h
        val = _cpoly(arg, assign)
        if val == 0:
            return Fraction(0) if k == "sin" else Fraction(1)
        raise Undecided("trigonometric function of a number")
    if k == "fn":
        nm = d[1]
        if nm == "abs":
            return abs(_cargs(d, assign)[0])
        if nm.startswith("cmp:"):
            x, y = _cargs(d, assign)
            return Fraction(int(_cmp(nm[4:], x, y)))
        if nm == "not":
            return Fraction(int(_cargs(d, assign)[0] == 0))
        if nm in ("bool:And", "all"):
            return Fraction(int(all(x != 0 for x in _flat(_cargs_t(d, assign)))))
        if nm in ("bool:Or", "any"):
            return Fraction(int(any(x != 0 for x in _flat(_cargs_t(d, assign)))))
        if nm in ("call:max", "call:np.max", "call:np.amax", "call:np.maximum"):
            return max(_flat(_cargs_t(d, assign)))
        if nm in ("call:min", "call:np.min", "call:np.amin", "call:np.minimum"):
            return min(_flat(_cargs_t(d, assign)))
        if nm in ("call:np.count_nonzero",):
            return Fraction(sum(1 for x in _flat(_cargs_t(d, assign)) if x != 0))
        if nm in ("call:np.sum", "call:sum"):
            return sum(_flat(_cargs_t(d, assign)), Fraction(0))
        if nm in ("call:np.allclose", "call:np.array_equal") and len(d[2]) == 2:
            x, y = _cargs_t(d, assign)
            xs, ys = list(_flat(x)), list(_flat(y))
            if len(ys) == 1:
                ys = ys * len(xs)
            if len(xs) != len(ys):
                raise Undecided("shapes")
            if nm.endswith("allclose") and any(p != q and abs(p - q) < Fraction(1, 10 ** 4) for p, q in zip(xs, ys)):
                raise Undecided("allclose near its tolerance")
            return Fraction(int(all(p == q for p, q in zip(xs, ys))))
        raise Undecided(f"application {nm}")
    raise Undecided(f"atom {k}")


def _cargs_t(d, assign):
    """arguments with tuple(...) applications expanded to python tuples"""
    out = []
    for k in d[2]:
        if isinstance(k, str):
            raise Undecided("string argument")
        out.append(conc(untuple(_arg(k)), assign))
    return out


# ----------------------------------------------------------------------------------------- re-evaluation under a parametrisation
def rebuild(v, leaf, atan2=None):
    """the value with atoms replaced by `leaf[atom id]` and every application re-applied to the rebuilt arguments; atan2 applications go
    through `atan2(y, x)` (a rule's simplification under its stated sign assumptions)"""
    if isinstance(v, tuple):
        return tuple(rebuild(x, leaf, atan2) for x in v)
    if not is_rat(v):
        return v
    memo = {}

    def poly(p):
        res = F.const(0)
        for m, c in p.t.items():
            term = F.const(c)
            for a, e in m:
                term = term * (atom(a) ** e)
            res = res + term
        return res

    def atom(a):
        if a in memo:
            return memo[a]
        if a in leaf:
            r = leaf[a]
        else:
            d = F.atom_desc(a)
            if d[0] == "s":
                r = atom_rat(a)
            elif d[0] in ("exp", "sin", "cos", "sqrt"):
                arg = poly(F._poly_from_key(d[1]))
                r = {"exp": F.exp, "sin": F.sin, "cos": F.cos, "sqrt": F.sqrt}[d[0]](arg)
            elif d[0] == "fn":
                args = [k if isinstance(k, str) else poly(F._poly_from_key(k[1])) / poly(F._poly_from_key(k[2])) for k in d[2]]
                if d[1] == "atan2" and atan2 is not None and len(args) == 2:
                    r = atan2(args[0], args[1])
                else:
                    r = F.fn(d[1], *args)
            else:
                raise Unsupported(f"atom {d[0]}")
        memo[a] = r
        return r
    return poly(v.n) / poly(v.d)


def atan2_rule(angles, positives):
    """atan2(k sin u, k cos u) = u  for an angle u of `angles` and a factor k that is one of `positives` (quantities the property's
    domain makes positive); = u + pi for -k.  Anything else stays an atan2 application."""
    pi = F.sym("pi")

    def unroot(v):
        # a square root is non-negative: it is the positive quantity q whenever v^2 = q^2
        d = single_atom(v) if is_rat(v) else None
        if d is not None and d[0] == "sqrt":
            for q in positives:
                try:
                    if (v * v - q * q).is_zero():
                        return q
                except Unsupported:
                    pass
        return v

    def rule(y, x):
        y, x = unroot(y), unroot(x)
        for u in angles:
            try:
                su, cu = F.sin(u), F.cos(u)
                if not (y * cu - x * su).is_zero():
                    continue
                for p in positives:
                    if (y - p * su).is_zero() and (x - p * cu).is_zero():
                        return u
                    if (y + p * su).is_zero() and (x + p * cu).is_zero():
                        return u + pi
                # the common factor k of (y, x) = k (sin u, cos u), whatever it is made of: positive when it is a positive constant times
                # powers of the positive quantities (a point normalised by its radius, scaled by a radius squared ...)
                k = y * su + x * cu                   # = k (sin^2 + cos^2)
                if (y - k * su).is_zero() and (x - k * cu).is_zero() and not k.is_zero():
                    sg = _sign_by_positives(k, positives)
                    if sg is not None:
                        return u if sg > 0 else u + pi
            except Unsupported:
                continue
        return F.fn("atan2", y, x)
    return rule


def _sign_by_positives(k, positives):
    """+1 / -1 when k is a positive / negative constant times integer powers (-2 .. 2) of the positive quantities, else None"""
    import itertools
    ps = list(positives)[:3]
    for es in sorted(itertools.product(range(-2, 3), repeat=len(ps)), key=lambda e: sum(abs(i) for i in e)):
        q = k
        try:
            for p, e in zip(ps, es):
                for _ in range(abs(e)):
                    q = q / p if e > 0 else q * p
        except (Unsupported, ZeroDivisionError):
            continue
        c = const_of(q)
        if c is not None and c != 0:
            return 1 if c > 0 else -1
    return None


def linear_in(v, syms):
    """coefficients of a value that is linear and homogeneous in the symbols `syms` (names), else None"""
    if not is_rat(v):
        return None
    try:
        cs = [v.diff(s) for s in syms]
        rest = v
        for c, s in zip(cs, syms):
            rest = rest - c * F.sym(s)
            if any(c.depends_on(t) for t in syms):
                return None
        if not rest.is_zero():
            return None
        return cs
    except Unsupported:
        return None
