"""Value-level evaluation for the C14 rules (helper of verifier/c14.py; built on e2_eval.AutoEvaluator / sem.py).

`GeomEval` evaluates a function of pyyeti/nastran/n2p.py on symbols.  On top of AutoEvaluator it

  * works with small dense arrays as (nested) tuples: `np.array([[c, s], [-s, c]])`, `a @ b` / `np.dot(a, b)` / `a.dot(b)` for
    matrix-matrix, matrix-vector, vector-matrix and vector-vector operands, `.T` / `np.transpose`, numpy-style constant
    indexing (`m[2:]`, `m[0, 1]`, `m[:, 2]`), element-wise comparisons;
  * keeps a *row memory* for arrays that are filled through one-dimensional subscript stores: `x[i:i+3] = ...` followed by
    `x[i:i+2]` (or `x[i]`, or a store through the view `x[slice(i, i+6)][slice(0, 3)]`) reads what was stored, an element that
    was never stored is the symbol `x[<index value>]`;
  * follows loops: a `for` over a constant `range` / `np.arange` / tuple and a `while` with a decidable test are unrolled, any
    other `for` is evaluated for one generic element (a fresh symbol); `continue` / `break` / `raise` end the iteration / path;
    what happened inside each loop is delimited in `self.loops`;
  * reads module-level constants (`_DEG2RAD = math.pi / 180.0`) and local aliases of library functions
    (`atan2, cos, sin = math.atan2, math.cos, math.sin`);
  * knows hypot / atan2 / norm / abs / any / all / slice() and treats `.values`, `.to_numpy()`, `np.asarray` ... as the identity;
  * follows the private helpers of the module (inline table, see `helpers`).

`explore` runs a function once per *regime*: a test the rule's `truth` function (asked with the *value* of the test) does not
decide splits the regime in two.  No solver and no search.

`conc` evaluates an extracted formula exactly (Fractions; square roots to 1e-30, comparisons refuse to decide within 1e-15) at a
point of a rule's finite witness table.  It is used only to *refute*: a guard that is false at a point where the property needs
it to be true is reported together with the point."""
from __future__ import annotations

import ast
import math
from fractions import Fraction

from . import e2_formula as F
from .core import Unsupported
from .e1_srcmodel import dotted
from .e2_eval import AutoEvaluator, Unknown, is_unknown, need

MAX_PATHS = 96
NONE = F.sym("None")
TRUE = F.sym("True")
FALSE = F.sym("False")

IDENT_ATTRS = {"values", "real", "array"}
IDENT_METHODS = {"astype", "copy", "to_numpy", "squeeze", "view", "__array__"}
IDENT_FUNCS = {"np.asarray", "np.array", "np.atleast_1d", "np.asanyarray", "np.ascontiguousarray", "float", "np.float64",
               "np.squeeze"}
HYPOT = {"math.hypot", "np.hypot"}
ATAN2 = {"math.atan2", "np.arctan2", "np.atan2"}
NORM = {"linalg.norm", "np.linalg.norm", "la.norm", "scipy.linalg.norm", "norm"}
ABS = {"abs", "np.abs", "np.absolute", "math.fabs", "np.fabs"}
ANY = {"any", "np.any"}
ALL = {"all", "np.all"}
DOT = {"np.dot", "np.matmul"}


class NeedDecision(Exception):
    def __init__(self, key, node):
        super().__init__(str(key)[:80])
        self.key = key
        self.node = node


# ------------------------------------------------------------------------------------------------------------------ values
def vkey(v):
    if isinstance(v, tuple):
        return ("tuple",) + tuple(vkey(x) for x in v)
    if v is None or is_unknown(v):
        return None
    return ("rat", v.n.key(), v.d.key())


def same(a, b):
    if a is None or b is None or is_unknown(a) or is_unknown(b):
        return False
    if isinstance(a, tuple) or isinstance(b, tuple):
        return isinstance(a, tuple) and isinstance(b, tuple) and len(a) == len(b) and all(same(x, y) for x, y in zip(a, b))
    try:
        return need(a).equals(need(b))
    except Unsupported:
        return False


def is_rat(v):
    return isinstance(v, F.Rat)


def const_of(v):
    """Fraction value of a constant formula, else None"""
    if is_rat(v) and v.is_const():
        return v.const_value()
    return None


def int_of(v):
    c = const_of(v)
    if c is not None and c.denominator == 1:
        return int(c)
    return None


def wrap(v):
    """a value usable as an argument of an opaque application"""
    if isinstance(v, tuple):
        return F.fn("tuple", *[wrap(x) for x in v])
    return need(v)


def single_atom(v):
    """value that is exactly one atom (coefficient 1, power 1) -> its description, else None"""
    if not is_rat(v):
        return None
    try:
        if not v.d.is_const() or v.d.const_value() != 1 or len(v.n.t) != 1:
            return None
        (m, c), = v.n.t.items()
        if c != 1 or len(m) != 1 or m[0][1] != 1:
            return None
        return F.atom_desc(m[0][0])
    except Exception:  # noqa
        return None


def fn_parts(v):
    """value that is one opaque application -> (name, [argument values or strings]) else None"""
    d = single_atom(v)
    if d is None or d[0] != "fn":
        return None
    return d[1], [_arg(k) for k in d[2]]


def _arg(k):
    if isinstance(k, str):
        return k
    return F.Rat(F._poly_from_key(k[1]), F._poly_from_key(k[2]))


def untuple(v):
    """tuple(...) application -> python tuple of values (recursively), anything else unchanged"""
    p = fn_parts(v)
    if p is not None and p[0] == "tuple":
        return tuple(untuple(a) for a in p[1])
    return v


def atoms_of(v):
    """all atom descriptions occurring in a value, arguments of applications included (depth first)"""
    out = []
    seen = set()

    def poly(p):
        for a in p.atoms():
            if a in seen:
                continue
            seen.add(a)
            d = F.atom_desc(a)
            out.append((a, d))
            if d[0] in ("exp", "sin", "cos", "sqrt"):
                poly(F._poly_from_key(d[1]))
            elif d[0] == "fn":
                for k in d[2]:
                    if not isinstance(k, str):
                        poly(F._poly_from_key(k[1]))
                        poly(F._poly_from_key(k[2]))

    def walk(x):
        if isinstance(x, tuple):
            for y in x:
                walk(y)
        elif is_rat(x):
            poly(x.n)
            poly(x.d)
    walk(v)
    return out


def fn_atoms(v, name):
    """[argument list] of every application `name` inside the value"""
    return [[_arg(k) for k in d[2]] for _, d in atoms_of(v) if d[0] == "fn" and d[1] == name]


def mentions_sym(v, name):
    return any(d == ("s", name) for _, d in atoms_of(v))


def atom_rat(aid):
    return F.Rat(F.Poly.atom(aid))


def subs_atoms(v, mapping):
    """replace atoms (by atom id) with values, everywhere - inside arguments too"""
    if isinstance(v, tuple):
        return tuple(subs_atoms(x, mapping) for x in v)
    if not is_rat(v) or not mapping:
        return v
    return F._subs_poly(v.n, mapping) / F._subs_poly(v.d, mapping)


def atom_id(v):
    """atom id of a value that is exactly one atom"""
    if single_atom(v) is None:
        return None
    (m, _), = v.n.t.items()
    return m[0][0]


# ------------------------------------------------------------------------------------------------------- small dense arrays
def depth(v):
    d = 0
    while isinstance(v, tuple) and v:
        d += 1
        v = v[0]
    return d


def is_matrix(v):
    return isinstance(v, tuple) and len(v) > 0 and all(isinstance(r, tuple) and len(r) == len(v[0]) for r in v) and \
        not any(isinstance(x, tuple) for r in v for x in r)


def is_vector(v):
    return isinstance(v, tuple) and not any(isinstance(x, tuple) for x in v)


def transpose(v):
    if is_matrix(v):
        return tuple(tuple(v[i][j] for i in range(len(v))) for j in range(len(v[0])))
    return v


def _dot(a, b):
    tot = F.const(0)
    for x, y in zip(a, b):
        if is_unknown(x):
            return x
        if is_unknown(y):
            return y
        tot = tot + need(x) * need(y)
    return tot


def matmul(a, b):
    """numpy `@` on nested tuples; a scalar symbol standing for a whole matrix multiplies element-wise (its entries are not known,
    the product of the symbol and each row entity is the canonical spelling of `M @ rows`)"""
    if is_unknown(a):
        return a
    if is_unknown(b):
        return b
    if is_matrix(a) and is_matrix(b):
        if len(a[0]) != len(b):
            return Unknown("matrix shapes")
        bt = transpose(b)
        return tuple(tuple(_dot(r, c) for c in bt) for r in a)
    if is_matrix(a) and is_vector(b):
        if len(a[0]) != len(b):
            return Unknown("matrix-vector shapes")
        return tuple(_dot(r, b) for r in a)
    if is_vector(a) and is_matrix(b):
        if len(a) != len(b):
            return Unknown("vector-matrix shapes")
        return tuple(_dot(a, c) for c in transpose(b))
    if is_vector(a) and is_vector(b):
        if len(a) != len(b):
            return Unknown("vector shapes")
        return _dot(a, b)
    if is_rat(a) and isinstance(b, tuple):
        return tuple(matmul(a, x) if isinstance(x, tuple) else (x if is_unknown(x) else a * need(x)) for x in b)
    if isinstance(a, tuple) and is_rat(b):
        return tuple(matmul(x, b) if isinstance(x, tuple) else (x if is_unknown(x) else need(x) * b) for x in a)
    if is_rat(a) and is_rat(b):
        return a * b
    return Unknown("matmul operands")


def elementwise(f, a, b):
    if isinstance(a, tuple) and isinstance(b, tuple):
        if len(a) != len(b):
            if len(b) == 1:
                return tuple(elementwise(f, x, b[0]) for x in a)
            if len(a) == 1:
                return tuple(elementwise(f, a[0], y) for y in b)
            return Unknown("shape mismatch")
        return tuple(elementwise(f, x, y) for x, y in zip(a, b))
    if isinstance(a, tuple):
        return tuple(elementwise(f, x, b) for x in a)
    if isinstance(b, tuple):
        return tuple(elementwise(f, a, y) for y in b)
    if is_unknown(a):
        return a
    if is_unknown(b):
        return b
    try:
        return f(need(a), need(b))
    except Unsupported as e:
        return Unknown(str(e))


def slice_value(lo, hi, st):
    return F.fn("slice", NONE if lo is None else lo, NONE if hi is None else hi, NONE if st is None else st)


def as_slice(v):
    """slice(...) application -> (lo, hi, step) with None for absent parts, else None"""
    p = fn_parts(v)
    if p is None or p[0] != "slice" or len(p[1]) != 3:
        return None
    return tuple(None if same(x, NONE) else x for x in p[1])


def index_nested(base, ix):
    """numpy indexing of a nested tuple with constant indices; NotImplemented when an index is not a constant"""
    ixs = list(ix) if isinstance(ix, tuple) else [ix]

    def rec(v, ixs):
        if not ixs:
            return v
        if not isinstance(v, tuple):
            raise Unsupported("too many indices")
        i, rest = ixs[0], ixs[1:]
        s = as_slice(i) if is_rat(i) else None
        if s is not None:
            lo, hi, st = (None if x is None else int_of(x) for x in s)
            if any(x is not None and int_of(x) is None for x in s):
                raise Unsupported("symbolic slice of a dense array")
            return tuple(rec(x, rest) for x in v[slice(lo, hi, st)])
        if isinstance(i, tuple):
            ks = [int_of(x) for x in i]
            if any(k is None for k in ks):
                raise Unsupported("symbolic index list")
            return tuple(rec(v[k], rest) for k in ks)
        k = int_of(i)
        if k is None:
            raise Unsupported("symbolic index of a dense array")
        return rec(v[k], rest)
    try:
        return rec(base, ixs)
    except (Unsupported, IndexError):
        return NotImplemented
