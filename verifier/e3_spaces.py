"""E3 -- partition-space / state-half typing of array code.

Types
  Arr(s0, s1, r0, r1)  an array whose axis-0 / axis-1 index space is s0 / s1 (None = unknown or not a DOF axis)
                       and whose state role on each axis is r0 / r1 ('d' displacement half, 'v' velocity half, None)
  Idx(dom, cod)        an index vector or slice selecting, out of an axis in space `dom`, the members of `cod`
                       (positions are relative to `dom`)
  Ix(I, J)             np.ix_(I, J)
  Half(which)          the slices [:ksize] ('v') and [ksize:] ('d') of a [v; d] state axis
Only *proved* mismatches are reported: both sides must resolve to distinct known spaces / roles.
"""
from __future__ import annotations

import ast

from .e1_srcmodel import dotted


class Arr:
    __slots__ = ("s", "r", "one_d")

    def __init__(self, s0=None, s1=None, r0=None, r1=None, one_d=False):
        self.s = (s0, s1)
        self.r = (r0, r1)
        self.one_d = one_d      # known to be 1-D (result of .ravel()): broadcasts along the LAST axis of a 2-D operand

    def __repr__(self):
        return f"Arr{self.s}{self.r if any(self.r) else ''}"

    def with_axis(self, i, s=None, r="keep"):
        s2 = list(self.s)
        r2 = list(self.r)
        s2[i] = s
        if r != "keep":
            r2[i] = r
        return Arr(s2[0], s2[1], r2[0], r2[1])

    @property
    def T(self):
        return Arr(self.s[1], self.s[0], self.r[1], self.r[0])


class Idx:
    __slots__ = ("dom", "cod")

    def __init__(self, dom, cod):
        self.dom, self.cod = dom, cod

    def __repr__(self):
        return f"Idx({self.dom}->{self.cod})"


class Ix:
    __slots__ = ("i", "j")

    def __init__(self, i, j):
        self.i, self.j = i, j


class Half:
    __slots__ = ("which",)

    def __init__(self, which):
        self.which = which


SCALAR = "scalar"


class Typer:
    def __init__(self, attrs, params=None, size_names=None, report=None, label="", locals_=None, cond=None):
        """attrs: dotted name ('self.m', 'pc.F') -> type ; params: local name -> type
        size_names: names/dotted that denote the half size of the state vector (ksize)"""
        self.attrs = dict(attrs)
        self.env = dict(params or {})
        if locals_:
            self.env.update(locals_)
        self.size_names = set(size_names or ())
        self.report = report or (lambda kind, node, detail: None)
        self.cond = cond or {}   # normalised test text -> bool : branches infeasible in this mode are not typed
        self.label = label
        self.resolved = 0     # number of subscripts / matmuls / elementwise ops whose operands resolved
        self.checked = []     # the nodes of those operations
        self.half_space = {"S2": "K"}
        self.slices = {}      # (lower text, upper text) -> Idx   e.g. ("nrb", None): Idx("N", "NR")
        self.equiv = []       # stack of pairs of spaces that coincide on the current path (e.g. N ~ K where there are no rf modes)
        self.branch_equiv = {}  # normalised test text -> (pair valid in body or None, pair valid in orelse or None)
        self.attr_stores = []  # (dotted, type, node)

    def _ne(self, a, b):
        """spaces provably different on the current path"""
        if a == b:
            return False
        for x, y in self.equiv:
            if {a, b} == {x, y}:
                return False
        return True

    def _res(self, node):
        self.resolved += 1
        self.checked.append(node)

    # ------------------------------------------------------------ expressions
    def lookup(self, node):
        d = dotted(node)
        if d is None and isinstance(node, ast.Subscript) and isinstance(node.slice, ast.Constant) \
                and isinstance(node.slice.value, str) and dotted(node.value):
            d = f'{dotted(node.value)}["{node.slice.value}"]'
        if d is None:
            return None
        if d in self.env:
            return self.env[d]
        if d in self.attrs:
            return self.attrs[d]
        return None

    def ty(self, node):
        if isinstance(node, (ast.Name, ast.Attribute)):
            t = self.lookup(node)
            if t is not None:
                return t
            if isinstance(node, ast.Attribute):
                base = self.ty(node.value)
                if isinstance(base, Arr):
                    if node.attr == "T":
                        return base.T
                    if node.attr in ("real", "imag"):
                        return base
            return None
        if isinstance(node, ast.Subscript):
            if isinstance(node.slice, ast.Constant) and isinstance(node.slice.value, str):
                return self.lookup(node)
            return self.subscript(node)
        if isinstance(node, ast.NamedExpr):
            t = self.ty(node.value)
            self.env[node.target.id] = t
            return t
        if isinstance(node, ast.BinOp):
            return self.binop(node)
        if isinstance(node, ast.UnaryOp):
            return self.ty(node.operand)
        if isinstance(node, ast.Call):
            return self.call(node)
        if isinstance(node, ast.IfExp):
            a, b = self.ty(node.body), self.ty(node.orelse)
            return a if _same(a, b) else None
        if isinstance(node, ast.Constant):
            return SCALAR if isinstance(node.value, (int, float, complex)) else None
        if isinstance(node, ast.Tuple) and len(node.elts) == 2:
            i, j = self.ty(node.elts[0]), self.ty(node.elts[1])
            if isinstance(i, Idx) and isinstance(j, Idx):
                return Ix(i, j)
        return None

    def _index_elem(self, e):
        """type of one index element"""
        if isinstance(e, ast.Slice):
            lo, hi = e.lower, e.upper
            key = (ast.unparse(lo) if lo is not None else None, ast.unparse(hi) if hi is not None else None)
            if e.step is None and key in self.slices:
                return self.slices[key]
            if e.step is None:
                if lo is None and hi is not None and self._is_size(hi):
                    return Half("v")
                if hi is None and lo is not None and self._is_size(lo):
                    return Half("d")
            return "slice"
        if isinstance(e, ast.Constant) and e.value is None:
            return "newaxis"
        if isinstance(e, ast.Constant) and isinstance(e.value, int):
            return "int"
        t = self.ty(e)
        if isinstance(t, (Idx, Ix)):
            return t
        if isinstance(e, (ast.Name, ast.BinOp, ast.UnaryOp)) and t in (None, SCALAR):
            return "dyn"   # a loop counter etc.: drops the axis if scalar, unknown otherwise
        return "unknown"

    def _is_size(self, node):
        d = dotted(node)
        return d in self.size_names if d else False

    def subscript(self, node):
        base = self.ty(node.value)
        elts = list(node.slice.elts) if isinstance(node.slice, ast.Tuple) else [node.slice]
        kinds = [self._index_elem(e) for e in elts]
        if isinstance(base, Idx):
            # an index vector indexed by another: positions compose
            if len(kinds) == 1 and isinstance(kinds[0], Idx):
                inner = kinds[0]
                self._res(node)
                if base.cod is not None and inner.dom is not None and self._ne(base.cod, inner.dom):
                    self.report("index-compose", node, f"`{ast.unparse(node)}`: {ast.unparse(node.value)} enumerates space "
                                f"{base.cod} but is indexed with positions relative to {inner.dom}")
                    return None
                return Idx(base.dom, inner.cod)
            return None
        if not isinstance(base, Arr):
            return None
        s = list(base.s)
        r = list(base.r)
        ax = 0
        drop = []
        any_idx = False
        for k in kinds:
            if k == "newaxis":
                # inserting an axis: treat positions conservatively
                if ax == 0:
                    s = [None, s[0]]
                    r = [None, r[0]]
                    ax = 2
                continue
            if ax > 1:
                break
            if isinstance(k, Ix):
                any_idx = True
                for a, ix in ((0, k.i), (1, k.j)):
                    if isinstance(ix, Idx):
                        self._chk(node, s[a], ix, a)
                        s[a] = ix.cod
                ax = 2
                continue
            if isinstance(k, Idx):
                any_idx = True
                self._chk(node, s[ax], k, ax)
                s[ax] = k.cod
            elif isinstance(k, Half):
                r[ax] = k.which
                if s[ax] in self.half_space:
                    s[ax] = self.half_space[s[ax]]
            elif k in ("int",):
                drop.append(ax)
            elif k == "dyn":
                # scalar loop index on a non-DOF axis drops it; on a DOF axis we cannot know -> keep space unknown
                if s[ax] is None:
                    drop.append(ax)
                else:
                    s[ax] = None
            elif k == "unknown":
                s[ax] = None
            ax += 1
        if any_idx:
            self._res(node)
        for a in sorted(drop, reverse=True):
            del s[a]
            del r[a]
            s.append(None)
            r.append(None)
        return Arr(s[0], s[1], r[0], r[1])

    def _chk(self, node, space, ix, axis):
        if space is not None and ix.dom is not None and self._ne(space, ix.dom):
            self.report("index-space", node,
                        f"`{ast.unparse(node)}`: axis {axis} of `{ast.unparse(node.value)}` lives in space {space} but the index "
                        f"holds positions relative to space {ix.dom}")

    def binop(self, node):
        a, b = self.ty(node.left), self.ty(node.right)
        if isinstance(node.op, ast.MatMult):
            return self.matmul(node, a, b)
        if isinstance(a, Arr) and isinstance(b, Arr):
            sa, sb = a.s[0], b.s[0]
            # a 1-D operand lines up with the last axis of a 2-D operand
            if b.one_d and not a.one_d and a.s[1] is not None:
                sa = a.s[1]
            elif a.one_d and not b.one_d and b.s[1] is not None:
                sb = b.s[1]
            if sa is not None and sb is not None:
                self._res(node)
                if self._ne(sa, sb):
                    self.report("elementwise-space", node, f"`{ast.unparse(node)}`: left operand rows in space {sa}, right operand rows in space {sb}")
            ra, rb = a.r[0], b.r[0]
            # roles survive only sums of like quantities; a coefficient product is neither displacement nor velocity
            r0 = ra if (isinstance(node.op, (ast.Add, ast.Sub)) and ra == rb) else None
            s0 = sa if sa is not None else sb
            s1 = a.s[1] if a.s[1] is not None else b.s[1]
            return Arr(s0, s1, r0, None)
        if isinstance(node.op, (ast.Mult, ast.Div, ast.Pow)):
            t = a if isinstance(a, Arr) else b
            if isinstance(t, Arr):
                return Arr(t.s[0], t.s[1], None, None)
        if isinstance(a, Arr):
            return a
        if isinstance(b, Arr):
            return b
        if a == SCALAR and b == SCALAR:
            return SCALAR
        return None

    def matmul(self, node, a, b):
        if isinstance(a, Arr) and isinstance(b, Arr):
            if a.s[1] is not None and b.s[0] is not None:
                self._res(node)
                if self._ne(a.s[1], b.s[0]):
                    self.report("matmul-space", node, f"`{ast.unparse(node)}`: columns in space {a.s[1]}, operand rows in space {b.s[0]}")
            if a.r[1] and b.r[0]:
                self._res(node)
                if a.r[1] != b.r[0]:
                    self.report("matmul-role", node, f"`{ast.unparse(node)}`: columns multiply the {_rn(a.r[1])} half but the operand is a {_rn(b.r[0])}")
            return Arr(a.s[0], b.s[1], a.r[0], b.r[1])
        if isinstance(a, Arr):
            return Arr(a.s[0], None, a.r[0], None)
        return None

    def call(self, node):
        d = dotted(node.func)
        args = node.args
        if d in ("la.lu_solve", "la.solve", "np.linalg.solve", "scipy.linalg.solve") and len(args) >= 2:
            A, x = self.ty(args[0]), self.ty(args[1])
            if isinstance(A, Arr) and isinstance(x, Arr):
                if A.s[0] is not None and x.s[0] is not None:
                    self._res(node)
                    if self._ne(A.s[0], x.s[0]):
                        self.report("solve-space", node, f"`{ast.unparse(node)}`: matrix in space {A.s[0]}, right-hand side rows in space {x.s[0]}")
                return Arr(A.s[0] if A.s[0] is not None else x.s[0], x.s[1], x.r[0], x.r[1])
            if isinstance(x, Arr):
                return x
            if isinstance(A, Arr):
                return Arr(A.s[0], None)
            return None
        if d in ("la.lu_factor", "np.diag", "np.copy", "abs", "np.abs", "np.asarray", "np.atleast_2d", "np.atleast_1d", "self._get_inv_m") and args:
            return self.ty(args[0])
        if d == "np.ix_" and len(args) == 2:
            i, j = self.ty(args[0]), self.ty(args[1])
            return Ix(i if isinstance(i, Idx) else None, j if isinstance(j, Idx) else None)
        if isinstance(node.func, ast.Attribute):
            base = self.ty(node.func.value)
            if isinstance(base, Arr):
                if node.func.attr == "ravel":
                    return Arr(base.s[0], None, base.r[0], None, one_d=True)
                if node.func.attr in ("copy", "conj", "astype", "squeeze"):
                    return base
                if node.func.attr == "reshape":
                    return Arr(base.s[0], None, base.r[0], None)
                if node.func.attr == "dot" and args:
                    return self.matmul(node, base, self.ty(args[0]))
            if isinstance(base, Idx) and node.func.attr in ("copy", "ravel"):
                return base
        return None

    # ------------------------------------------------------------ statements
    def run(self, stmts):
        for st in stmts:
            self.stmt(st)

    def stmt(self, st):
        if isinstance(st, ast.Assign):
            v = self.ty(st.value)
            for t in st.targets:
                self.assign(t, v, st)
        elif isinstance(st, ast.AugAssign):
            v = self.ty(st.value)
            if isinstance(st.target, ast.Subscript):
                self.store(st.target, v, st)
            else:
                cur = self.ty(st.target)
                if isinstance(cur, Arr) and isinstance(v, Arr) and cur.s[0] and v.s[0]:
                    self._res(st)
                    if self._ne(cur.s[0], v.s[0]):
                        self.report("elementwise-space", st, f"`{ast.unparse(st)}`: target rows in space {cur.s[0]}, value rows in space {v.s[0]}")
        elif isinstance(st, ast.If) and ast.unparse(st.test).replace(" ", "") in self.cond:
            self.run(st.body if self.cond[ast.unparse(st.test).replace(" ", "")] else st.orelse)
        elif isinstance(st, ast.If):
            env0 = dict(self.env)
            be = self.branch_equiv.get(ast.unparse(st.test).replace(" ", ""), (None, None))
            if be[0]:
                self.equiv.append(be[0])
            self.run(st.body)
            if be[0]:
                self.equiv.pop()
            env1 = self.env
            self.env = dict(env0)
            if be[1]:
                self.equiv.append(be[1])
            self.run(st.orelse)
            if be[1]:
                self.equiv.pop()
            env2 = self.env
            merged = {}
            for k in set(env1) | set(env2):
                a, b = env1.get(k), env2.get(k)
                if _same(a, b):
                    merged[k] = a
                elif k in env1 and k not in env2:
                    merged[k] = a
                elif k in env2 and k not in env1:
                    merged[k] = b
                else:
                    merged[k] = None
            self.env = merged
        elif isinstance(st, (ast.For, ast.While)):
            self.run(st.body)
            self.run(st.orelse)
        elif isinstance(st, ast.With):
            self.run(st.body)
        elif isinstance(st, ast.Try):
            self.run(st.body)
            for h in st.handlers:
                self.run(h.body)
            self.run(st.orelse)
            self.run(st.finalbody)
        elif isinstance(st, ast.Expr):
            self.ty(st.value)
        elif isinstance(st, ast.Return) and st.value is not None:
            self.ty(st.value)

    def assign(self, target, v, st):
        if isinstance(target, ast.Name):
            self.env[target.id] = v
        elif isinstance(target, ast.Attribute):
            d = dotted(target)
            if d:
                self.attr_stores.append((d, v, st))
                self.env[d] = v
        elif isinstance(target, (ast.Tuple, ast.List)):
            vals = None
            if isinstance(st.value, (ast.Tuple, ast.List)) and len(st.value.elts) == len(target.elts):
                vals = [self.ty(e) for e in st.value.elts]
            for i, t in enumerate(target.elts):
                self.assign(t, vals[i] if vals else None, st)
        elif isinstance(target, ast.Subscript) and isinstance(target.slice, ast.Constant) and isinstance(target.slice.value, str) \
                and dotted(target.value):
            d = f'{dotted(target.value)}["{target.slice.value}"]'
            self.attr_stores.append((d, v, st))
            self.env[d] = v
        elif isinstance(target, ast.Subscript):
            self.store(target, v, st)

    def store(self, target, v, st):
        tt = self.subscript(target)
        if isinstance(tt, Arr) and isinstance(v, Arr):
            if tt.s[0] is not None and v.s[0] is not None:
                self._res(st)
                if self._ne(tt.s[0], v.s[0]):
                    self.report("store-space", st, f"`{ast.unparse(st)[:120]}`: target rows select space {tt.s[0]}, stored value rows live in space {v.s[0]}")
            base = self.ty(target.value)
            # role of the stored value against the role of the target array (d vs v)
            if isinstance(base, Arr) and base.r[0] and v.r[0]:
                self._res(st)
                if base.r[0] != v.r[0]:
                    self.report("store-role", st, f"`{ast.unparse(st)[:120]}`: a {_rn(v.r[0])} quantity is stored into the {_rn(base.r[0])} array")


def _rn(r):
    return {"d": "displacement", "v": "velocity"}.get(r, r)


def _same(a, b):
    if a is None or b is None:
        return a is b
    if type(a) is not type(b):
        return False
    if isinstance(a, Arr):
        return a.s == b.s and a.r == b.r
    if isinstance(a, Idx):
        return a.dom == b.dom and a.cod == b.cod
    if isinstance(a, Ix):
        return _same(a.i, b.i) and _same(a.j, b.j)
    return a == b
