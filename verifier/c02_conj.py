"""C02-R9, typestate part: which conjugate set (full / half) the solver object holds at the points where an entry point reads it.

The methods of the solver class are followed *by value* on a small abstract machine:

* the abstract state is (N, flags): N = number of stored modes (2n = full set, the world's N_half = one of each conjugate pair), flags = every
  attribute of the object that the followed code stores and that some test of the class reads (constants kept, anything else "?");
* a call of the module functions `addconj` / `delconj` is the transition N := full / N := half;
* size expressions over the eigen-set arrays (`X.shape[k]`, `len(X)`, `X.size`, `np.size(X, k)`) are evaluated on the concrete shapes the state
  gives (SHAPES below: the slicing of `_add_partition_copies`), flag reads (`obj.flag`, `getattr(obj, "flag", default)`, `hasattr`) on the flag
  values; a test that is decided this way is followed one way only;
* a test on anything else (configuration: self.unc, self.ksize, nt > 1 ...) is taken both ways, the decision recorded and kept for the rest
  of the sequence when it is written over the object's (unmodified) attributes only - so a witness is one consistent configuration;
* a read of an eigen-set attribute outside the guards / writers of the transitions is a *use*; fsolve needs the full set at every use, the
  time-domain entry points the half set.

Every loop is bounded (loop bodies run 0, 1 and 2 times; call depth <= 8; configurations capped)."""

import ast

from .core import Unsupported
from .e1_srcmodel import dotted
from .e1_srcmodel import walk_no_nested as _walk_children


def walk_no_nested(node):
    """the node itself and everything below it, nested function / class bodies excluded"""
    yield node
    if not isinstance(node, (ast.Lambda,)):
        yield from _walk_children(node)

UNSET, UNK = "<unset>", "?"
MAX_CONF = 4000
# (n, N_half): n second-order equations; the full set has 2n modes, the half set keeps one of each conjugate pair (plus the real roots)
WORLDS = [(2, 2), (2, 3), (3, 4)]
# shapes of the eigen-set arrays as `_add_partition_copies` slices them: rows/cols in units ("n", "2n", "N")
SHAPES = {"lam": ("N",), "ur": ("2n", "N"), "ur_inv": ("N", "2n"), "ur_d": ("n", "N"), "ur_v": ("n", "N"), "ur_inv_v": ("N", "n"), "ur_inv_d": ("N", "n"),
          "rur_d": ("n", "N"), "iur_d": ("n", "N"), "rur_v": ("n", "N"), "iur_v": ("n", "N")}
TRANS = {"addconj": "full", "delconj": "half"}
_JUMPS = (ast.Return, ast.Raise, ast.Yield, ast.YieldFrom, ast.Break, ast.Continue)


class Conf:
    __slots__ = ("N", "flags", "dec", "bad", "seen")

    def __init__(self, N, flags=(), dec=frozenset(), bad=None, seen=frozenset()):
        self.N, self.flags, self.dec, self.bad, self.seen = N, flags, dec, bad, seen

    def key(self):
        return (self.N, self.flags, self.dec, self.bad, self.seen)

    def with_(self, **kw):
        c = Conf(self.N, self.flags, self.dec, self.bad, self.seen)
        for k, v in kw.items():
            setattr(c, k, v)
        return c

    def flag(self, path):
        for p, v in self.flags:
            if p == path:
                return v
        return None

    def set_flag(self, path, v):
        d = dict(self.flags)
        d[path] = v
        return self.with_(flags=tuple(sorted(d.items(), key=lambda kv: kv[0])))


def _is_const(v):
    return v is None or isinstance(v, (bool, int, float, str, tuple))


class Machine:
    def __init__(self, ctx, classes, world):
        self.ctx, self.world = ctx, world
        self.n, self.Nhalf = world
        self.methods = {}                       # name -> FunctionDef (derived class first)
        for rel, cls in classes:
            for q, f in sorted(ctx.src.mod(rel).funcs.items()):
                if q.startswith(cls + ".") and q.count(".") == 1 and "#" not in q:
                    self.methods.setdefault(q.split(".", 1)[1], f)
        self.class_consts = {}                  # class-level names bound to a literal (lookup tables)
        for rel, cls in reversed(list(classes)):
            node = ctx.src.mod(rel).classes.get(cls)
            for st in (node.body if node is not None else []):
                if isinstance(st, ast.Assign) and len(st.targets) == 1 and isinstance(st.targets[0], ast.Name):
                    try:
                        self.class_consts[st.targets[0].id] = ast.literal_eval(st.value)
                    except (ValueError, TypeError, SyntaxError, MemoryError, RecursionError):
                        pass
        self.alias_names = set()                # locals bound to a method of the object (solver = self._a if c else self._b; getattr(self, name))
        for f in self.methods.values():
            for x in walk_no_nested(f):
                if isinstance(x, ast.Assign) and self._mentions_method(x.value):
                    self.alias_names |= {t.id for t in x.targets if isinstance(t, ast.Name)}
        self.tested = set()                     # attribute names some test of the class reads
        for f in self.methods.values():
            for x in ast.walk(f):
                t = x.test if isinstance(x, (ast.If, ast.While, ast.IfExp)) else None
                if t is not None:
                    for y in ast.walk(t):
                        if isinstance(y, ast.Attribute):
                            self.tested.add(y.attr)
                        elif isinstance(y, ast.Call) and dotted(y.func) in ("getattr", "hasattr") and len(y.args) >= 2 and isinstance(y.args[1], ast.Constant):
                            self.tested.add(y.args[1].value)
        self._rel_cache, self._init_cache, self._eff_cache = {}, {}, {}
        self.eig = set(SHAPES)
        self.writers = set()
        self._find_writers()
        self.tested -= self.eig                 # the arrays of the eigen set are the state itself, not flags
        self.interesting = self._interesting()
        self.closure = None
        self.steps = 0

    # ------------------------------------------------------------------ static tables
    def _mentions_method(self, value):
        """the expression can evaluate to a bound method of the object: a reference self.<method> outside the function position of a call, or
        getattr(self, ...)"""
        funcs = {id(y.func) for y in ast.walk(value) if isinstance(y, ast.Call)}
        for y in ast.walk(value):
            if isinstance(y, ast.Attribute) and id(y) not in funcs and isinstance(y.value, ast.Name) and y.value.id == "self" and y.attr in self.methods:
                return True
            if isinstance(y, ast.Call) and dotted(y.func) == "getattr" and y.args and isinstance(y.args[0], ast.Name) and y.args[0].id == "self":
                return True
        return False

    def _method_refs(self, node):
        """names of the object's methods a piece of code calls or refers to"""
        for x in (walk_no_nested(node) if not isinstance(node, list) else (y for s in node for y in walk_no_nested(s))):
            if isinstance(x, ast.Attribute) and isinstance(x.value, ast.Name) and x.value.id == "self" and x.attr in self.methods:
                yield x.attr
            elif isinstance(x, ast.Call) and dotted(x.func) == "getattr" and x.args and isinstance(x.args[0], ast.Name) and x.args[0].id == "self":
                if len(x.args) >= 2 and isinstance(x.args[1], ast.Constant):
                    if x.args[1].value in self.methods:
                        yield x.args[1].value
                else:
                    tab = x.args[1].value if len(x.args) >= 2 and isinstance(x.args[1], ast.Subscript) else None
                    lit = self.class_consts.get(tab.attr) if isinstance(tab, ast.Attribute) and isinstance(tab.value, ast.Name) and tab.value.id == "self" else None
                    if isinstance(lit, dict) and all(isinstance(v, str) for v in lit.values()):
                        yield from (v for v in lit.values() if v in self.methods)      # a name looked up in a class-level table
                    else:
                        yield from self.methods            # a computed name: any method
    def _is_trans(self, call):
        d = dotted(call.func)
        if not d or d.startswith("self."):
            return None
        return TRANS.get(d.rsplit(".", 1)[-1])

    def _find_writers(self):
        """methods that write the eigen set: called in a block that also holds a transition call, or storing one of the eigen-set arrays on an object"""
        for name, f in self.methods.items():
            for x in walk_no_nested(f):
                if isinstance(x, ast.Attribute) and isinstance(x.ctx, ast.Store) and x.attr in SHAPES and dotted(x) != f"self.{x.attr}":
                    self.writers.add(name)
        block_writers = set()
        for f in self.methods.values():
            for blk in self._blocks(f):
                if any(isinstance(y, ast.Call) and self._is_trans(y) for st in blk for y in walk_no_nested(st)):
                    for st in blk:
                        for y in walk_no_nested(st):
                            if isinstance(y, ast.Call) and (dotted(y.func) or "").startswith("self.") and (dotted(y.func) or "").count(".") == 1:
                                nm = dotted(y.func)[5:]
                                if nm in self.methods and any(isinstance(a, ast.Name) for a in y.args):
                                    self.writers.add(nm)
                                    block_writers.add(nm)
        for name in sorted(block_writers):
            for x in walk_no_nested(self.methods[name]):
                if isinstance(x, ast.Attribute) and isinstance(x.ctx, ast.Store) and isinstance(x.value, ast.Name) and x.value.id != "self":
                    self.eig.add(x.attr)

    @staticmethod
    def _blocks(f):
        for x in walk_no_nested(f):
            for fld in ("body", "orelse", "finalbody"):
                b = getattr(x, fld, None)
                if isinstance(b, list) and b and isinstance(b[0], ast.stmt):
                    yield b

    def _direct_events(self, node):
        for x in walk_no_nested(node) if not isinstance(node, list) else (y for s in node for y in walk_no_nested(s)):
            if isinstance(x, ast.Call):
                if self._is_trans(x) or dotted(x.func) == "setattr":
                    return True
            elif isinstance(x, ast.Attribute):
                if isinstance(x.ctx, ast.Store) and x.attr in self.tested:
                    return True
                if isinstance(x.ctx, ast.Load) and x.attr in self.eig and not (isinstance(x.value, ast.Name) and x.value.id == "self"):
                    return True
        return False

    def _interesting(self):
        out = {n for n, f in self.methods.items() if self._direct_events(f)}
        for _ in range(len(self.methods) + 1):
            grew = False
            for n, f in self.methods.items():
                if n in out:
                    continue
                if any(r in out for r in self._method_refs(f)):
                    out.add(n)
                    grew = True
            if not grew:
                break
        return out

    def _relevant(self, stmts):
        k = tuple(id(s) for s in stmts)
        if k not in self._rel_cache:
            self._rel_cache[k] = self._relevant0(stmts)
        return self._rel_cache[k]

    def _relevant0(self, stmts):
        for s in stmts:
            for x in walk_no_nested(s):
                if isinstance(x, _JUMPS):
                    return True
                if isinstance(x, ast.Call) and isinstance(x.func, ast.Name) and x.func.id in self.alias_names:
                    return True
        if any(r in self.interesting for r in self._method_refs(stmts)):
            return True
        return self._direct_events(stmts)

    def set_closure(self, entries):
        seen, todo = set(), list(entries)
        while todo:
            n = todo.pop()
            if n in seen or n not in self.methods:
                continue
            seen.add(n)
            todo.extend(self._method_refs(self.methods[n]))
        self.closure = seen

    def initial_flag(self, attr):
        if attr not in self._init_cache:
            self._init_cache[attr] = self._initial_flag0(attr)
        return self._init_cache[attr]

    def _initial_flag0(self, attr):
        """value of a flag attribute before the first entry point runs: what the code outside the followed closure stores"""
        vals = []
        outside = [n for n in self.methods if n not in self.closure]
        shared = set()                  # followed methods that the code outside the closure (constructor ...) calls too: what they store is unknown at the start
        for n in outside:
            for x in walk_no_nested(self.methods[n]):
                if isinstance(x, ast.Call) and (dotted(x.func) or "").startswith("self.") and dotted(x.func)[5:] in self.closure:
                    shared.add(dotted(x.func)[5:])
        for _ in range(len(self.methods)):
            more = {dotted(x.func)[5:] for n in shared for x in walk_no_nested(self.methods[n])
                    if isinstance(x, ast.Call) and (dotted(x.func) or "").startswith("self.") and dotted(x.func)[5:] in self.closure} - shared
            if not more:
                break
            shared |= more
        for n in sorted(shared):
            for x in walk_no_nested(self.methods[n]):
                if (isinstance(x, ast.Attribute) and isinstance(x.ctx, ast.Store) and x.attr == attr) or \
                        (isinstance(x, ast.Call) and dotted(x.func) == "setattr" and len(x.args) == 3 and isinstance(x.args[1], ast.Constant) and x.args[1].value == attr):
                    vals.append(UNK)
        for n in outside:
            f = self.methods[n]
            for x in walk_no_nested(f):
                if isinstance(x, ast.Call):
                    for kw in x.keywords:
                        if kw.arg == attr and not (dotted(x.func) or "").startswith("self."):      # SimpleNamespace(flag=...)
                            vals.append(kw.value.value if isinstance(kw.value, ast.Constant) else UNK)
                if isinstance(x, ast.Assign):
                    for t in x.targets:
                        if isinstance(t, ast.Attribute) and t.attr == attr:
                            vals.append(x.value.value if isinstance(x.value, ast.Constant) else UNK)
                elif isinstance(x, (ast.AugAssign, ast.AnnAssign)) and isinstance(x.target, ast.Attribute) and x.target.attr == attr:
                    vals.append(UNK)
                elif isinstance(x, ast.Call) and dotted(x.func) == "setattr" and len(x.args) == 3 and isinstance(x.args[1], ast.Constant) and x.args[1].value == attr:
                    vals.append(x.args[2].value if isinstance(x.args[2], ast.Constant) else UNK)
        if not vals:
            return UNSET
        return vals[0] if all(type(v) is type(vals[0]) and v == vals[0] for v in vals) else UNK

    # ------------------------------------------------------------------ values
    def size(self, unit, c):
        return {"n": self.n, "2n": 2 * self.n, "N": c.N}[unit]

    def read_flag(self, c, path, default=UNK):
        v = c.flag(path)
        if v == UNK:
            raise Unsupported(f"conjugate-set typestate: `{path}` is tested after the followed code stored a computed value in it")
        if v is None:
            v = self.initial_flag(path.rsplit(".", 1)[-1])
        if v == UNSET:
            return default
        return v

    def ev(self, node, loc, c):
        """value of an expression: a constant, ("path", "self.a.b"), or UNK"""
        if isinstance(node, ast.Constant):
            return node.value
        if isinstance(node, ast.Name):
            return loc.get(node.id, UNK) if node.id != "self" else ("path", "self")
        if isinstance(node, ast.Attribute):
            b = self.ev(node.value, loc, c)
            if isinstance(b, tuple) and len(b) == 2 and b[0] == "path":
                p = b[1] + "." + node.attr
                if b[1] == "self" and node.attr in self.class_consts and node.attr not in self.methods and not self._stored_anywhere(node.attr):
                    return ("lit", self.class_consts[node.attr])
                if node.attr == "shape" and b[1].rsplit(".", 1)[-1] in SHAPES and b[1].count(".") == 2:
                    return ("shape",) + tuple(self.size(u, c) for u in SHAPES[b[1].rsplit(".", 1)[-1]])
                if node.attr == "size" and b[1].rsplit(".", 1)[-1] in SHAPES and b[1].count(".") == 2:
                    r = 1
                    for u in SHAPES[b[1].rsplit(".", 1)[-1]]:
                        r *= self.size(u, c)
                    return r
                if node.attr in self.tested and (c.flag(p) is not None or self._stored_in_closure(node.attr)):
                    v = self.read_flag(c, p)
                    return v
                return ("path", p)
            return UNK
        if isinstance(node, ast.Subscript):
            b = self.ev(node.value, loc, c)
            i = self.ev(node.slice, loc, c)
            if isinstance(b, tuple) and b and b[0] == "shape" and isinstance(i, int) and not isinstance(i, bool) and -len(b) + 1 <= i < len(b) - 1:
                return b[1:][i]
            if isinstance(b, tuple) and len(b) == 2 and b[0] == "lit" and i != UNK and not isinstance(i, tuple):
                try:
                    r = b[1][i]
                except (KeyError, IndexError, TypeError):
                    return UNK
                return r if r is None or isinstance(r, (bool, int, str)) else ("lit", r)
            return UNK
        if isinstance(node, ast.UnaryOp):
            v = self.ev(node.operand, loc, c)
            if isinstance(node.op, ast.Not):
                t = self.truth_of(v)
                return UNK if t is None else (not t)
            if isinstance(node.op, ast.USub) and isinstance(v, (int, float)) and not isinstance(v, bool):
                return -v
            return UNK
        if isinstance(node, ast.BinOp):
            a, b = self.ev(node.left, loc, c), self.ev(node.right, loc, c)
            if all(isinstance(x, int) and not isinstance(x, bool) for x in (a, b)):
                try:
                    if isinstance(node.op, ast.Add):
                        return a + b
                    if isinstance(node.op, ast.Sub):
                        return a - b
                    if isinstance(node.op, ast.Mult):
                        return a * b
                    if isinstance(node.op, ast.FloorDiv):
                        return a // b
                    if isinstance(node.op, ast.Mod):
                        return a % b
                except ZeroDivisionError:
                    return UNK
            return UNK
        if isinstance(node, ast.Compare) and len(node.ops) == 1:
            a, b = self.ev(node.left, loc, c), self.ev(node.comparators[0], loc, c)
            op = node.ops[0]
            conc = lambda x: (_is_const(x) and x not in (UNK, UNSET)) and not (isinstance(x, tuple) and x and x[0] in ("path", "shape", "lit"))
            if conc(a) and conc(b):
                if isinstance(op, (ast.Is, ast.IsNot)):
                    if a is None or b is None or isinstance(a, bool) or isinstance(b, bool):
                        r = a is b
                        return r if isinstance(op, ast.Is) else not r
                    return UNK
                try:
                    if isinstance(op, ast.Eq):
                        return a == b
                    if isinstance(op, ast.NotEq):
                        return a != b
                    if isinstance(a, bool) or isinstance(b, bool) or a is None or b is None:
                        return UNK
                    if isinstance(op, ast.Lt):
                        return a < b
                    if isinstance(op, ast.LtE):
                        return a <= b
                    if isinstance(op, ast.Gt):
                        return a > b
                    if isinstance(op, ast.GtE):
                        return a >= b
                except TypeError:
                    return UNK
            return UNK
        if isinstance(node, ast.Call):
            d = dotted(node.func)
            if d == "getattr" and len(node.args) == 2 and not isinstance(node.args[1], ast.Constant):
                b, nm = self.ev(node.args[0], loc, c), self.ev(node.args[1], loc, c)
                if b == ("path", "self") and isinstance(nm, str) and nm in self.methods:
                    return ("path", "self." + nm)
                return UNK
            if d in ("getattr", "hasattr") and len(node.args) >= 2 and isinstance(node.args[1], ast.Constant) and isinstance(node.args[1].value, str):
                b = self.ev(node.args[0], loc, c)
                if b == ("path", "self") and node.args[1].value in self.methods:
                    return ("path", "self." + node.args[1].value)
                if isinstance(b, tuple) and len(b) == 2 and b[0] == "path":
                    p = b[1] + "." + node.args[1].value
                    raw = c.flag(p)
                    if raw == UNK:
                        raise Unsupported(f"conjugate-set typestate: `{p}` is tested after the followed code stored a computed value in it")
                    if raw is None:
                        raw = self.initial_flag(node.args[1].value)       # (an attribute no method of the class ever stores is unset: the default applies)
                    if d == "hasattr":
                        return UNK if raw == UNK else raw != UNSET
                    if raw == UNSET:
                        return self.ev(node.args[2], loc, c) if len(node.args) == 3 else UNK
                    return raw
                return UNK
            if d == "len" and len(node.args) == 1:
                b = self.ev(ast.Attribute(value=node.args[0], attr="shape", ctx=ast.Load()), loc, c)
                return b[1] if isinstance(b, tuple) and b and b[0] == "shape" else UNK
            if d in ("np.size", "numpy.size", "np.shape", "numpy.shape") and node.args:
                b = self.ev(ast.Attribute(value=node.args[0], attr="shape", ctx=ast.Load()), loc, c)
                if isinstance(b, tuple) and b and b[0] == "shape":
                    if d.endswith("shape"):
                        return b
                    if len(node.args) == 2:
                        i = self.ev(node.args[1], loc, c)
                        return b[1:][i] if isinstance(i, int) and not isinstance(i, bool) and 0 <= i < len(b) - 1 else UNK
                    r = 1
                    for x in b[1:]:
                        r *= x
                    return r
                return UNK
            if d == "bool" and len(node.args) == 1:
                v = self.ev(node.args[0], loc, c)
                t = self.truth_of(v)
                if t is None and isinstance(v, tuple) and len(v) == 2 and v[0] == "path":
                    t = dict(c.dec).get(v[1])           # a configuration test already decided on this path
                return UNK if t is None else t
            return UNK
        if isinstance(node, ast.BoolOp):
            vals = [self.truth_of(self.ev(v, loc, c)) for v in node.values]
            if isinstance(node.op, ast.And):
                if any(v is False for v in vals):
                    return False
                return True if all(v is True for v in vals) else UNK
            if any(v is True for v in vals):
                return True
            return False if all(v is False for v in vals) else UNK
        return UNK

    _sic = None
    _saw = None

    def _stored_anywhere(self, attr):
        if self._saw is None:
            self._saw = {x.attr for f in self.methods.values() for x in walk_no_nested(f) if isinstance(x, ast.Attribute) and isinstance(x.ctx, ast.Store)}
        return attr in self._saw

    def _stored_in_closure(self, attr):
        if self._sic is None:
            s = set()
            for n in self.closure:
                for x in walk_no_nested(self.methods[n]):
                    if isinstance(x, ast.Attribute) and isinstance(x.ctx, ast.Store):
                        s.add(x.attr)
                    elif isinstance(x, ast.Call) and dotted(x.func) == "setattr" and len(x.args) == 3 and isinstance(x.args[1], ast.Constant):
                        s.add(x.args[1].value)
            self._sic = s
        return attr in self._sic

    @staticmethod
    def truth_of(v):
        if v == UNK or v == UNSET:
            return None
        if isinstance(v, tuple) and v and v[0] in ("path", "shape", "lit"):
            return None if v[0] != "shape" else True
        return bool(v)

    def canon(self, node, loc):
        """text of a test over the object's attributes only (locals resolved), None when it involves anything local"""
        if isinstance(node, ast.Constant):
            return repr(node.value)
        if isinstance(node, ast.Name):
            if node.id == "self":
                return "self"
            if node.id in loc:
                v = loc[node.id]
                if isinstance(v, tuple) and len(v) == 2 and v[0] == "path":
                    return v[1]
                return repr(v) if v != UNK and _is_const(v) else None
            return None if node.id in loc.get("<assigned>", ()) else node.id
        if isinstance(node, ast.Attribute):
            b = self.canon(node.value, loc)
            return None if b is None else f"{b}.{node.attr}"
        if isinstance(node, ast.Compare) and len(node.ops) == 1:
            a, b = self.canon(node.left, loc), self.canon(node.comparators[0], loc)
            return None if a is None or b is None else f"({a} {type(node.ops[0]).__name__} {b})"
        if isinstance(node, ast.Subscript):
            a, b = self.canon(node.value, loc), self.canon(node.slice, loc)
            return None if a is None or b is None else f"{a}[{b}]"
        if isinstance(node, ast.Call) and dotted(node.func) == "getattr" and len(node.args) >= 2 and isinstance(node.args[1], ast.Constant) and not node.keywords:
            b = self.canon(node.args[0], loc)
            return None if b is None else f"{b}.{node.args[1].value}"
        if isinstance(node, ast.Call) and not node.keywords and dotted(node.func) in ("len", "np.size", "bool", "np.any", "np.all"):
            xs = [self.canon(a, loc) for a in node.args]
            return None if any(x is None for x in xs) else f"{dotted(node.func)}({', '.join(xs)})"
        return None

    # ------------------------------------------------------------------ execution
    def tick(self):
        self.steps += 1
        if self.steps > 400000:
            raise Unsupported("conjugate-set typestate: step budget exhausted")

    def branches(self, test, loc, c):
        """[(conf, truth)] of a test: decided by value where possible, otherwise both ways (decision recorded when the test is over the object only)"""
        self.tick()
        if isinstance(test, ast.UnaryOp) and isinstance(test.op, ast.Not):
            return [(c2, not t) for c2, t in self.branches(test.operand, loc, c)]
        if isinstance(test, ast.BoolOp):
            is_and = isinstance(test.op, ast.And)
            live, out = [c], []
            for v in test.values:
                nxt = []
                for c1 in live:
                    for c2, t in self.branches(v, loc, c1):
                        if t is (not is_and):
                            out.append((c2, t))
                        else:
                            nxt.append(c2)
                live = nxt
            out.extend((c1, is_and) for c1 in live)
            return out
        t = self.truth_of(self.ev(test, loc, c))
        if t is not None:
            return [(c, t)]
        k = self.canon(test, loc)
        if k is not None:
            for kk, b in c.dec:
                if kk == k:
                    return [(c, b)]
            return [(c.with_(dec=c.dec | {(k, True)}), True), (c.with_(dec=c.dec | {(k, False)}), False)]
        return [(c, True), (c, False)]

    def effects(self, node, loc, c, fr, observe=True):
        """the calls and eigen-set reads of one expression in evaluation order -> [conf]"""
        confs = [c]
        if node is None:
            return confs
        if isinstance(node, ast.BoolOp) and len(node.values) >= 2 and any(self._has_call_effect(v) for v in node.values[1:]):
            # `a and f()` / `a or f()` as a statement: f runs only when the operands before it let it
            is_and = isinstance(node.op, ast.And)
            live, out = [c], []
            for i, v in enumerate(node.values):
                nxt = []
                for c1 in live:
                    for c2 in self.effects(v, loc, c1, fr, observe):
                        if i == len(node.values) - 1:
                            out.append(c2)
                            continue
                        for c3, t in self.branches(v, loc, c2):
                            (nxt if t is is_and else out).append(c3)
                live = self.dedupe(nxt)
            return self.dedupe(out)
        if isinstance(node, ast.IfExp) and (self._has_call_effect(node.body) or self._has_call_effect(node.orelse)):
            out = []
            for c1 in self.effects(node.test, loc, c, fr, observe):
                for c2, t in self.branches(node.test, loc, c1):
                    out.extend(self.effects(node.body if t else node.orelse, loc, c2, fr, observe))
            return self.dedupe(out)
        for x in self._effect_nodes(node):
            nxt = []
            for c1 in confs:
                nxt.extend(self.effect(x, loc, c1, fr, observe))
            confs = self.dedupe(nxt)
        return confs

    def _computed_callee(self, call):
        """the function position is an expression that can evaluate to a method of the object: (self.a if c else self.b)(...), getattr(self, n)(...)"""
        return not isinstance(call.func, (ast.Name, ast.Attribute)) and self._mentions_method(call.func)

    def _has_call_effect(self, node):
        for x in walk_no_nested(node):
            if isinstance(x, ast.Call):
                d = dotted(x.func) or ""
                if self._is_trans(x) or d == "setattr" or (d.startswith("self.") and d.count(".") == 1 and d[5:] in self.interesting) or \
                        (isinstance(x.func, ast.Name) and x.func.id in self.alias_names) or self._computed_callee(x):
                    return True
        return False

    def callee(self, func, loc, c):
        """[(conf, method name | None)] for a computed function position"""
        if isinstance(func, ast.IfExp):
            return [r for c2, t in self.branches(func.test, loc, c) for r in self.callee(func.body if t else func.orelse, loc, c2)]
        v = self.ev(func, loc, c)
        if isinstance(v, tuple) and len(v) == 2 and v[0] == "path" and v[1].startswith("self.") and v[1][5:] in self.methods:
            return [(c, v[1][5:])]
        raise Unsupported("conjugate-set typestate: a computed function position that is not resolved to a method")

    def _effect_nodes(self, node):
        if id(node) not in self._eff_cache:
            self._eff_cache[id(node)] = (node, self._effect_nodes0(node))
        return self._eff_cache[id(node)][1]

    def _effect_nodes0(self, node):
        out, skip = [], set()

        def rec(x, guarded):
            if isinstance(x, (ast.Lambda, ast.FunctionDef, ast.AsyncFunctionDef, ast.ClassDef)):
                return
            if isinstance(x, ast.Call) and self._is_trans(x):
                for ch in ast.iter_child_nodes(x):
                    for y in ast.walk(ch):
                        skip.add(id(y))
            # a size query reads no mode of the set: not a use
            if isinstance(x, ast.Attribute) and x.attr in ("shape", "size", "ndim") and isinstance(x.value, ast.Attribute):
                skip.add(id(x.value))
            if isinstance(x, ast.Call) and dotted(x.func) in ("len", "np.size", "numpy.size", "np.shape", "numpy.shape", "np.ndim") and x.args and isinstance(x.args[0], ast.Attribute):
                skip.add(id(x.args[0]))
            short = isinstance(x, (ast.IfExp, ast.BoolOp, ast.ListComp, ast.SetComp, ast.DictComp, ast.GeneratorExp))
            for ch in ast.iter_child_nodes(x):
                rec(ch, guarded or short)
            if isinstance(x, ast.Call):
                d = dotted(x.func) or ""
                if self._is_trans(x) or d == "setattr" or (d.startswith("self.") and d.count(".") == 1 and d[5:] in self.interesting) or \
                        (isinstance(x.func, ast.Name) and x.func.id in self.alias_names) or self._computed_callee(x):
                    if guarded:
                        raise Unsupported("conjugate-set typestate: a state-changing call inside a conditional expression / comprehension")
                    out.append(x)
            elif isinstance(x, ast.Attribute) and isinstance(x.ctx, ast.Load) and x.attr in self.eig and id(x) not in skip:
                out.append(x)
        rec(node, False)
        return out

    def effect(self, x, loc, c, fr, observe):
        self.tick()
        if isinstance(x, ast.Attribute):
            b = self.ev(x.value, loc, c)
            if observe and fr["observe"] and isinstance(b, tuple) and len(b) == 2 and b[0] == "path" and b[1] == fr["pc"] and c.bad is None:
                want = fr["want"]
                have = "full" if c.N == 2 * self.n else "half"
                c = c.with_(seen=c.seen | {fr["entry"]})
                if have != want:
                    c = c.with_(bad=(fr["entry"], x.attr, have, x.lineno))
            return [c]
        d = dotted(x.func) or ""
        tr = self._is_trans(x)
        if tr:
            return [c.with_(N=2 * self.n if tr == "full" else self.Nhalf)]
        if d == "setattr":
            b = self.ev(x.args[0], loc, c) if x.args else UNK
            if not (isinstance(b, tuple) and len(b) == 2 and b[0] == "path"):
                return [c]                      # an object of the call's own (a result record ...): not the solver's state
            if len(x.args) == 3 and isinstance(x.args[1], ast.Constant) and isinstance(x.args[1].value, str):
                if x.args[1].value not in self.tested:
                    return [c]
                v = self.ev(x.args[2], loc, c)
                return [c.set_flag(b[1] + "." + x.args[1].value, v if _is_const(v) and not isinstance(v, tuple) else UNK)]
            raise Unsupported("conjugate-set typestate: setattr on the solver's state with a computed name")
        if self._computed_callee(x):
            out = []
            for c2, name in self.callee(x.func, loc, c):
                out.extend(self.call_method(name, x, loc, c2, fr) if name in self.interesting else [c2])
            return out
        if isinstance(x.func, ast.Name):
            v = loc.get(x.func.id, UNK)
            if isinstance(v, tuple) and len(v) == 2 and v[0] == "path" and v[1].startswith("self.") and v[1][5:] in self.methods:
                return self.call_method(v[1][5:], x, loc, c, fr) if v[1][5:] in self.interesting else [c]
            if x.func.id not in loc.get("<assigned>", ()):
                return [c]                      # a module-level function of the same name
            raise Unsupported(f"conjugate-set typestate: call through the local name `{x.func.id}` that is not resolved to a method")
        return self.call_method(d[5:], x, loc, c, fr)

    def call_method(self, name, call, loc, c, fr):
        if fr["depth"] >= 8 or name in fr["stack"]:
            raise Unsupported(f"conjugate-set typestate: call depth / recursion at {name}")
        f = self.methods[name]
        a = f.args
        params = [p.arg for p in a.posonlyargs + a.args][1:]
        new = {}
        defaults = dict(zip(params[len(params) - len(a.defaults):], a.defaults)) if a.defaults else {}
        for p in params:
            new[p] = self.ev(defaults[p], {}, c) if p in defaults else UNK
        if call is not None:
            for p, arg in zip(params, call.args):
                if isinstance(arg, ast.Starred):
                    break                       # positions after *args are not known
                new[p] = self.ev(arg, loc, c)
            for kw in call.keywords:
                if kw.arg in new:
                    new[kw.arg] = self.ev(kw.value, loc, c)
        for p in [k.arg for k in a.kwonlyargs] + ([a.vararg.arg] if a.vararg else []) + ([a.kwarg.arg] if a.kwarg else []):
            new.setdefault(p, UNK)
        new["<assigned>"] = self._cached("assigned", f, lambda: frozenset(t.id for t in walk_no_nested(f) if isinstance(t, ast.Name) and isinstance(t.ctx, ast.Store))) | frozenset(new)
        fr2 = dict(fr, depth=fr["depth"] + 1, stack=fr["stack"] | {name}, observe=fr["observe"] and name not in self.writers)
        out = self.block(f.body, [(c, new)], fr2)
        return self.dedupe([c2 for c2, _l, _s in out])

    @staticmethod
    def dedupe(confs):
        seen, out = set(), []
        for c in confs:
            k = c.key()
            if k not in seen:
                seen.add(k)
                out.append(c)
        if len(out) > MAX_CONF:
            raise Unsupported("conjugate-set typestate: too many configurations")
        return out

    @staticmethod
    def dedupe_l(items):
        seen, out = set(), []
        for c, l, s in items:
            k = (c.key(), tuple(sorted((a, repr(b)) for a, b in l.items())), s)
            if k not in seen:
                seen.add(k)
                out.append((c, l, s))
        if len(out) > MAX_CONF:
            raise Unsupported("conjugate-set typestate: too many configurations")
        return out

    def block(self, stmts, live, fr):
        """live: [(conf, locals)] -> [(conf, locals, status)] with status in next / return / break / continue"""
        done = []
        live = [(c, l, "next") for c, l in live]
        for st in stmts:
            if not live:
                break
            nxt = []
            for c, l, _ in live:
                for r in self.stmt(st, l, c, fr):
                    (nxt if r[2] == "next" else done).append(r)
            live = self.dedupe_l(nxt)
        return self.dedupe_l(done + live)

    def _kill(self, loc, stmts):
        k = ("kill",) + tuple(id(s) for s in stmts)
        if k not in self._rel_cache:
            self._rel_cache[k] = sorted({x.id for s in stmts for x in walk_no_nested(s) if isinstance(x, ast.Name) and isinstance(x.ctx, ast.Store)})
        l = dict(loc)
        for n in self._rel_cache[k]:
            l[n] = UNK
        return l

    def _cached(self, tag, node, fn):
        k = (tag, id(node))
        if k not in self._rel_cache:
            self._rel_cache[k] = fn()
        return self._rel_cache[k]

    def stmt(self, st, loc, c, fr):
        self.tick()
        if isinstance(st, (ast.Pass, ast.Import, ast.ImportFrom, ast.Global, ast.Nonlocal, ast.Assert, ast.Delete, ast.FunctionDef, ast.ClassDef)):
            if isinstance(st, (ast.FunctionDef, ast.ClassDef)) and self._relevant(st.body):
                raise Unsupported("conjugate-set typestate: state-changing code in a nested function")
            return [(c, loc, "next")]
        if isinstance(st, ast.Raise):
            return []
        if isinstance(st, ast.Return):
            return [(c2, loc, "return") for c2 in self.effects(st.value, loc, c, fr)]
        if isinstance(st, ast.Expr):
            if isinstance(st.value, (ast.Yield, ast.YieldFrom)):
                return [(c2, loc, "return") for c2 in self.effects(st.value.value, loc, c, fr)]
            return [(c2, loc, "next") for c2 in self.effects(st.value, loc, c, fr)]
        if isinstance(st, (ast.Break, ast.Continue)):
            return [(c, loc, "break" if isinstance(st, ast.Break) else "continue")]
        if isinstance(st, (ast.Assign, ast.AnnAssign, ast.AugAssign)):
            value = st.value
            if isinstance(value, (ast.Yield, ast.YieldFrom)):
                return [(c2, loc, "return") for c2 in self.effects(value.value, loc, c, fr)]
            out = []
            targets = st.targets if isinstance(st, ast.Assign) else [st.target]
            if isinstance(value, ast.IfExp) and isinstance(st, ast.Assign) and not self._has_call_effect(value):
                out = []
                for c1 in self.effects(value.test, loc, c, fr):
                    for c2, t in self.branches(value.test, loc, c1):
                        arm = ast.copy_location(ast.Assign(targets=st.targets, value=value.body if t else value.orelse), st)
                        out.extend(self.stmt(arm, loc, c2, fr))
                return out
            confs = self.effects(value, loc, c, fr)
            for t in targets:
                if not isinstance(t, (ast.Name, ast.Attribute)):
                    confs = self.dedupe([c3 for c2 in confs for c3 in self.effects(t, loc, c2, fr)])
            for c2 in confs:
                l = dict(loc)
                v = self.ev(value, loc, c2) if value is not None and not isinstance(st, ast.AugAssign) else UNK
                for t in targets:
                    if isinstance(t, ast.Name):
                        l[t.id] = v if (_is_const(v) and (not isinstance(v, tuple) or (len(v) == 2 and v[0] == "path"))) else UNK
                    elif isinstance(t, ast.Attribute):
                        b = self.ev(t.value, loc, c2)
                        if isinstance(b, tuple) and len(b) == 2 and b[0] == "path":
                            if t.attr in self.tested:
                                c2 = c2.set_flag(b[1] + "." + t.attr, v if _is_const(v) and not isinstance(v, tuple) else UNK)
                    else:
                        for x in ast.walk(t):
                            if isinstance(x, ast.Name) and isinstance(x.ctx, ast.Store):
                                l[x.id] = UNK
                        if isinstance(t, (ast.Tuple, ast.List)) and isinstance(value, (ast.Tuple, ast.List)) and len(t.elts) == len(value.elts) \
                                and not any(isinstance(e, ast.Starred) for e in t.elts + value.elts):
                            for te, ve in zip(t.elts, value.elts):      # a, b = x, y
                                if isinstance(te, ast.Name):
                                    w = self.ev(ve, loc, c2)
                                    l[te.id] = w if (_is_const(w) and (not isinstance(w, tuple) or (len(w) == 2 and w[0] == "path"))) else UNK
                out.append((c2, l, "next"))
            return out
        if isinstance(st, ast.If):
            guards_trans = self._cached("gt", st, lambda: any(isinstance(y, ast.Call) and self._is_trans(y) for s in st.body + st.orelse for y in walk_no_nested(s)))
            rel = self._relevant(st.body) or self._relevant(st.orelse)
            out = []
            for c1 in self.effects(st.test, loc, c, fr, observe=not guards_trans):
                if not rel:
                    out.append((c1, self._kill(loc, st.body + st.orelse), "next"))
                    continue
                for c2, t in self.branches(st.test, loc, c1):
                    out.extend(self.block(st.body if t else st.orelse, [(c2, loc)], fr))
            return out
        if isinstance(st, (ast.For, ast.AsyncFor, ast.While)):
            head = st.iter if not isinstance(st, ast.While) else st.test
            body = st.body
            if not self._relevant(body) and not self._relevant(st.orelse):
                return [(c1, self._kill(loc, body + st.orelse + [st]), "next") for c1 in self.effects(head, loc, c, fr)]
            out = []
            live = [(c1, self._kill(loc, body + [st])) for c1 in self.effects(head, loc, c, fr)]
            out.extend((c1, l, "next") for c1, l in live)            # zero iterations
            for _ in range(2):
                nxt = []
                for c1, l, s in self.block(body, live, fr):
                    if s == "return":
                        out.append((c1, l, s))
                    else:
                        out.append((c1, l, "next"))
                        if s != "break":
                            nxt.append((c1, l))
                live = nxt
            return self.dedupe_l(out)
        if isinstance(st, (ast.With, ast.AsyncWith)):
            confs = [c]
            for it in st.items:
                confs = [c2 for c1 in confs for c2 in self.effects(it.context_expr, loc, c1, fr)]
            return self.block(st.body, [(c1, self._kill(loc, [st])) for c1 in confs], fr)
        if isinstance(st, ast.Try):
            if any(self._relevant(h.body) for h in st.handlers):
                raise Unsupported("conjugate-set typestate: state-changing code in an exception handler")
            out = []
            for c1, l, s in self.block(st.body + st.orelse, [(c, loc)], fr):
                if st.finalbody:
                    for c2, l2, s2 in self.block(st.finalbody, [(c1, l)], fr):
                        out.append((c2, l2, s if s2 == "next" else s2))
                else:
                    out.append((c1, l, s))
            return out
        if self._relevant([st]):
            raise Unsupported(f"conjugate-set typestate: statement {type(st).__name__}")
        return [(c, self._kill(loc, [st]), "next")]

    def run_entry(self, name, want, c, pc_path):
        fr = {"depth": 0, "stack": frozenset(), "observe": True, "pc": pc_path, "want": want, "entry": name}
        return self.call_method(name, None, {}, c, fr)


def analyse(ctx, classes, entries, pc_path="self.pc", maxlen=3, fixed=None):
    """entries: {name: required set}.  Returns per world: {"witness": {initial: (sequence, bad, decisions) | None}, "seen": set of entry points with
    a use reached}"""
    res = []
    m = Machine(ctx, classes, WORLDS[0])
    missing = [e for e in entries if e not in m.methods]
    if missing:
        raise Unsupported(f"conjugate-set typestate: entry point(s) {missing} not found")
    m.set_closure(entries)
    # the configuration the clause is about (a coupled system with elastic modes); a test the code spells differently is simply taken both ways
    fixed = frozenset(fixed or ())
    for world in WORLDS:
        m.world = world
        m.n, m.Nhalf = world
        m.steps = 0
        wit, seen = {}, set()
        for init, N in (("full", 2 * world[0]), ("half", world[1])):
            frontier = [((), Conf(N, dec=fixed))]
            found = None
            memo = {}
            for depth in range(maxlen):
                nxt = []
                for seq, c in frontier:
                    for e in entries:
                        base = c.with_(seen=frozenset())
                        k = (e, base.key())
                        if k not in memo:
                            memo[k] = m.run_entry(e, entries[e], base, pc_path)
                        for c2 in memo[k]:
                            seen |= c2.seen
                            if c2.bad is not None and found is None:
                                found = (seq + (e,), c2.bad, sorted(c2.dec))
                            if c2.bad is None:
                                nxt.append((seq + (e,), c2))
                if found:
                    break
                # one representative sequence per distinct abstract state
                uniq = {}
                for seq, c in nxt:
                    uniq.setdefault(c.with_(seen=frozenset()).key(), (seq, c))
                frontier = list(uniq.values())
                if len(frontier) > MAX_CONF:
                    raise Unsupported("conjugate-set typestate: too many configurations")
            wit[init] = found
        res.append({"world": world, "witness": wit, "seen": seen})
    return res
