"""C06 -- element-level evaluation of small dense matrix code (cb.cgmass).

The other C06 rules treat arrays as objects whose rows are selected by symbolic index vectors.  cgmass is different: a 6x6 matrix of fixed shape,
constant subscripts, 3x3 literals built from scalar formulas.  This module runs such a function on a matrix whose entries are exact rational
functions (verifier/e2_formula.py): arrays are dense, of concrete shape, views share storage (`I = mcg[3:, 3:]`, `mcg[:3, 3:] -= Md`), scalars
are `Rat`s, so a result is a table of polynomials that is compared with the expected table by exact algebra - spelling, association, named
temporaries, `x * x` for `x ** 2`, loops over range(3), helper functions and matrix products do not matter.

What cannot be followed is never guessed: `Unsupported` (the rule turns it into an analysis error, exit 2), or the value `Unknown` which absorbs
everything computed from it (an obligation that meets it is an analysis error as well)."""
from __future__ import annotations

import ast
import itertools
from fractions import Fraction

from . import e2_formula as F
from .core import Unsupported


class _Unknown:
    __slots__ = ("why",)

    def __init__(self, why=""):
        self.why = why

    def __repr__(self):
        return f"Unknown({self.why})"


def unknown(why=""):
    return _Unknown(str(why)[:60])


def is_unknown(v):
    return isinstance(v, _Unknown)


def is_num(v):
    return isinstance(v, F.Rat)


class Raised(Exception):
    """the evaluated code raises on a path where every test was decided"""

    def __init__(self, node):
        super().__init__(ast.unparse(node)[:100])
        self.node = node


class IxList:
    """positions selected along one axis by an integer list (copy semantics)"""

    def __init__(self, pos, open_mesh=None):
        self.pos = list(pos)


class Arr:
    """dense array of concrete shape; `offs` (row-major) are positions in the shared storage `base`"""
    __slots__ = ("base", "shape", "offs", "frozen")

    def __init__(self, base, shape, offs):
        self.base, self.shape, self.offs = base, tuple(shape), list(offs)
        self.frozen = False

    @staticmethod
    def new(shape, cells):
        cells = list(cells)
        n = 1
        for s in shape:
            n *= s
        if len(cells) != n:
            raise Unsupported(f"array of shape {tuple(shape)} from {len(cells)} cells")
        return Arr(cells, shape, range(n))

    @property
    def ndim(self):
        return len(self.shape)

    @property
    def size(self):
        return len(self.offs)

    def cells(self):
        return [self.base[o] for o in self.offs]

    def copy(self):
        return Arr.new(self.shape, self.cells())

    def rows(self):
        """nested lists of cells"""
        def go(shape, cells):
            if len(shape) == 1:
                return list(cells)
            step = len(cells) // shape[0] if shape[0] else 0
            return [go(shape[1:], cells[i * step:(i + 1) * step]) for i in range(shape[0])]
        return go(self.shape, self.cells()) if self.shape else self.cells()[0]

    def T(self):
        if self.ndim < 2:
            return Arr(self.base, self.shape, self.offs)
        if self.ndim != 2:
            raise Unsupported("transpose of an array with more than two axes")
        r, c = self.shape
        return Arr(self.base, (c, r), [self.offs[i * c + j] for j in range(c) for i in range(r)])

    def _select(self, index):
        if not isinstance(index, tuple):
            index = (index,)
        used = sum(1 for ix in index if ix is not None and ix is not Ellipsis)
        if sum(1 for ix in index if ix is Ellipsis) > 1 or used > self.ndim:
            raise Unsupported("too many indices")
        if any(ix is Ellipsis for ix in index):
            k = [i for i, ix in enumerate(index) if ix is Ellipsis][0]
            index = index[:k] + (slice(None),) * (self.ndim - used) + index[k + 1:]
        else:
            index = index + (slice(None),) * (self.ndim - used)
        new_axes = []          # positions (in the result, among the kept axes) of the axes np.newaxis inserts
        kept = 0
        plain = []
        for ix in index:
            if ix is None:
                new_axes.append(kept + len(new_axes))
            else:
                plain.append(ix)
                if not isinstance(ix, int) or isinstance(ix, bool):
                    kept += 1
        index = tuple(plain)
        per, fancy = [], 0
        for n, ix in zip(self.shape, index):
            if isinstance(ix, bool):
                raise Unsupported("boolean scalar index")
            if isinstance(ix, int):
                if ix < 0:
                    ix += n
                if not 0 <= ix < n:
                    raise Unsupported("index out of range")
                per.append(([ix], False))
            elif isinstance(ix, slice):
                per.append((list(range(n))[ix], True))
            elif isinstance(ix, IxList):
                pos = [p + n if p < 0 else p for p in ix.pos]
                if any(not 0 <= p < n for p in pos):
                    raise Unsupported("index out of range")
                per.append((pos, True))
                fancy += 1
            else:
                raise Unsupported(f"subscript {type(ix).__name__}")
        if fancy > 1:
            raise Unsupported("pointwise integer-array indexing on two axes")
        strides, s = [], 1
        for n in reversed(self.shape):
            strides.append(s)
            s *= n
        strides.reverse()
        shape = [len(p) for p, keep in per if keep]
        for k in new_axes:
            shape.insert(k, 1)
        offs = [self.offs[sum(i * st for i, st in zip(multi, strides))] for multi in itertools.product(*[p for p, _ in per])]
        return shape, offs, bool(fancy)

    def get(self, index):
        shape, offs, fancy = self._select(index)
        if not shape:
            return self.base[offs[0]]
        v = Arr(self.base, shape, offs)
        return v.copy() if fancy else v

    def set(self, index, value):
        if self.frozen:
            raise Unsupported("store into a read-only array")
        shape, offs, _ = self._select(index)
        vals = broadcast(value, tuple(shape))
        for o, v in zip(offs, vals):
            self.base[o] = v

    def __repr__(self):
        return f"array{self.rows()!r}"


def broadcast(v, shape):
    """cells of v (scalar, Unknown or Arr) broadcast to `shape`, row-major"""
    n = 1
    for s in shape:
        n *= s
    if isinstance(v, (list, tuple)):
        v = to_arr(v)
    if not isinstance(v, Arr):
        return [v] * n
    vs = (1,) * (len(shape) - v.ndim) + v.shape
    if len(vs) != len(shape) or any(a != b and a != 1 for a, b in zip(vs, shape)):
        raise Unsupported(f"shapes {v.shape} and {tuple(shape)} do not broadcast")
    strides, s = [], 1
    for k in reversed(vs):
        strides.append(0 if k == 1 else s)
        s *= k
    strides.reverse()
    cells = v.cells()
    return [cells[sum(i * st for i, st in zip(multi, strides))] for multi in itertools.product(*[range(k) for k in shape])]


def to_arr(v):
    """np.array(v): always a fresh array"""
    if isinstance(v, Arr):
        return v.copy()
    if isinstance(v, (list, tuple)):
        items = [to_arr(x) if isinstance(x, (list, tuple, Arr)) else x for x in v]
        if not items:
            return Arr.new((0,), [])
        if all(isinstance(x, Arr) for x in items):
            if any(x.shape != items[0].shape for x in items):
                raise Unsupported("ragged array literal")
            return Arr.new((len(items),) + items[0].shape, [c for x in items for c in x.cells()])
        if any(isinstance(x, Arr) for x in items):
            raise Unsupported("ragged array literal")
        return Arr.new((len(items),), items)
    return Arr.new((), [v])


def as_int(v, what="integer"):
    if isinstance(v, bool):
        raise Unsupported(f"{what}: bool")
    if isinstance(v, int):
        return v
    if is_num(v) and v.is_const():
        c = v.const_value()
        if c.denominator == 1:
            return int(c)
    raise Unsupported(f"{what} is not a constant integer")


def num(c):
    return F.const(Fraction(c))


ZERO, ONE = num(0), num(1)


def _scalar_bin(op, a, b):
    if is_unknown(a) or is_unknown(b):
        return a if is_unknown(a) else b
    if isinstance(a, bool):
        a = num(int(a))
    if isinstance(b, bool):
        b = num(int(b))
    if not (is_num(a) and is_num(b)):
        raise Unsupported(f"arithmetic on {type(a).__name__} and {type(b).__name__}")
    if isinstance(op, ast.Add):
        return a + b
    if isinstance(op, ast.Sub):
        return a - b
    if isinstance(op, ast.Mult):
        return a * b
    if isinstance(op, ast.Div):
        if b.is_zero():
            return unknown("division by zero")
        return a / b
    if isinstance(op, ast.Pow):
        if not b.is_const():
            raise Unsupported("symbolic exponent")
        e = b.const_value()
        if e.denominator == 1:
            if e < 0 and a.is_zero():
                return unknown("division by zero")
            return a ** int(e)
        if e == Fraction(1, 2):
            return sqrt(a)
        raise Unsupported(f"power {e}")
    if isinstance(op, (ast.FloorDiv, ast.Mod)) and a.is_const() and b.is_const() and not b.is_zero():
        x, y = a.const_value(), b.const_value()
        return num(x // y) if isinstance(op, ast.FloorDiv) else num(x % y)
    raise Unsupported(f"operator {type(op).__name__}")


def sqrt(a):
    if is_unknown(a):
        return a
    return F.sqrt(a)


def matmul(a, b):
    if is_unknown(a) or is_unknown(b):
        return unknown("product with an unknown")
    a, b = (to_arr(x) if isinstance(x, (list, tuple)) else x for x in (a, b))
    if not (isinstance(a, Arr) and isinstance(b, Arr)) or not (1 <= a.ndim <= 2 and 1 <= b.ndim <= 2):
        raise Unsupported("matrix product of non-matrices")
    A = a.rows() if a.ndim == 2 else [a.rows()]
    B = b.rows() if b.ndim == 2 else [[x] for x in b.rows()]
    if len(A[0]) != len(B):
        raise Unsupported("matrix product: inner dimensions differ")

    def dot(r, j):
        acc = ZERO
        for k, x in enumerate(r):
            acc = _scalar_bin(ast.Add(), acc, _scalar_bin(ast.Mult(), x, B[k][j]))
        return acc
    out = [[dot(r, j) for j in range(len(B[0]))] for r in A]
    if a.ndim == 2 and b.ndim == 2:
        return to_arr(out)
    if a.ndim == 2:
        return to_arr([r[0] for r in out])
    if b.ndim == 2:
        return to_arr(out[0])
    return out[0][0]


def binop(op, a, b):
    if isinstance(op, ast.MatMult):
        return matmul(a, b)
    if isinstance(a, (list, tuple)) and isinstance(b, (list, tuple)) and isinstance(op, ast.Add) and type(a) is type(b):
        return a + b
    if isinstance(a, (list, tuple)) and isinstance(op, ast.Mult) and not isinstance(b, (Arr, list, tuple)) and not is_unknown(b):
        return a * as_int(b)
    if isinstance(a, Arr) or isinstance(b, Arr):
        a, b = (to_arr(x) if isinstance(x, (list, tuple)) else x for x in (a, b))
        if (is_unknown(a) or is_unknown(b)):
            return unknown("array op with an unknown")
        sa = a.shape if isinstance(a, Arr) else ()
        sb = b.shape if isinstance(b, Arr) else ()
        n = max(len(sa), len(sb))
        pa, pb = (1,) * (n - len(sa)) + sa, (1,) * (n - len(sb)) + sb
        if any(x != y and x != 1 and y != 1 for x, y in zip(pa, pb)):
            raise Unsupported(f"shapes {sa} and {sb} do not broadcast")
        shape = tuple(max(x, y) for x, y in zip(pa, pb))
        return Arr.new(shape, [_scalar_bin(op, x, y) for x, y in zip(broadcast(a, shape), broadcast(b, shape))])
    if is_unknown(a) or is_unknown(b):
        return a if is_unknown(a) else b
    if isinstance(a, (list, tuple, str)) or isinstance(b, (list, tuple, str)):
        raise Unsupported("operator on a sequence")
    return _scalar_bin(op, a, b)


def elementwise(f, v):
    if is_unknown(v):
        return v
    if isinstance(v, (list, tuple)):
        v = to_arr(v)
    if isinstance(v, Arr):
        return Arr.new(v.shape, [f(c) for c in v.cells()])
    return f(v)


def truth(v):
    """True / False / None (not decided)"""
    if isinstance(v, bool):
        return v
    if v is None:
        return False
    if is_num(v):
        return (not v.is_zero()) if v.is_const() else None
    if isinstance(v, (list, tuple, str, dict)):
        return len(v) > 0
    if isinstance(v, Arr) and v.size == 1:
        return truth(v.cells()[0])
    return None


def compare(op, a, b):
    if isinstance(op, (ast.Is, ast.IsNot)):
        if is_unknown(a) or is_unknown(b):
            return unknown("identity test")
        if a is None or b is None or isinstance(a, bool) or isinstance(b, bool):          # singletons: nothing else is identical to them
            r = a is b
            return r if isinstance(op, ast.Is) else not r
        return unknown("identity test")
    if is_unknown(a) or is_unknown(b):
        return unknown("comparison with an unknown")
    if isinstance(a, Arr) or isinstance(b, Arr):
        if isinstance(op, (ast.In, ast.NotIn)):
            return unknown("membership")
        sa = a.shape if isinstance(a, Arr) else ()
        sb = b.shape if isinstance(b, Arr) else ()
        shape = sa if len(sa) >= len(sb) else sb
        return Arr.new(shape, [compare(op, x, y) for x, y in zip(broadcast(a, shape), broadcast(b, shape))])
    if isinstance(a, bool):
        a = num(int(a))
    if isinstance(b, bool):
        b = num(int(b))
    if is_num(a) and is_num(b):
        if a.is_const() and b.is_const():
            x, y = a.const_value(), b.const_value()
            table = {ast.Eq: x == y, ast.NotEq: x != y, ast.Lt: x < y, ast.LtE: x <= y, ast.Gt: x > y, ast.GtE: x >= y}
            if type(op) in table:
                return table[type(op)]
        if isinstance(op, (ast.Eq, ast.NotEq)) and a.equals(b):
            return isinstance(op, ast.Eq)
        if isinstance(op, (ast.LtE, ast.GtE)) and a.equals(b):
            return True
        return unknown("comparison of symbolic values")
    if isinstance(a, str) and isinstance(b, str) and isinstance(op, (ast.Eq, ast.NotEq)):
        return (a == b) == isinstance(op, ast.Eq)
    if isinstance(op, (ast.In, ast.NotIn)) and isinstance(b, (list, tuple)) and isinstance(a, str) and all(isinstance(x, str) for x in b):
        return (a in b) == isinstance(op, ast.In)
    if (a is None) != (b is None) and isinstance(op, (ast.Eq, ast.NotEq)):
        return isinstance(op, ast.NotEq)
    return unknown("comparison")


class Closure:
    def __init__(self, node, env, name):
        self.node, self.env, self.name = node, env, name


class _Return(Exception):
    def __init__(self, value):
        self.value = value


MUTATING_NP = {"fill_diagonal", "copyto", "put", "place", "putmask", "put_along_axis"}
MODULE_ROOTS = {"np", "linalg", "sp_la", "np.linalg", "math", "scipy", "sla", "la"}


class Machine:
    """runs one function of a module on values; `symmetric(m)` answers ytools.mattype(m, "symmetric")"""

    def __init__(self, funcs, consts, aliases, max_steps=200000):
        self.funcs, self.consts = funcs, consts
        self.aliases = {"module": dict(aliases["module"]), "member": dict(aliases["member"])}          # a function-level import adds to a private copy
        self.undecided = 0          # > 0 while a branch of an undecided test is evaluated
        self.depth = 0
        self.steps = 0
        self.max_steps = max_steps
        self.fresh = 0
        self.notes = []

    # ------------------------------------------------------------------ names
    def dotted(self, node):
        parts = []
        while isinstance(node, ast.Attribute):
            parts.append(node.attr)
            node = node.value
        if not isinstance(node, ast.Name):
            return None, None
        parts.append(node.id)
        parts.reverse()
        return parts[0], parts

    def canon(self, parts, env):
        """canonical dotted name of a module-level callable / constant, or None when the root is a local value"""
        root = parts[0]
        if root in env:
            return None
        if len(parts) == 1:
            return self.aliases["member"].get(root, root)
        mod = self.aliases["module"].get(root, root)
        return ".".join([mod] + parts[1:])

    # ------------------------------------------------------------------ calls
    def call_closure(self, c, pos, kws, node):
        if self.depth >= 6:
            raise Unsupported("helper calls nested too deeply")
        a = c.node.args
        if a.vararg or a.kwarg:
            raise Unsupported(f"{c.name}: *args / **kwargs")
        params = [x.arg for x in a.posonlyargs + a.args]
        if len(pos) > len(params):
            raise Unsupported(f"{c.name}: too many arguments")
        env = dict(c.env) if c.env is not None else {}
        bound = dict(zip(params, pos))
        for k, v in kws.items():
            if k in bound or (k not in params and k not in [x.arg for x in a.kwonlyargs]):
                raise Unsupported(f"{c.name}: keyword {k}")
            bound[k] = v
        defaults = dict(zip(params[len(params) - len(a.defaults):], a.defaults))
        for x, d in zip(a.kwonlyargs, a.kw_defaults):
            if d is not None:
                defaults[x.arg] = d
        for p in params + [x.arg for x in a.kwonlyargs]:
            if p not in bound:
                if p not in defaults:
                    raise Unsupported(f"{c.name}: missing argument {p}")
                bound[p] = self.expr(defaults[p], {})
        env.update(bound)
        self.depth += 1
        try:
            if isinstance(c.node, ast.Lambda):
                return self.expr(c.node.body, env)
            try:
                self.block(c.node.body, env)
            except _Return as r:
                return r.value
            return None
        finally:
            self.depth -= 1

    def call(self, node, env):
        pos = []
        for a in node.args:
            if isinstance(a, ast.Starred):
                v = self.expr(a.value, env)
                if isinstance(v, Arr) and v.ndim == 1:
                    v = v.cells()
                if not isinstance(v, (list, tuple)):
                    raise Unsupported("star argument")
                pos.extend(v)
            else:
                pos.append(self.expr(a, env))
        kws = {}
        for k in node.keywords:
            if k.arg is None:
                raise Unsupported("** argument")
            kws[k.arg] = self.expr(k.value, env)
        f = node.func
        # method of a value
        if isinstance(f, ast.Attribute):
            root, parts = self.dotted(f)
            if root is None or root in env:
                return self.method(self.expr(f.value, env), f.attr, pos, kws, node)
            name = self.canon(parts, env)
        elif isinstance(f, ast.Name):
            if f.id in env:
                c = env[f.id]
                if isinstance(c, Closure):
                    return self.call_closure(c, pos, kws, node)
                if is_unknown(c):
                    return self.opaque_call(f.id, pos, kws)
                raise Unsupported(f"call of the local value {f.id}")
            name = self.canon([f.id], env)
        elif isinstance(f, ast.Lambda):
            return self.call_closure(Closure(f, env, "<lambda>"), pos, kws, node)
        else:
            raise Unsupported("call of a computed callee")
        if name in self.funcs:
            return self.call_closure(Closure(self.funcs[name], None, name), pos, kws, node)
        return self.builtin(name, pos, kws, node)

    def opaque_call(self, name, pos, kws):
        """an external function the machine has no model of: the result is unknown; an array handed to a callee that is not known to be pure may have
        been modified - not followed"""
        root = name.split(".")[0]
        last = name.rsplit(".", 1)[-1]
        has_arr = any(isinstance(v, Arr) for v in list(pos) + list(kws.values()))
        if has_arr and (root not in MODULE_ROOTS or last in MUTATING_NP or "out" in kws):
            raise Unsupported(f"{name}: an array is handed to a function that may modify it")
        return unknown(f"{name}(...)")

    def method(self, obj, attr, pos, kws, node):
        if is_unknown(obj):
            if any(isinstance(v, Arr) for v in list(pos) + list(kws.values())):
                raise Unsupported(f".{attr}: an array is handed to a method of an unknown object")
            return unknown(f".{attr}(...)")
        if isinstance(obj, Arr):
            if attr == "copy":
                return obj.copy()
            if attr == "astype":
                if truth(kws.get("copy", pos[1] if len(pos) > 1 else True)) is False:
                    self.notes.append("astype(copy=False): the input matrix is taken to be float already (no copy)")
                    return obj
                return obj.copy()
            if attr in ("transpose",) and not pos and not kws:
                return obj.T()
            if attr in ("dot",) and len(pos) == 1:
                return matmul(obj, pos[0])
            if attr == "diagonal" and not pos and not kws:
                return self.np_diag(obj)
            if attr == "trace" and not pos and not kws:
                return self.reduce_sum(self.np_diag(obj))
            if attr == "sum":
                return self.np_sum(obj, pos, kws)
            if attr in ("tolist",):
                return obj.rows()
            if attr in ("flatten", "ravel") and not pos and not kws:
                return Arr.new((obj.size,), obj.cells()) if attr == "flatten" else Arr(obj.base, (obj.size,), obj.offs)
            if attr == "reshape":
                shape = pos[0] if len(pos) == 1 and isinstance(pos[0], (list, tuple)) else pos
                shape = [as_int(s) for s in shape]
                if shape.count(-1) == 1:
                    k = 1
                    for s in shape:
                        k *= s if s != -1 else 1
                    shape[shape.index(-1)] = obj.size // k if k else 0
                return Arr(obj.base, shape, obj.offs) if _prod(shape) == obj.size else _unsup("reshape")
            if attr == "fill" and len(pos) == 1:
                obj.set((), pos[0])
                self._mutated()
                return None
            if attr in ("any", "all") and not pos and not kws:
                return self.any_all(attr, obj)
            if attr in ("conj", "conjugate"):
                return obj
            raise Unsupported(f"array method .{attr}")
        if isinstance(obj, list):
            if attr == "append" and len(pos) == 1:
                if self.undecided:
                    raise Unsupported("list modified under an undecided test")
                obj.append(pos[0])
                return None
            if attr == "extend" and len(pos) == 1 and isinstance(pos[0], (list, tuple)):
                if self.undecided:
                    raise Unsupported("list modified under an undecided test")
                obj.extend(pos[0])
                return None
        raise Unsupported(f"method .{attr} of {type(obj).__name__}")

    def _mutated(self):
        if self.undecided:
            raise Unsupported("an array is modified under a test that is not decided")

    # ------------------------------------------------------------------ numpy / builtins
    def np_diag(self, v, k=0):
        if isinstance(v, (list, tuple)):
            v = to_arr(v)
        if is_unknown(v):
            return v
        if not isinstance(v, Arr) or k != 0:
            raise Unsupported("np.diag")
        if v.ndim == 2:
            n = min(v.shape)
            out = Arr(v.base, (n,), [v.offs[i * v.shape[1] + i] for i in range(n)])
            return out.copy()
        if v.ndim == 1:
            n = v.shape[0]
            c = v.cells()
            return Arr.new((n, n), [c[i] if i == j else ZERO for i in range(n) for j in range(n)])
        raise Unsupported("np.diag of this shape")

    def reduce_sum(self, v):
        acc = ZERO
        for c in (v.cells() if isinstance(v, Arr) else v):
            acc = _scalar_bin(ast.Add(), acc, c)
        return acc

    def np_sum(self, v, pos, kws):
        axis = kws.get("axis", pos[0] if pos else None)
        if isinstance(v, (list, tuple)):
            v = to_arr(v)
        if axis is None:
            return self.reduce_sum(v)
        ax = as_int(axis)
        if v.ndim != 2:
            raise Unsupported("sum along an axis of a non-matrix")
        rows = v.rows() if ax % 2 == 1 else v.T().rows()
        return to_arr([self.reduce_sum(r) for r in rows])

    def any_all(self, which, v):
        if isinstance(v, (list, tuple)):
            v = to_arr(v)
        cells = v.cells() if isinstance(v, Arr) else [v]
        ts = [truth(c) for c in cells]
        if which == "any":
            return True if any(t is True for t in ts) else (unknown("any") if any(t is None for t in ts) else False)
        return False if any(t is False for t in ts) else (unknown("all") if any(t is None for t in ts) else True)

    def shape_of(self, v):
        if isinstance(v, (list, tuple)):
            return tuple(as_int(x) for x in v)
        return (as_int(v),)

    def builtin(self, name, pos, kws, node):
        last = name.rsplit(".", 1)[-1]
        root = name.split(".")[0]
        isnp = root in ("np", "numpy")
        a0 = pos[0] if pos else None
        if name in ("float", "int", "complex") and len(pos) == 1:
            return a0 if not isinstance(a0, bool) else num(int(a0))
        if name == "len" and len(pos) == 1:
            if isinstance(a0, Arr) and a0.ndim:
                return num(a0.shape[0])
            if isinstance(a0, (list, tuple, str)):
                return num(len(a0))
        if name == "slice" and 1 <= len(pos) <= 3 and not kws:
            return slice(*[None if p is None else as_int(p, "slice bound") for p in pos])
        if name == "range":
            return list(num(i) for i in range(*[as_int(p) for p in pos]))
        if name in ("list", "tuple") and len(pos) <= 1:
            seq = [] if not pos else (a0.cells() if isinstance(a0, Arr) and a0.ndim == 1 else a0)
            if isinstance(a0, Arr) and a0.ndim == 2:
                seq = [a0.get(i) for i in range(a0.shape[0])]
            if isinstance(seq, (list, tuple)):
                return list(seq) if name == "list" else tuple(seq)
        if name == "zip":
            seqs = [self.iterate(p) for p in pos]
            return [tuple(t) for t in zip(*seqs)]
        if name == "enumerate" and len(pos) == 1:
            return [(num(i), x) for i, x in enumerate(self.iterate(a0))]
        if name == "sum" and pos:
            acc = pos[1] if len(pos) > 1 else ZERO
            for x in self.iterate(a0):
                acc = binop(ast.Add(), acc, x)
            return acc
        if name in ("abs", "np.abs", "np.absolute", "np.fabs", "math.fabs") and len(pos) == 1:
            return elementwise(lambda c: c if is_unknown(c) else (num(abs(c.const_value())) if is_num(c) and c.is_const() else F.fn("abs", c)), a0)
        if name in ("np.sqrt", "math.sqrt", "np.emath.sqrt") and len(pos) == 1:
            return elementwise(sqrt, a0)
        if name in ("np.square",) and len(pos) == 1:
            return binop(ast.Mult(), a0, a0)
        if name in ("np.negative",) and len(pos) == 1 and not kws:
            return binop(ast.Sub(), ZERO, a0)
        if name in ("np.add", "np.subtract", "np.multiply", "np.divide", "np.true_divide", "np.power") and len(pos) == 2 and not kws:
            op = {"add": ast.Add, "subtract": ast.Sub, "multiply": ast.Mult, "divide": ast.Div, "true_divide": ast.Div, "power": ast.Pow}[last]()
            return binop(op, pos[0], pos[1])
        if name == "pow" and len(pos) == 2:
            return binop(ast.Pow(), pos[0], pos[1])
        if name == "isinstance":
            return unknown("isinstance")
        if name == "ytools.mattype" and len(pos) + len(kws) == 2:
            kind = pos[1] if len(pos) > 1 else kws.get("mtype")
            if kind == "symmetric" and isinstance(a0, Arr) and a0.ndim == 2 and a0.shape[0] == a0.shape[1]:
                r, t = a0.cells(), a0.T().cells()
                if any(is_unknown(x) for x in r):
                    return unknown("mattype")
                return all(x.equals(y) for x, y in zip(r, t))
            return unknown("mattype")
        if name in ("np.allclose", "np.array_equal") and len(pos) >= 2 and isinstance(pos[0], Arr) and isinstance(pos[1], Arr):
            if pos[0].shape == pos[1].shape and all(is_num(x) and is_num(y) and x.equals(y) for x, y in zip(pos[0].cells(), pos[1].cells())):
                return True
            return unknown(name)
        if isnp or root in ("linalg", "np.linalg"):
            if last in ("iscomplexobj",) and len(pos) == 1:
                return False          # regime of the rule: a real mass matrix with positive mass and inertia
            if last in ("isrealobj",) and len(pos) == 1:
                return True
            if any(is_unknown(v) for v in pos) and last not in MUTATING_NP and "out" not in kws:
                return unknown(f"{name} of an unknown")          # numpy functions (other than the in-place ones) do not modify their arguments
            if last in ("array", "asarray", "asanyarray", "asfarray", "atleast_1d", "atleast_2d", "ascontiguousarray", "real", "copy", "float64", "double") and pos:
                if is_unknown(a0):
                    return a0
                if "dtype" in kws and not _float_dtype(kws["dtype"]):
                    raise Unsupported("non-float dtype")
                if len(pos) > 1 and not _float_dtype(pos[1]):
                    raise Unsupported("non-float dtype")
                if isinstance(a0, Arr) and last in ("asarray", "asanyarray", "asfarray", "atleast_1d", "atleast_2d", "ascontiguousarray", "real") and not (
                        (last == "atleast_2d" and a0.ndim < 2) or (last == "atleast_1d" and a0.ndim < 1)):
                    if last != "real" and ("dtype" in kws or len(pos) > 1 or last == "asfarray"):
                        self.notes.append(f"np.{last}: the input matrix is taken to be float already (no copy)")
                    return a0
                if isinstance(a0, Arr) and last == "array" and truth(kws.get("copy", True)) is False:
                    return a0
                out = to_arr(a0)
                if last == "atleast_2d" and out.ndim < 2:
                    out = Arr(out.base, (1,) * (2 - out.ndim) + out.shape, out.offs)
                if last == "atleast_1d" and out.ndim < 1:
                    out = Arr(out.base, (1,), out.offs)
                return out
            if last in ("zeros", "ones", "empty", "full") and pos:
                shape = self.shape_of(a0)
                n = _prod(shape)
                if last == "full":
                    return Arr.new(shape, [pos[1] if len(pos) > 1 else kws["fill_value"]] * n)
                if last == "empty":
                    return Arr.new(shape, [self.garbage() for _ in range(n)])
                return Arr.new(shape, [ZERO if last == "zeros" else ONE] * n)
            if last in ("zeros_like", "ones_like", "empty_like") and pos and isinstance(a0, Arr):
                n = a0.size
                if last == "empty_like":
                    return Arr.new(a0.shape, [self.garbage() for _ in range(n)])
                return Arr.new(a0.shape, [ZERO if last == "zeros_like" else ONE] * n)
            if last in ("eye", "identity") and len(pos) == 1:
                n = as_int(a0)
                return Arr.new((n, n), [ONE if i == j else ZERO for i in range(n) for j in range(n)])
            if last == "diag" and pos:
                return self.np_diag(a0, as_int(kws.get("k", pos[1] if len(pos) > 1 else num(0))))
            if last == "diagonal" and len(pos) == 1 and not kws:
                return self.np_diag(a0)
            if last == "trace" and len(pos) == 1 and not kws:
                return self.reduce_sum(self.np_diag(a0))
            if last == "transpose" and len(pos) == 1 and not kws:
                return to_arr(a0).T() if not isinstance(a0, Arr) else a0.T()
            if last in ("dot", "matmul") and len(pos) == 2 and not kws:
                return matmul(pos[0], pos[1])
            if last == "multi_dot" and len(pos) == 1 and isinstance(a0, (list, tuple)) and a0:
                acc = a0[0]
                for x in a0[1:]:
                    acc = matmul(acc, x)
                return acc
            if last == "outer" and len(pos) == 2 and not kws:
                x, y = (to_arr(p) for p in pos)
                return to_arr([[_scalar_bin(ast.Mult(), p, q) for q in y.cells()] for p in x.cells()])
            if last == "cross" and len(pos) == 2 and not kws:
                x, y = (to_arr(p) for p in pos)
                if x.shape == (3,) and y.shape == (3,):
                    a, b = x.cells(), y.cells()
                    m, s = ast.Mult(), ast.Sub()
                    return to_arr([_scalar_bin(s, _scalar_bin(m, a[(i + 1) % 3], b[(i + 2) % 3]), _scalar_bin(m, a[(i + 2) % 3], b[(i + 1) % 3])) for i in range(3)])
                raise Unsupported("np.cross of these shapes")
            if last == "sum" and pos:
                return self.np_sum(a0, pos[1:], kws)
            if last in ("vstack", "hstack", "block", "concatenate", "stack", "column_stack", "row_stack") and pos:
                return self.stack(last, a0, pos[1:], kws)
            if last in ("any", "all") and len(pos) == 1 and not kws:
                if is_unknown(a0):
                    return a0
                return self.any_all(last, a0)
            if last in ("isnan", "isinf", "iscomplex") and len(pos) == 1:
                return elementwise(lambda c: c if is_unknown(c) else False, a0)
            if last in ("isfinite", "isreal") and len(pos) == 1:
                return elementwise(lambda c: c if is_unknown(c) else True, a0)
            if last in ("iscomplexobj",) and len(pos) == 1:
                return False          # regime of the rule: a real mass matrix with positive mass and inertia
            if last in ("isrealobj",) and len(pos) == 1:
                return True
            if last == "ix_":
                return tuple(IxList([as_int(x) for x in self.iterate(p)]) for p in pos)
            if last == "arange":
                return to_arr([num(i) for i in range(*[as_int(p) for p in pos])])
            if last == "shape" and len(pos) == 1 and isinstance(a0, Arr):
                return tuple(num(s) for s in a0.shape)
        return self.opaque_call(name, pos, kws)

    def stack(self, which, seq, rest, kws):
        if is_unknown(seq):
            return seq
        if which == "block":
            if isinstance(seq, (list, tuple)) and seq and all(isinstance(r, (list, tuple)) for r in seq):
                rows = [self.stack("hstack", r, (), {}) for r in seq]
                return self.stack("vstack", rows, (), {})
            return self.stack("hstack", seq, (), {})
        items = [to_arr(x) if not isinstance(x, Arr) else x for x in self.iterate(seq)]
        if any(is_unknown(c) and False for c in items):
            return unknown(which)
        axis = as_int(kws.get("axis", rest[0] if rest else num(0))) if which in ("concatenate", "stack") else None
        if which == "stack":
            if axis != 0:
                raise Unsupported("np.stack along this axis")
            return to_arr([x for x in items])
        if which == "column_stack":
            items = [Arr(x.base, (x.shape[0], 1), x.offs) if x.ndim == 1 else x for x in items]
            which = "hstack"
        if which in ("vstack", "row_stack") or (which == "concatenate" and axis == 0 and all(x.ndim == 2 for x in items)):
            items = [Arr(x.base, (1,) + x.shape, x.offs) if x.ndim == 1 else x for x in items]
            if any(x.ndim != 2 or x.shape[1] != items[0].shape[1] for x in items):
                raise Unsupported("vstack of these shapes")
            return Arr.new((sum(x.shape[0] for x in items), items[0].shape[1]), [c for x in items for c in x.cells()])
        if all(x.ndim <= 1 for x in items) and (which == "hstack" or axis == 0):
            return to_arr([c for x in items for c in x.cells()])
        if (which == "hstack" or axis in (1, -1)) and all(x.ndim == 2 for x in items):
            if any(x.shape[0] != items[0].shape[0] for x in items):
                raise Unsupported("hstack of these shapes")
            return to_arr([[c for x in items for c in x.rows()[i]] for i in range(items[0].shape[0])])
        raise Unsupported(f"np.{which} of these shapes")

    def garbage(self):
        self.fresh += 1
        return F.sym(f"uninitialised#{self.fresh}")

    def iterate(self, v):
        if isinstance(v, Arr):
            if v.ndim == 0:
                raise Unsupported("iteration over a 0-d array")
            return [v.get(i) for i in range(v.shape[0])]
        if isinstance(v, (list, tuple)):
            return list(v)
        raise Unsupported(f"iteration over {type(v).__name__}")

    # ------------------------------------------------------------------ expressions
    def index(self, node, env):
        if isinstance(node, ast.Tuple):
            return tuple(self.index(e, env) for e in node.elts)
        if isinstance(node, ast.Slice):
            return slice(*[None if x is None else self._int_or_none(self.expr(x, env)) for x in (node.lower, node.upper, node.step)])
        v = self.expr(node, env)
        if v is Ellipsis or v is None or isinstance(v, (slice, IxList)):
            return v
        if isinstance(v, tuple) and all(isinstance(x, (IxList, slice)) for x in v):
            return v
        if isinstance(v, tuple):
            return tuple(x if isinstance(x, (slice, IxList)) else as_int(x, "subscript") for x in v)
        if isinstance(v, (list, Arr)):
            cells = v.cells() if isinstance(v, Arr) else v
            if isinstance(v, Arr) and v.ndim != 1:
                raise Unsupported("array subscript")
            if cells and all(isinstance(c, bool) for c in cells):
                return IxList([i for i, c in enumerate(cells) if c])
            return IxList([as_int(c, "subscript") for c in cells])
        if is_unknown(v):
            raise Unsupported("a subscript is unknown")
        return as_int(v, "subscript")

    def _int_or_none(self, v):
        return None if v is None else as_int(v, "slice bound")

    def expr(self, node, env):
        self.steps += 1
        if self.steps > self.max_steps:
            raise Unsupported("evaluation budget exhausted")
        if isinstance(node, ast.Constant):
            v = node.value
            if isinstance(v, bool) or v is None or isinstance(v, str) or v is Ellipsis:
                return v
            if isinstance(v, int):
                return num(v)
            if isinstance(v, float):
                return num(Fraction(v)) if v == v and abs(v) != float("inf") else unknown("nan / inf literal")
            raise Unsupported(f"constant {v!r}")
        if isinstance(node, ast.Name):
            if node.id in env:
                return env[node.id]
            if node.id in self.funcs:
                return Closure(self.funcs[node.id], None, node.id)
            if node.id in self.consts:
                return self.expr(self.consts[node.id], {})
            if node.id in ("float", "int", "complex"):
                return node.id
            raise Unsupported(f"name {node.id} is not bound")
        if isinstance(node, (ast.Tuple, ast.List)):
            out = []
            for e in node.elts:
                if isinstance(e, ast.Starred):
                    out.extend(self.iterate(self.expr(e.value, env)))
                else:
                    out.append(self.expr(e, env))
            return tuple(out) if isinstance(node, ast.Tuple) else out
        if isinstance(node, ast.BinOp):
            return binop(node.op, self.expr(node.left, env), self.expr(node.right, env))
        if isinstance(node, ast.UnaryOp):
            v = self.expr(node.operand, env)
            if isinstance(node.op, ast.Not):
                t = truth(v)
                return unknown("not") if t is None else not t
            if isinstance(node.op, ast.USub):
                return binop(ast.Sub(), ZERO, v)
            if isinstance(node.op, ast.UAdd):
                return v
            if isinstance(node.op, ast.Invert):
                return elementwise(lambda c: (not c) if isinstance(c, bool) else unknown("~"), v)
        if isinstance(node, ast.BoolOp):
            last, unk = None, None
            for e in node.values:
                last = self.expr(e, env)
                t = truth(last)
                if t is None:
                    unk = unknown("boolean operation")
                    continue          # the remaining operands are evaluated as well: expressions have no effects the machine tracks except calls of helpers
                if isinstance(node.op, ast.And) and not t:
                    return last if unk is None else (False if isinstance(last, bool) else unk)
                if isinstance(node.op, ast.Or) and t:
                    return last if unk is None else (True if isinstance(last, bool) else unk)
            return last if unk is None else unk
        if isinstance(node, ast.Compare):
            left = self.expr(node.left, env)
            res = True
            for op, r in zip(node.ops, node.comparators):
                right = self.expr(r, env)
                c = compare(op, left, right)
                if len(node.ops) == 1:
                    return c
                t = truth(c)
                if t is None:
                    return unknown("comparison chain")
                if not t:
                    return False
                left = right
            return res
        if isinstance(node, ast.IfExp):
            t = truth(self.expr(node.test, env))
            if t is None:
                a, b = self.expr(node.body, env), self.expr(node.orelse, env)
                return a if _same(a, b) else unknown("conditional expression")
            return self.expr(node.body if t else node.orelse, env)
        if isinstance(node, ast.Call):
            return self.call(node, env)
        if isinstance(node, ast.Attribute):
            root, parts = self.dotted(node)
            if root is not None and root not in env:
                name = self.canon(parts, env)
                if name in ("np.pi", "math.pi"):
                    return F.sym("pi")
                if name in ("np.newaxis",):
                    return None
                if name in ("np.float64", "np.double", "np.float_", "np.floating"):
                    return "float"
                return unknown(name)
            v = self.expr(node.value, env)
            if is_unknown(v):
                return v
            if isinstance(v, Arr):
                if node.attr == "T":
                    return v.T()
                if node.attr == "shape":
                    return tuple(num(s) for s in v.shape)
                if node.attr == "size":
                    return num(v.size)
                if node.attr == "ndim":
                    return num(v.ndim)
                if node.attr == "real":
                    return v
            raise Unsupported(f"attribute .{node.attr}")
        if isinstance(node, ast.Subscript):
            v = self.expr(node.value, env)
            if is_unknown(v):
                return v
            if isinstance(v, Arr):
                return v.get(self.index(node.slice, env))
            if isinstance(v, (list, tuple)):
                ix = self.index(node.slice, env)
                if isinstance(ix, (int, slice)):
                    try:
                        return v[ix]
                    except IndexError:
                        raise Unsupported("index out of range")
            raise Unsupported("subscript of this value")
        if isinstance(node, ast.Lambda):
            return Closure(node, env, "<lambda>")
        if isinstance(node, (ast.ListComp, ast.GeneratorExp)):
            out = []
            self.comp(node.generators, 0, dict(env), lambda e: out.append(self.expr(node.elt, e)))
            return out
        if isinstance(node, ast.JoinedStr):
            return unknown("f-string")
        if isinstance(node, ast.NamedExpr):
            v = self.expr(node.value, env)
            env[node.target.id] = v
            return v
        raise Unsupported(f"expression {type(node).__name__}")

    def comp(self, gens, k, env, emit):
        if k == len(gens):
            emit(env)
            return
        g = gens[k]
        if g.is_async:
            raise Unsupported("async comprehension")
        for item in self.iterate(self.expr(g.iter, env)):
            self.bind(g.target, item, env)
            ok = True
            for c in g.ifs:
                t = truth(self.expr(c, env))
                if t is None:
                    raise Unsupported("comprehension filter not decided")
                ok = ok and t
            if ok:
                self.comp(gens, k + 1, env, emit)

    # ------------------------------------------------------------------ statements
    def bind(self, target, value, env):
        if isinstance(target, ast.Name):
            env[target.id] = value
            return
        if isinstance(target, (ast.Tuple, ast.List)):
            if is_unknown(value):
                items = [value] * len(target.elts)
            else:
                items = self.iterate(value)
            if any(isinstance(e, ast.Starred) for e in target.elts):
                raise Unsupported("starred assignment target")
            if len(items) != len(target.elts):
                raise Unsupported("unpacking: lengths differ")
            for t, v in zip(target.elts, items):
                self.bind(t, v, env)
            return
        if isinstance(target, ast.Subscript):
            obj = self.expr(target.value, env)
            if is_unknown(obj):
                return
            if isinstance(obj, Arr):
                self._mutated()
                obj.set(self.index(target.slice, env), value)
                return
            if isinstance(obj, list):
                if self.undecided:
                    raise Unsupported("list modified under an undecided test")
                obj[as_int(self.index(target.slice, env))] = value
                return
            raise Unsupported("store into this value")
        raise Unsupported(f"assignment target {type(target).__name__}")

    def block(self, body, env):
        for st in body:
            self.stmt(st, env)

    def stmt(self, st, env):
        self.steps += 1
        if isinstance(st, ast.Expr):
            if isinstance(st.value, ast.Constant):
                return
            self.expr(st.value, env)
            return
        if isinstance(st, ast.Assign):
            v = self.expr(st.value, env)
            for t in st.targets:
                self.bind(t, v, env)
            return
        if isinstance(st, ast.AnnAssign):
            if st.value is not None:
                self.bind(st.target, self.expr(st.value, env), env)
            return
        if isinstance(st, ast.AugAssign):
            rhs = self.expr(st.value, env)
            if isinstance(st.target, ast.Name):
                cur = self.expr(ast.Name(id=st.target.id, ctx=ast.Load()), env)
                if isinstance(cur, Arr):          # in place: every view of the storage sees it
                    self._mutated()
                    cur.set((), binop(st.op, cur, rhs))
                else:
                    env[st.target.id] = binop(st.op, cur, rhs)
                return
            if isinstance(st.target, ast.Subscript):
                obj = self.expr(st.target.value, env)
                if is_unknown(obj):
                    return
                ix = self.index(st.target.slice, env)
                if isinstance(obj, Arr):
                    self._mutated()
                    obj.set(ix, binop(st.op, obj.get(ix), rhs))
                    return
                if isinstance(obj, list) and isinstance(ix, int) and not self.undecided:
                    obj[ix] = binop(st.op, obj[ix], rhs)
                    return
            raise Unsupported("augmented assignment target")
        if isinstance(st, ast.Return):
            raise _Return(None if st.value is None else self.expr(st.value, env))
        if isinstance(st, ast.Raise):
            raise Raised(st)
        if isinstance(st, ast.Pass):
            return
        if isinstance(st, ast.Assert):
            return
        if isinstance(st, (ast.FunctionDef,)):
            env[st.name] = Closure(st, env, st.name)
            return
        if isinstance(st, (ast.Import, ast.ImportFrom)):
            from .c06_sem import _import_entries
            _import_entries(st, self.aliases)
            return
        if isinstance(st, ast.If):
            t = truth(self.expr(st.test, env))
            if t is not None:
                self.block(st.body if t else st.orelse, env)
                return
            self.undecided_if(st, env)
            return
        if isinstance(st, ast.For):
            if st.orelse:
                raise Unsupported("for ... else")
            for item in self.iterate(self.expr(st.iter, env)):
                self.bind(st.target, item, env)
                try:
                    self.block(st.body, env)
                except _Break:
                    break
                except _Continue:
                    continue
            return
        if isinstance(st, ast.With):
            # context managers that only change how floating-point warnings are reported: the body runs as it stands
            for it in st.items:
                c = it.context_expr
                root, parts = self.dotted(c.func) if isinstance(c, ast.Call) else (None, None)
                name = self.canon(parts, env) if root is not None and root not in env else None
                if name not in ("np.errstate", "warnings.catch_warnings") or it.optional_vars is not None:
                    raise Unsupported("with statement (only np.errstate / warnings.catch_warnings are followed)")
            self.block(st.body, env)
            return
        if isinstance(st, ast.Break):
            raise _Break()
        if isinstance(st, ast.Continue):
            raise _Continue()
        if isinstance(st, ast.Delete):
            for t in st.targets:
                if isinstance(t, ast.Name):
                    env.pop(t.id, None)
                else:
                    raise Unsupported("del of a subscript")
            return
        raise Unsupported(f"statement {type(st).__name__}")

    def undecided_if(self, st, env):
        """both arms on copies of the frame; arrays must not be modified in them (checked where the store happens); an arm that raises is an input
        check and is not taken; a name bound differently by the two arms is unknown afterwards"""
        outs = []
        self.undecided += 1
        try:
            for arm in (st.body, st.orelse):
                e = dict(env)
                try:
                    self.block(arm, e)
                    outs.append(e)
                except Raised:
                    pass
                except _Return:
                    raise Unsupported("return under a test that is not decided")
                except (_Break, _Continue):
                    raise Unsupported("break / continue under a test that is not decided")
        finally:
            self.undecided -= 1
        if not outs:
            raise Raised(st)
        if len(outs) == 1:
            env.clear()
            env.update(outs[0])
            return
        a, b = outs
        for k in set(a) | set(b):
            if k in a and k in b and _same(a[k], b[k]):
                env[k] = a[k]
            else:
                env[k] = unknown(f"{k} depends on a test that is not decided")

    def run(self, fnode, args):
        try:
            return self.call_closure(Closure(fnode, None, fnode.name), list(args), {}, fnode)
        except (_Break, _Continue):
            raise Unsupported("break / continue outside a loop")


class _Break(Exception):
    pass


class _Continue(Exception):
    pass


def _same(a, b):
    if a is b:
        return True
    if is_num(a) and is_num(b):
        return a.equals(b)
    if isinstance(a, bool) and isinstance(b, bool):
        return a == b
    if isinstance(a, str) and isinstance(b, str):
        return a == b
    return False


def _prod(shape):
    n = 1
    for s in shape:
        n *= s
    return n


def _unsup(what):
    raise Unsupported(what)


def _float_dtype(v):
    return v in ("float", "float64", "d", "f8", None) or (is_unknown(v) and "float" in v.why)


# ---------------------------------------------------------------------------------------------------------------- the rigid mass
def rigid_mass():
    """the 6x6 mass of a rigid body seen from a reference point, from first principles: with d the offset from the reference point to the cg, the cg
    moves with v_cg = v_ref + w x d = v_ref - skew(d) w, so the motion at the cg is T (v_ref, w) with T = [[1, -skew(d)], [0, 1]] and
    M = T^T blkdiag(diag(mx, my, mz), J) T, J the (symmetric) inertia about the cg.  Returns (M, (mx, my, mz), (dx, dy, dz), J) - every entry a polynomial
    in the twelve symbols"""
    mx, my, mz = (F.sym(s) for s in ("mx", "my", "mz"))
    dx, dy, dz = (F.sym(s) for s in ("dx", "dy", "dz"))
    J = [[F.sym("J" + "".join(sorted((a, b)))) for b in "xyz"] for a in "xyz"]
    skew = [[ZERO, -dz, dy], [dz, ZERO, -dx], [-dy, dx, ZERO]]
    T = [[(ONE if i == j else ZERO) for j in range(6)] for i in range(6)]
    for i in range(3):
        for j in range(3):
            T[i][3 + j] = -skew[i][j]
    B = [[ZERO] * 6 for _ in range(6)]
    for i, mm in enumerate((mx, my, mz)):
        B[i][i] = mm
    for i in range(3):
        for j in range(3):
            B[3 + i][3 + j] = J[i][j]
    Tm, Bm = to_arr(T), to_arr(B)
    M = matmul(matmul(Tm.T(), Bm), Tm)
    return M, (mx, my, mz), (dx, dy, dz), J
