"""CLI:  /venv/bin/python -I -S verifier/run.py Cxx --tier quick|thorough [--rule R] [--replay path]"""
import importlib
import os
import sys
import traceback

sys.path.insert(0, os.path.dirname(os.path.dirname(os.path.abspath(__file__))))


def main(argv):
    if not argv:
        print("usage: run.py Cxx [--tier quick|thorough] [--rule R] [--replay path]")
        return 2
    prop = argv[0]
    try:
        from verifier import core, selftest

        mod = importlib.import_module(f"verifier.{prop.lower()}")
        return core.run_property(
            prop,
            mod.RULES,
            mod.LEVEL,
            mod.EXPLANATION,
            trusted_base=getattr(mod, "TRUSTED", None),
            argv=argv[1:],
            extra_cov=getattr(mod, "extra_cov", None),
            thorough=getattr(mod, "thorough", selftest.thorough),
        )
    except SystemExit:
        raise
    except Exception:  # noqa
        print(f"ANALYSIS-ERROR property={prop} checker crashed")
        traceback.print_exc()
        return 2


if __name__ == "__main__":
    sys.exit(main(sys.argv[1:]))
