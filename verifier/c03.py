"""C03 -- shock response spectrum (partial claim, DESIGN.md section 3)."""
from __future__ import annotations

import ast

from . import e2_formula as F
from .core import AnchorError, Unsupported
from .e1_srcmodel import dotted, walk_no_nested, find_nodes, utext
from .e2_eval import Evaluator, is_unknown, need

SRS = "pyyeti/srs.py"
STYPES = ("absacce", "relacce", "reldisp", "relvelo", "pvelo", "pacce")


def reference_filters():
    """Ramp-invariant filters derived in the checker from the oscillator ODE

        z'' + 2 zeta wn z' + wn^2 z = -x(t),   x linear between samples.

    Homogeneous solution (textbook, self-checked below by its defining ODE and
    initial values), particular solution a0 + a1*tau for a linear force, then the
    z-transform of the resulting one-step state recurrence.  Nothing is taken
    from the repository."""
    zeta, wn, h = F.sym("zeta"), F.sym("wn"), F.sym("dT")
    sqz = F.sqrt(1 - zeta * zeta)
    beta = zeta * wn
    w = wn * sqz
    k = wn * wn
    b = 2 * beta
    e = F.exp(-beta * h)
    c, s = F.cos(w * h), F.sin(w * h)
    Fd = e * (c + (beta / w) * s)
    G = e * s / w
    Fp = -(k / w) * e * s
    Gp = e * (c - (beta / w) * s)
    # self-check of the homogeneous solution
    for nm, lhs, rhs in (("F'", Fd.diff("dT"), Fp), ("G'", G.diff("dT"), Gp),
                         ("Fp'", Fp.diff("dT"), -k * Fd - b * Fp), ("Gp'", Gp.diff("dT"), -k * G - b * Gp)):
        if not lhs.equals(rhs):
            raise Unsupported(f"checker self-test failed: reference homogeneous solution, {nm}")
    for nm, x, v in (("F0", Fd, 1), ("G0", G, 0), ("Fp0", Fp, 0), ("Gp0", Gp, 1)):
        if not x.subs({"dT": 0}).equals(v):
            raise Unsupported(f"checker self-test failed: reference initial value {nm}")
    # particular solution: z_p = a0 + a1 tau, a1 = (p1-p0)/(h k), a0 = (p0 - b a1)/k
    A = (1 - Fd) * (1 / k + b / (h * k * k)) - (h - G) / (h * k)
    B = (1 - Fd) * (-b / (h * k * k)) + (h - G) / (h * k)
    Ap = -Fp * (1 / k + b / (h * k * k)) - (1 - Gp) / (h * k)
    Bp = Fp * (b / (h * k * k)) + (1 - Gp) / (h * k)
    # z-transform of s_{n+1} = Phi s_n + G0 p_n + G1 p_{n+1},  p = -x
    a = (F.const(1), -(Fd + Gp), Fd * Gp - G * Fp)
    bd = tuple(-x for x in (B, A - Gp * B + G * Bp, G * Ap - Gp * A))       # relative displacement
    bv = tuple(-x for x in (Bp, Ap + Fp * B - Fd * Bp, Fp * A - Fd * Ap))   # relative velocity
    # z'' = -x - 2 zeta wn z' - wn^2 z
    ba = tuple(-a[i] - b * bv[i] - k * bd[i] for i in range(3))            # relative acceleration
    babs = tuple(ba[i] + a[i] for i in range(3))                            # absolute = relative + base
    return {
        "reldisp": (bd, a), "relvelo": (bv, a), "relacce": (ba, a), "absacce": (babs, a),
        "pvelo": (tuple(wn * x for x in bd), a), "pacce": (tuple(k * x for x in bd), a),
    }


def _is_wn_zero_test(test):
    """wn == 0  -> 'eq',  wn != 0 -> 'ne', else None"""
    if isinstance(test, ast.Compare) and len(test.ops) == 1 and isinstance(test.left, ast.Name) \
            and isinstance(test.comparators[0], ast.Constant) and test.comparators[0].value == 0:
        if isinstance(test.ops[0], ast.Eq):
            return "eq"
        if isinstance(test.ops[0], ast.NotEq):
            return "ne"
    return None


def extract_filter(ctx, stype, zero):
    fn = ctx.src.func(SRS, stype)
    args = [a.arg for a in fn.args.args]
    if len(args) < 3:
        raise AnchorError(f"{stype}: expected (Q, dT, wn) parameters")
    zeta = F.sym("zeta")
    env = {args[0]: 1 / (2 * zeta), args[1]: F.sym("dT"), args[2]: F.const(0) if zero else F.sym("wn")}
    wn_name = args[2]

    def cond(test, ev):
        k = _is_wn_zero_test(test)
        if k is not None and test.left.id == wn_name:
            return (k == "eq") == zero
        return None

    ev = Evaluator(env=env, cond=cond, src=ctx.src)
    ev.run(fn.body)
    if not ev.returns:
        raise AnchorError(f"{stype}: no return")
    ret = ev.returns[-1][0]
    if not (isinstance(ret, tuple) and len(ret) == 2 and all(isinstance(x, tuple) for x in ret)):
        raise Unsupported(f"{stype}: return value is not (b, a) arrays")
    b, a = ret
    for i, x in enumerate(b):
        need(x, f"{stype} b[{i}]")
    for i, x in enumerate(a):
        need(x, f"{stype} a[{i}]")
    return b, a, fn


def r1_filters(ctx):
    ref = reference_filters()
    for st in STYPES:
        try:
            b, a, fn = extract_filter(ctx, st, zero=False)
        except Unsupported as e:
            ctx.error(f"{st}: extraction", None, str(e))
            continue
        rb, ra = ref[st]
        if len(b) != 3 or len(a) != 3:
            ctx.fail(f"{st}: general branch must be a second-order section (3 b, 3 a)", fn,
                     {"len_b": len(b), "len_a": len(a)})
            continue
        # transfer-function equality  b/a == rb/ra  coefficientwise after normalising a0
        for i in range(3):
            ok = (a[i] * ra[0]).equals(ra[i] * a[0])
            ctx.check(ok, f"{st}: a[{i}] equals the characteristic polynomial of the exact one-step recurrence", fn,
                      None if ok else {"code": repr(a[i]), "derived": repr(ra[i])})
        for i in range(3):
            ok = (b[i] * ra[0]).equals(rb[i] * a[0])
            ctx.check(ok, f"{st}: b[{i}] equals the ramp-invariant coefficient derived from the ODE", fn,
                      None if ok else {"code": repr(b[i]), "derived": repr(rb[i])})


def _polymul(p, q):
    out = [F.const(0)] * (len(p) + len(q) - 1)
    for i, x in enumerate(p):
        for j, y in enumerate(q):
            out[i + j] = out[i + j] + x * y
    return out


def r2_zero_limits(ctx):
    """The wn == 0 branch is the wn -> 0 limit of the general branch (as transfer functions)."""
    for st in STYPES:
        try:
            b, a, fn = extract_filter(ctx, st, zero=False)
            b0, a0, _ = extract_filter(ctx, st, zero=True)
        except Unsupported as e:
            ctx.error(f"{st}: extraction", None, str(e))
            continue
        try:
            bl, al = [], []
            for x in b:
                s = F.series(x, "wn", 0)
                if s.val < 0:
                    raise Unsupported("general branch singular at wn -> 0")
                bl.append(s.coef(0))
            for x in a:
                s = F.series(x, "wn", 0)
                if s.val < 0:
                    raise Unsupported("general branch singular at wn -> 0")
                al.append(s.coef(0))
        except Unsupported as e:
            ctx.fail(f"{st}: wn->0 limit exists", fn, str(e))
            continue
        # b_lim(z) * a0(z) == b0(z) * a_lim(z) as polynomials in z^-1
        lhs = _polymul(bl, list(a0))
        rhs = _polymul(list(b0), al)
        n = max(len(lhs), len(rhs))
        lhs += [F.const(0)] * (n - len(lhs))
        rhs += [F.const(0)] * (n - len(rhs))
        ok = all(x.equals(y) for x, y in zip(lhs, rhs))
        ctx.check(ok, f"{st}: wn==0 branch equals the wn->0 limit of the general branch (H_lim * a0 == b0 * a_lim)", fn,
                  None if ok else {"limit_b": [repr(x) for x in bl], "limit_a": [repr(x) for x in al],
                                   "zero_b": [repr(x) for x in b0], "zero_a": [repr(x) for x in a0]})
        # the zero branch must itself be a proper filter (a[0] == 1)
        ok = a0[0].equals(1)
        ctx.check(ok, f"{st}: wn==0 branch is normalised (a[0] == 1)", fn, None if ok else repr(a0[0]), nontrivial=False)


def _stype_cond(stype):
    def cond(test, ev):
        return _eval_stype_test(test, stype)
    return cond


def _eval_stype_test(test, stype):
    if isinstance(test, ast.Compare) and len(test.ops) == 1 and isinstance(test.left, ast.Name) \
            and test.left.id == "stype" and isinstance(test.comparators[0], ast.Constant):
        eq = test.comparators[0].value == stype
        if isinstance(test.ops[0], ast.Eq):
            return eq
        if isinstance(test.ops[0], ast.NotEq):
            return not eq
    if isinstance(test, ast.BoolOp):
        vals = [_eval_stype_test(v, stype) for v in test.values]
        if any(v is None for v in vals):
            return None
        return any(vals) if isinstance(test.op, ast.Or) else all(vals)
    return None


def _process_ic_steady(ctx, stype):
    fn = ctx.src.func(SRS, "_process_ic")
    s1 = F.sym("s1")

    def cond(test, ev):
        if isinstance(test, ast.Compare) and isinstance(test.left, ast.Name) and test.left.id == "ic" \
                and isinstance(test.comparators[0], ast.Constant) and isinstance(test.ops[0], ast.Eq):
            return test.comparators[0].value == "steady"
        return _eval_stype_test(test, stype)

    def sub(node, ev):
        # sig[0] -> first sample
        if ast.unparse(node) == "sig[0]":
            return s1
        return NotImplemented

    def call(node, ev):
        return NotImplemented

    ev = Evaluator(env={"sig": F.sym("sig"), "None": None}, cond=cond, src=ctx.src, subscript=sub)
    # None constants: evaluator returns Unknown for `None`; track doic/icvals specially
    ev.run(fn.body)
    if not ev.returns:
        raise AnchorError("_process_ic: no return")
    ret = ev.returns[-1][0]
    if not isinstance(ret, tuple) or len(ret) != 4:
        raise Unsupported("_process_ic must return (sig, s1, doic, icvals)")
    sig, s1v, doic, icvals = ret
    return sig, s1v, doic, icvals, fn


def _addback_chains(fn):
    """If-chains on stype whose arms augment a response history."""
    out = []
    for n in ast.walk(fn):
        if isinstance(n, ast.If) and _eval_stype_test(n.test, "reldisp") is not None:
            par = getattr(n, "_vparent", None)
            if isinstance(par, ast.If) and n in par.orelse and _eval_stype_test(par.test, "reldisp") is not None:
                continue  # elif arm of an outer chain
            targets = [a for a in ast.walk(n) if isinstance(a, ast.AugAssign) and isinstance(a.target, ast.Name)]
            if targets:
                out.append((n, targets[0].target.id))
    return out


def r3_dc_gain(ctx):
    """steady-state add-back == DC gain of the filter times the removed offset s1"""
    gains = {}
    for st in STYPES:
        try:
            b, a, fn = extract_filter(ctx, st, zero=False)
        except Unsupported as e:
            ctx.error(f"{st}: extraction", None, str(e))
            continue
        sb = b[0] + b[1] + b[2]
        sa = a[0] + a[1] + a[2]
        gains[st] = sb / sa
    want = {"absacce": F.const(1), "relacce": F.const(0), "relvelo": F.const(0),
            "reldisp": -1 / (F.sym("wn") ** 2), "pvelo": -1 / F.sym("wn"), "pacce": F.const(-1)}
    for st, g in gains.items():
        ok = g.equals(want[st])
        ctx.check(ok, f"{st}: DC gain sum(b)/sum(a) of the coefficient function equals H(s=0)", ctx.src.func(SRS, st),
                  None if ok else {"got": repr(g), "want": repr(want[st])})
    s1 = F.sym("s1")
    sites = []
    for q in ("srs", "_dosrs_nohist_ic", "_dosrs_ic"):
        fn = ctx.src.func(SRS, q)
        ch = _addback_chains(fn)
        if not ch:
            raise AnchorError(f"{q}: no stype add-back chain found")
        for c in ch:
            sites.append((q, fn, c))
    for st in STYPES:
        if st not in gains:
            continue
        try:
            sig, s1v, doic, icvals, pfn = _process_ic_steady(ctx, st)
        except Unsupported as e:
            ctx.error(f"{st}: _process_ic", None, str(e))
            continue
        ok = (not is_unknown(sig)) and need(sig).equals(F.sym("sig") - s1)
        ctx.check(ok, f"{st}: ic='steady' removes the first sample from the signal", pfn, None if ok else repr(sig))
        if is_unknown(doic):
            ctx.error(f"{st}: doic", pfn, repr(doic))
            continue
        doic_v = not need(doic).is_zero()
        if want[st].is_zero():
            ctx.check(not doic_v, f"{st}: zero DC gain => no steady-state add-back (doic == 0)", pfn)
            continue
        if not ctx.check(doic_v, f"{st}: non-zero DC gain => steady-state add-back enabled (doic != 0)", pfn):
            continue
        if is_unknown(icvals):
            ctx.error(f"{st}: icvals", pfn, repr(icvals))
            continue
        for q, fn, (chain, tgt) in sites:
            R = F.sym("R")
            env = {tgt: R}
            for nm in ("icvals", "ICVALS_"):
                env[nm] = icvals
            for nm in ("wn", "WN_"):
                env[nm] = F.sym("wn")
            ev = Evaluator(env=env, cond=_stype_cond(st), src=ctx.src)
            ev.stmt(chain)
            got = ev.env[tgt]
            if is_unknown(got):
                ctx.error(f"{st}: add-back in {q}", chain, repr(got))
                continue
            add = got - R
            wantv = want[st] * s1
            ok = add.equals(wantv)
            ctx.check(ok, f"{st}: steady-state add-back in {q} equals DCgain*s1", chain,
                      None if ok else {"added": repr(add), "DCgain*s1": repr(wantv)},
                      key=f"C03-R3|{st}|{q}")


def r4_windows(ctx):
    """primary / residual window bookkeeping in srs()"""
    fn = ctx.src.func(SRS, "srs")
    body = fn.body
    mdef = [s_ for s_ in body if isinstance(s_, ast.Assign) and ast.unparse(s_.targets[0]) == "M"]
    if len(mdef) != 1 or ast.unparse(mdef[0].value) != "N":
        raise AnchorError("srs: `M = N`")
    # N (the number of samples of the possibly resampled signal) must not change between M = N and the zero padding
    ptr_if = [s_ for s_ in body if isinstance(s_, ast.If) and ast.unparse(s_.test) == "ptr"]
    if len(ptr_if) != 1:
        raise AnchorError("srs: `if ptr:` padding block")
    i_m, i_p = body.index(mdef[0]), body.index(ptr_if[0])
    between = body[i_m + 1:i_p] if i_m < i_p else None
    redef = []
    if between is not None:
        for s_ in between:
            for n_ in ast.walk(s_):
                if isinstance(n_, ast.Name) and isinstance(n_.ctx, ast.Store) and n_.id in ("N", "sig"):
                    redef.append(ast.unparse(s_)[:60])
    ok = between is not None and not redef
    ctx.check(ok, "srs: M (end of the primary window) is taken from N after every resampling of the signal and before the zero padding", mdef[0],
              None if ok else {"signal/N reassigned after M = N": redef} if between is not None else "M = N comes after the padding")
    # later resampling sites all precede M = N
    roll = [s_ for s_ in ast.walk(fn) if isinstance(s_, ast.Assign) and "rollfunc(" in ast.unparse(s_.value)]
    ok = bool(roll) and all(r.lineno < mdef[0].lineno for r in roll)
    ctx.check(ok, "srs: every rolloff resampling of the signal precedes M = N", mdef[0], [r.lineno for r in roll])
    # the padding returns the new N
    txt = ast.unparse(ptr_if[0]).replace(" ", "")
    ctx.check("sig,N=_add_one_cycle(sig,freq,sr,H,ic,s1)" in txt, "srs: padding updates (sig, N) together", ptr_if[0])
    # S = M for residual, else 0
    sdef = [s_ for s_ in body if isinstance(s_, ast.Assign) and ast.unparse(s_.targets[0]) == "S"]
    ok = len(sdef) == 1 and ast.unparse(sdef[0].value).replace(" ", "") == "Mifptr==2else0"
    ctx.check(ok, "srs: the response is evaluated from S = M for the residual window and from 0 otherwise", sdef[0] if sdef else fn)
    ptrs = ctx.src.func(SRS, "_process_inputs")
    ok = "ptr={'primary':0,'total':1,'residual':2}" in utext(ptrs)
    ctx.check(ok, "_process_inputs: primary -> 0, total -> 1, residual -> 2", ptrs)
    # history allocation and time vector cover exactly N - S samples
    gr = [s_ for s_ in body if isinstance(s_, ast.If) and ast.unparse(s_.test) == "getresp"]
    if gr:
        t = ast.unparse(gr[0]).replace(" ", "").replace("'", '"')
        ok = 'ifptr==2:' in t and 'resp["t"]=np.arange(M,N)/sr' in t and '(N-M,H,LF)' in t and 'resp["t"]=np.arange(N)/sr' in t and '(N,H,LF)' in t
        ctx.check(ok, "srs: history buffers and resp['t'] span N - M samples (residual) or N samples (primary/total)", gr[0])
    else:
        ctx.error("srs: getresp allocation block", fn)
    # _add_one_cycle: zeros (minus s1 for steady) for one cycle of the lowest non-zero frequency
    ac = ctx.src.func(SRS, "_add_one_cycle")
    t = utext(ac).replace("'", '"')
    ok = "nzeros=int(np.ceil(sr/minf))" in t and "minf=freq[pv].min()" in t and "pv=(freq>0).nonzero()[0]" in t
    ctx.check(ok, "_add_one_cycle: pads ceil(sr / lowest non-zero frequency) samples", ac)
    ok = 'ific=="steady":' in t and "sig=np.vstack((sig,z-s1))" in t and "sig=np.vstack((sig,z))" in t
    ctx.check(ok, "_add_one_cycle: the padding is zero in the original signal's frame (z - s1 exactly when ic == 'steady' shifted the signal)", ac)


def r6_vrs(ctx):
    fn = ctx.src.func(SRS, "vrs")
    loops = [n for n in walk_no_nested(fn) if isinstance(n, ast.For)]
    loops = [l for l in loops if any(isinstance(x, ast.Name) and x.id == "p2z2" for x in ast.walk(l))]
    if len(loops) < 2:
        raise AnchorError("vrs: expected two transmissibility loops")
    zeta_stmt = [n for n in walk_no_nested(fn) if isinstance(n, ast.Assign) and isinstance(n.targets[0], ast.Name)
                 and n.targets[0].id == "zeta"]
    if not zeta_stmt:
        raise AnchorError("vrs: zeta definition")
    forms = []
    Q = F.sym("Q")
    for lp in loops:
        ev = Evaluator(env={"Q": Q, "freq": F.sym("f"), "fn": F.sym("fn"), "psdfull": F.sym("P"), "df": F.sym("df")},
                       src=ctx.src)
        ev.stmt(zeta_stmt[0])
        # the loop target is (i, fn)
        ev.run(lp.body)
        t = ev.env.get("t")
        # the quantity summed over frequency
        summed = None
        for n in ast.walk(lp):
            if isinstance(n, ast.Call) and dotted(n.func) == "np.sum" and n.args:
                summed = ev.ev(n.args[0])
        if summed is None or is_unknown(summed):
            ctx.error("vrs loop integrand", lp, repr(summed))
            continue
        forms.append((lp, summed))
    p = F.sym("f") / F.sym("fn")
    z = 1 / (2 * Q)
    ref = (1 + (2 * z * p) ** 2) / ((1 - p * p) ** 2 + (2 * z * p) ** 2) * F.sym("P") * F.sym("df")
    for lp, s in forms:
        ok = s.equals(ref)
        ctx.check(ok, "vrs: integrand equals |T|^2 * PSD * df with T the base-drive transmissibility "
                      "(1+(2 zeta p)^2)/((1-p^2)^2+(2 zeta p)^2)", lp, None if ok else {"got": repr(s), "want": repr(ref)})
    if len(forms) == 2:
        ok = forms[0][1].equals(forms[1][1])
        ctx.check(ok, "vrs: getresp and non-getresp loops integrate the same quantity", forms[1][0],
                  None if ok else {"a": repr(forms[0][1]), "b": repr(forms[1][1])})
    # Miles: z_miles^2 = (pi/2) f Q PSD in both arms
    miles = [n for n in walk_no_nested(fn) if isinstance(n, ast.Assign) and isinstance(n.targets[0], ast.Name)
             and n.targets[0].id == "z_miles" and isinstance(n.value, ast.Attribute)]
    cnt = 0
    for st in miles:
        ev = Evaluator(env={"Q": Q, "freq": F.sym("f"), "Fn": F.sym("f"), "psdfull": F.sym("P"), "psdf2": F.sym("P")},
                       src=ctx.src)
        v = ev.ev(st.value)
        if is_unknown(v):
            ctx.error("vrs: Miles expression", st, repr(v))
            continue
        ok = (v * v).equals(F.sym("pi") / 2 * F.sym("f") * Q * F.sym("P"))
        ctx.check(ok, "vrs: z_miles^2 == (pi/2) f Q PSD", st, None if ok else repr(v * v))
        cnt += 1
    if cnt < 2:
        raise AnchorError("vrs: expected two Miles arms")


def r7_eqsine(ctx):
    """srs(): on every path to a return, the returned spectrum - and the returned response history when there is one - has been divided
    by Q exactly once when eqsine is set and not at all otherwise (path enumeration over the option flags, not a pattern on the source)"""
    from .paths import flag_paths
    fn = ctx.src.func(SRS, "srs")

    def divided(st):
        """name of the array a statement divides by Q (`X /= Q`, `X = X / Q`), else None"""
        if isinstance(st, ast.AugAssign) and isinstance(st.op, ast.Div) and utext(st.value) == "Q":
            return utext(st.target)
        if isinstance(st, ast.Assign) and len(st.targets) == 1 and isinstance(st.value, ast.BinOp) and isinstance(st.value.op, ast.Div) \
                and utext(st.value.right) == "Q" and utext(st.value.left) == utext(st.targets[0]):
            return utext(st.targets[0])
        return None

    nret = 0
    seen = set()
    for eq in (True, False):
        for gr in (True, False):
            def truth(test, eq=eq, gr=gr):
                return {"eqsine": eq, "getresp": gr}.get(utext(test))
            for trace, end in flag_paths(fn.body, truth, relevant=lambda st: divided(st) is not None):
                if not isinstance(end, ast.Return) or end.value is None:
                    continue
                # loops are opaque in the trace: none of them may divide by Q
                for st in trace:
                    if isinstance(st, (ast.For, ast.While, ast.With, ast.Try)) and any(divided(x) for x in ast.walk(st) if isinstance(x, ast.stmt)):
                        raise Unsupported("a division by Q inside a loop of srs()")
                rv = [utext(e) for e in (end.value.elts if isinstance(end.value, ast.Tuple) else [end.value])]
                if "SRSmax" not in rv:
                    continue
                nret += 1
                sig = (eq, gr, id(end), tuple(id(st) for st in trace if divided(st)))
                if sig in seen:
                    continue
                seen.add(sig)
                cnt = {}
                for st in trace:
                    d = divided(st)
                    if d:
                        cnt[d] = cnt.get(d, 0) + 1
                hist = [k for k in cnt if k.startswith("resp[") and "hist" in k]
                want = 1 if eq else 0
                ok = cnt.get("SRSmax", 0) == want
                ctx.check(ok, f"srs (eqsine={eq}, getresp={gr}): the returned SRSmax is divided by Q {'once' if eq else 'not at all'} on the path to "
                              f"`{ast.unparse(end)}`", end, None if ok else cnt)
                if "resp" in rv:
                    n = sum(cnt[k] for k in hist)
                    ok = n == want
                    ctx.check(ok, f"srs (eqsine={eq}, getresp={gr}): the returned response history is divided by Q {'once' if eq else 'not at all'}", end,
                              None if ok else cnt)
    ctx.check(nret >= 4, f"eqsine rule bound to {nret} (flags, return) paths", fn, nontrivial=False)


def _all_atoms(r):
    """every atom of a formula, including those inside the arguments of opaque applications"""
    out = set()
    todo = [r]
    while todo:
        v = todo.pop()
        for a in v.n.atoms() | v.d.atoms():
            if a in out:
                continue
            out.add(a)
            d = F.atom_desc(a)
            if d[0] == "fn":
                for k in d[2]:
                    if not isinstance(k, str):
                        todo.append(F.Rat(F._poly_from_key(k[1]), F._poly_from_key(k[2])))
            elif d[0] in ("exp", "sin", "cos", "sqrt"):
                todo.append(F.Rat(F._poly_from_key(d[1])))
    return out


def r8_peak_selectors(ctx):
    """The reported spectrum value is the stated peak statistic of the response history over the time axis (axis 0; one column per signal):
    'abs' max |x|, 'pos' |max x|, 'poss' max x, 'neg' |min x|, 'negs' min x, 'rms' sqrt(mean x^2).  Each selector function is evaluated on
    symbols and compared with that definition (reductions in method or function form, mean or sum / number of time samples), and the
    name -> function table of _process_inputs is checked against the same definitions."""
    from .sem import Sem
    RED = {"max": "max", "amax": "max", "min": "min", "amin": "min", "mean": "mean", "sum": "sum", "nanmax": "nanmax", "nanmin": "nanmin"}

    def call(node, ev):
        d = dotted(node.func) or ""
        # reductions: x.max(axis=0) / np.max(x, axis=0) / np.amax(x, 0)
        if isinstance(node.func, ast.Attribute) and node.func.attr in RED:
            base = node.func.value
            if d.startswith(("np.", "numpy.")) and node.args:
                arr, rest = node.args[0], node.args[1:]
            else:
                arr, rest = base, node.args
            a = ev.ev(arr)
            ax = next((k.value for k in node.keywords if k.arg == "axis"), rest[0] if rest else None)
            if is_unknown(a) or isinstance(a, tuple):
                return NotImplemented
            axv = ev.ev(ax) if ax is not None else F.sym("None")
            if is_unknown(axv):
                return NotImplemented
            extra = [k.arg for k in node.keywords if k.arg not in ("axis",)]
            if extra:
                return NotImplemented
            return F.fn("red:" + RED[node.func.attr], need(a), need(axv))
        if d in ("len",) and node.args:
            a = ev.ev(node.args[0])
            return F.fn("nrows", need(a)) if not is_unknown(a) else NotImplemented
        if d == "max" and len(node.args) == 2 and isinstance(node.args[1], ast.Constant) and node.args[1].value == 1:
            return ev.ev(node.args[0])          # max(count, 1): the count itself for a non-empty history
        return NotImplemented

    def sub(node, ev):
        # resp.shape[0] is the number of time samples
        if isinstance(node.value, ast.Attribute) and node.value.attr == "shape" and isinstance(node.slice, ast.Constant) and node.slice.value == 0:
            a = ev.ev(node.value.value)
            return F.fn("nrows", need(a)) if not is_unknown(a) else NotImplemented
        return NotImplemented

    x = F.sym("resp")
    zero = F.const(0)
    mx, mn = F.fn("red:max", x, zero), F.fn("red:min", x, zero)
    want = {
        "abs": [F.fn("red:max", F.fn("abs", x), zero)],
        "pos": [F.fn("abs", mx)],
        "poss": [mx],
        "neg": [F.fn("abs", mn)],
        "negs": [mn],
        "rms": [F.sqrt(F.fn("red:mean", x * x, zero)), F.sqrt(F.fn("red:sum", x * x, zero) / F.fn("nrows", x))],
    }
    words = {"abs": "max |x|", "pos": "|max x|", "poss": "max x", "neg": "|min x|", "negs": "min x", "rms": "sqrt(mean x^2) over the time samples"}
    pi = ctx.src.func(SRS, "_process_inputs")
    table = None
    for st in walk_no_nested(pi):
        if isinstance(st, ast.Assign) and isinstance(st.value, ast.Dict) and st.value.keys and all(isinstance(k, ast.Constant) for k in st.value.keys):
            keys = [k.value for k in st.value.keys]
            if set(keys) >= {"abs", "rms"}:
                table = (st, dict(zip(keys, st.value.values)))
    if table is None:
        raise AnchorError("_process_inputs: peak-name table")
    st, tab = table
    ctx.check(set(tab) == set(want), "_process_inputs: the peak table offers exactly abs, pos, poss, neg, negs, rms", st, sorted(tab))
    for key in sorted(want):
        node = tab.get(key)
        if node is None:
            continue
        if not isinstance(node, ast.Name):
            ctx.error(f"peak '{key}': selector", st, ast.unparse(node))
            continue
        fn = ctx.src.func(SRS, node.id)
        params = [a.arg for a in fn.args.args]
        if len(params) != 1:
            ctx.fail(f"peak '{key}': selector takes the response history only", fn, params)
            continue
        S = Sem(ctx, fn, call=call, subscript=sub, env={params[0]: x, params[0] + ".size": F.fn("nrows", x) * F.fn("ncols", x)})
        got = S.ret()
        if got is None or is_unknown(got) or isinstance(got, tuple):
            ctx.error(f"peak '{key}': value of {node.id}", fn, repr(got))
            continue
        unmodelled = sorted({F.atom_desc(a)[1] for a in _all_atoms(need(got)) if F.atom_desc(a)[0] == "fn" and F.atom_desc(a)[1].startswith(("call:", "attr:", "idx"))})
        if unmodelled and not any(need(got).equals(w) for w in want[key]):
            ctx.error(f"peak '{key}': {node.id} uses operations this rule does not model", fn, unmodelled)
            continue
        ok = any(need(got).equals(w) for w in want[key])
        ctx.check(ok, f"peak '{key}' -> {node.id}: returns {words[key]} along the time axis (axis 0), one value per signal", fn,
                  None if ok else {"returns": repr(got), "definition": repr(want[key][0])})


RULES = [
    ("C03-R1", r1_filters, 36),
    ("C03-R2", r2_zero_limits, 12),
    ("C03-R3", r3_dc_gain, 20),
    ("C03-R4", r4_windows, 8),
    ("C03-R6", r6_vrs, 5),
    ("C03-R7", r7_eqsine, 4),
    ("C03-R8", r8_peak_selectors, 7),
]

LEVEL = "other"
EXPLANATION = ("Static, for all Q>0.5, dT, wn: each of the six SRS coefficient functions is extracted from the AST and its "
               "second-order section is compared, as exact symbolic expressions, with the ramp-invariant filter derived inside "
               "the checker from the oscillator ODE (homogeneous solution -> particular solution for a linear force -> z-transform "
               "of the one-step recurrence); wn==0 branches are the wn->0 limits; steady-state add-back equals DC gain times the "
               "removed offset at all three code sites; vrs integrand/Miles closed forms; eqsine division. Does not decide lfilter, "
               "resampling, window bookkeeping on data or peak statistics.")
MANIFEST = {
    "text": "Partial claim decided statically for all parameters: (R1) every SRS coefficient function's general branch equals, "
            "as an exact symbolic identity, the ramp-invariant digital filter derived in the checker from the damped-oscillator ODE; "
            "(R2) each wn==0 branch is the wn->0 limit of its general branch; (R3) the steady-state initial-condition add-back in "
            "srs() and both parallel workers equals the filter's DC gain times the removed offset, and is absent exactly for the "
            "zero-gain types; (R6) both vrs loops integrate the closed-form transmissibility and Miles' expression; (R7) eqsine = /Q on "
            "every return path; (R8) each peak selector (abs, pos, poss, neg, negs, rms) returns its stated statistic along the time axis and the name table maps "
            "each name to the function with that value. Not decided: scipy.signal.lfilter realising the recursion, resampling/rolloff quality, vrs quadrature weights.",
    "note": "Trusted: CPython ast, verifier/e2_formula.py exact algebra (self-checks its reference homogeneous solution against the ODE on every run). "
            "Assumes scipy.signal.lfilter implements the difference equation of (b, a).",
    "technique": "static formula extraction + exact symbolic normal forms compared with an ODE-derived reference filter (z-transform of the exact one-step recurrence)",
}
