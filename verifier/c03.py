"""C03 -- shock response spectrum (partial claim, DESIGN.md section 3).

Every rule decides on *values*: the anchored functions of pyyeti/srs.py (the six coefficient functions, `_process_ic`, `srs`, the
`_dosrs*` workers, `vrs`, `srs_frf` (rule R9 in `c03_frf.py`), the peak selectors) are evaluated on symbols by `c03_sem.Ev3` - module-level helpers followed, module-level
constants folded, option strings seeded as values, undecided tests explored both ways - and the values that reach `lfilter`, the peak
function, the response-history stores, the allocations and the `return` are compared with the expected expressions.  No rule looks at
the spelling of a local name, at statement order, at which arm of an `if` holds what, or at whether a block sits in a helper.
A comparison that fails on a value which goes through a call the evaluator could not resolve (a table entry it cannot follow, a selector that is
not a module-level function) is reported as *not decided* (ANALYSIS-ERROR), never as a violation (`_check`, `c03_sem.unresolved`)."""
from __future__ import annotations

import ast

from . import e2_formula as F
from .core import AnchorError, Unsupported
from .e1_srcmodel import dotted
from .e2_eval import DictValue, is_unknown, need
from .sem import unfn
from . import c03_sem as X
from . import c03_frf
from .c03_sem import S, TRUE, FALSE, NONE, Sem3, explore, str_of, sym_of, rows_of

SRS = "pyyeti/srs.py"
STYPES = ("absacce", "relacce", "reldisp", "relvelo", "pvelo", "pacce")
ICS = ("zero", "shift", "mshift", "steady")
TIMES = ("primary", "total", "residual")


def reference_filters():
    """Ramp-invariant filters derived in the checker from the oscillator ODE

        z'' + 2 zeta wn z' + wn^2 z = -x(t),   x linear between samples.

    Homogeneous solution (textbook, self-checked below by its defining ODE and
    initial values), particular solution a0 + a1*tau for a linear force, then the
    z-transform of the resulting one-step state recurrence.  Nothing is taken
    from the repository."""
    zeta, wn, h = F.sym("zeta"), F.sym("wn"), F.sym("dT")
    sqz = F.sqrt(1 - zeta * zeta)
    beta = zeta * wn
    w = wn * sqz
    k = wn * wn
    b = 2 * beta
    e = F.exp(-beta * h)
    c, s = F.cos(w * h), F.sin(w * h)
    Fd = e * (c + (beta / w) * s)
    G = e * s / w
    Fp = -(k / w) * e * s
    Gp = e * (c - (beta / w) * s)
    # self-check of the homogeneous solution
    for nm, lhs, rhs in (("F'", Fd.diff("dT"), Fp), ("G'", G.diff("dT"), Gp),
                         ("Fp'", Fp.diff("dT"), -k * Fd - b * Fp), ("Gp'", Gp.diff("dT"), -k * G - b * Gp)):
        if not lhs.equals(rhs):
            raise Unsupported(f"checker self-test failed: reference homogeneous solution, {nm}")
    for nm, x, v in (("F0", Fd, 1), ("G0", G, 0), ("Fp0", Fp, 0), ("Gp0", Gp, 1)):
        if not x.subs({"dT": 0}).equals(v):
            raise Unsupported(f"checker self-test failed: reference initial value {nm}")
    # particular solution: z_p = a0 + a1 tau, a1 = (p1-p0)/(h k), a0 = (p0 - b a1)/k
    A = (1 - Fd) * (1 / k + b / (h * k * k)) - (h - G) / (h * k)
    B = (1 - Fd) * (-b / (h * k * k)) + (h - G) / (h * k)
    Ap = -Fp * (1 / k + b / (h * k * k)) - (1 - Gp) / (h * k)
    Bp = Fp * (b / (h * k * k)) + (1 - Gp) / (h * k)
    # z-transform of s_{n+1} = Phi s_n + G0 p_n + G1 p_{n+1},  p = -x
    a = (F.const(1), -(Fd + Gp), Fd * Gp - G * Fp)
    bd = tuple(-x for x in (B, A - Gp * B + G * Bp, G * Ap - Gp * A))       # relative displacement
    bv = tuple(-x for x in (Bp, Ap + Fp * B - Fd * Bp, Fp * A - Fd * Ap))   # relative velocity
    # z'' = -x - 2 zeta wn z' - wn^2 z
    ba = tuple(-a[i] - b * bv[i] - k * bd[i] for i in range(3))            # relative acceleration
    babs = tuple(ba[i] + a[i] for i in range(3))                            # absolute = relative + base
    return {
        "reldisp": (bd, a), "relvelo": (bv, a), "relacce": (ba, a), "absacce": (babs, a),
        "pvelo": (tuple(wn * x for x in bd), a), "pacce": (tuple(k * x for x in bd), a),
    }


# ---------------------------------------------------------------------------------------------------------------- coefficient functions
def _flat(v):
    """a display of scalars and vectors -> the vector of their elements (np.hstack / np.concatenate / np.r_ of scalar coefficients)"""
    out = []
    for x in v:
        if isinstance(x, tuple):
            out.extend(_flat(x))
        else:
            out.append(x)
    return tuple(out)


def _coef_sub(node, ev):
    """np.r_[c0, c1, c2] in a coefficient function (every quantity there is a scalar): the vector of the items"""
    if dotted(node.value) in ("np.r_", "numpy.r_", "np.c_"):
        v = ev.ev(node.slice)
        if isinstance(v, tuple) and not any(isinstance(x, DictValue) or X.str_of(x) is not None for x in _flat(v) if not is_unknown(x)):
            return _flat(v)
    return NotImplemented


def _coef_hook(node, ev):
    """np.zeros(3) / np.ones(3) in a coefficient function: a vector of that many zeros / ones (np.empty(3): of elements without a value);
    np.hstack / np.concatenate / np.stack of scalars and vectors: the vector of the elements"""
    d = dotted(node.func) or ""
    if d.split(".")[-1] in ("hstack", "concatenate", "stack", "append") and d.startswith(("np.", "numpy.")) and node.args and not node.keywords:
        v = ev.ev(node.args[0]) if len(node.args) == 1 else tuple(ev.ev(a) for a in node.args)
        if isinstance(v, tuple):
            return _flat(v)
    if d in ("np.empty", "numpy.empty") and node.args:
        n = ev.ev(node.args[0])
        if isinstance(n, tuple) and len(n) == 1:
            n = n[0]
        if not is_unknown(n) and not isinstance(n, (tuple, DictValue)) and n.is_const() and n.const_value().denominator == 1 and 1 <= n.const_value() <= 8:
            return tuple(X.Unknown("an element of np.empty(..) that nothing was stored into") for _ in range(int(n.const_value())))
    if d in ("np.zeros", "numpy.zeros", "np.ones", "numpy.ones", "np.zeros_like", "np.ones_like") and node.args:
        n = ev.ev(node.args[0])
        one = F.const(1 if "ones" in d else 0)
        if isinstance(n, tuple) and d.endswith("_like"):
            return tuple(one for _ in n)
        if not is_unknown(n) and not isinstance(n, (tuple, DictValue)) and n.is_const() and n.const_value().denominator == 1 and 1 <= n.const_value() <= 8:
            return tuple(one for _ in range(int(n.const_value())))
        if isinstance(n, tuple) and len(n) == 1 and not is_unknown(n[0]) and n[0].is_const() and 1 <= n[0].const_value() <= 8:
            return tuple(one for _ in range(int(n[0].const_value())))
    return NotImplemented


def _wn_general(test, ev):
    """general regime of a coefficient function (wn a symbol): `c * wn == 0` is false, whatever the operands are called"""
    if isinstance(test, ast.Compare) and len(test.ops) == 1 and isinstance(test.ops[0], (ast.Eq, ast.NotEq)):
        a, b = ev.ev(test.left), ev.ev(test.comparators[0])
        if is_unknown(a) or is_unknown(b) or isinstance(a, (tuple, DictValue)) or isinstance(b, (tuple, DictValue)):
            return None
        r = (need(a) - need(b)) / F.sym("<wn>")
        if r.is_const() and not r.is_zero():
            return isinstance(test.ops[0], ast.NotEq)
    return None


_PI_LO, _PI_HI = F.const(31415926535) / F.const(10 ** 10), F.const(31415926536) / F.const(10 ** 10)
DOMAIN_MAX_SR_OVER_FN = 2000          # properties.jsonl: "sr/fn within the range where the ramp-invariant coefficients are well conditioned (<= 2000)"


def _threshold_test(test, ev):
    """`T < c` / `T <= c` / `c > T` / `c >= T` (or the opposite orientation) with c a positive constant and T = r * wn, r free of wn: a regime boundary at a
    *small but positive* frequency.  -> (T, c, small_is_true) or None"""
    if not (isinstance(test, ast.Compare) and len(test.ops) == 1 and isinstance(test.ops[0], (ast.Lt, ast.LtE, ast.Gt, ast.GtE))):
        return None
    a, b = ev.ev(test.left), ev.ev(test.comparators[0])
    if any(v is None or is_unknown(v) or isinstance(v, (tuple, DictValue)) for v in (a, b)):
        return None
    less = isinstance(test.ops[0], (ast.Lt, ast.LtE))
    for T, c, small in ((a, b, less), (b, a, not less)):
        if c.is_const() and c.const_value() > 0 and not T.is_const():
            u = unfn(T)
            if u and u[0] == "abs" and len(u[1]) == 1 and not isinstance(u[1][0], str):
                T = u[1][0]
            r = T / F.sym("<wn>")
            if not r.is_zero() and not X.depends(r, "<wn>"):
                return T, c, small
    return None


def _positive_factor(r):
    """r (free of wn) is positive for every dT > 0 and Q > 0.5: a positive constant times powers of dT and of sqrt(1 - zeta^2)"""
    zeta = F.sym("<zeta>")
    sqz = F.sqrt(1 - zeta * zeta)
    for p in (0, 1, -1, 2):
        for q in (0, 1, -1, 2):
            f = r / (F.sym("<dT>") ** p) / (sqz ** q)
            if f.is_const() and f.const_value() > 0:
                return True
    return False


def _sign_test(test, ev):
    """`wn <= 0`, `wn > 0`, `0 < B`, ... in the general regime (wn > 0): an order comparison of r * wn (r positive) with zero is decided"""
    if not (isinstance(test, ast.Compare) and len(test.ops) == 1 and isinstance(test.ops[0], (ast.Lt, ast.LtE, ast.Gt, ast.GtE))):
        return None
    a, b = ev.ev(test.left), ev.ev(test.comparators[0])
    if any(v is None or is_unknown(v) or isinstance(v, (tuple, DictValue)) for v in (a, b)):
        return None
    greater = isinstance(test.ops[0], (ast.Gt, ast.GtE))
    for T, z, g in ((a, b, greater), (b, a, not greater)):
        if z.is_zero() and not T.is_const():
            r = T / F.sym("<wn>")
            if not X.depends(r, "<wn>") and _positive_factor(r):
                return g            # T > 0 holds, T < 0 / T <= 0 do not
    return None


def _admits_domain(T, c):
    """can `T < c` hold for an oscillator of the documented domain (wn > 0, Q > 0.5, sr/fn <= 2000, i.e. wn*dT >= 2*pi/2000)?  True / False / None"""
    zeta = F.sym("<zeta>")
    R = T / (F.sym("<wn>") * F.sym("<dT>"))
    sqz = F.sqrt(1 - zeta * zeta)
    for form, inf_zero in ((R, False), (R / sqz, True), (R * F.sym("<dT>"), True), (R * F.sym("<dT>") / sqz, True)):
        if form.is_const() and form.const_value() > 0:
            if inf_zero:
                return True           # the factor sqrt(1 - zeta^2) (Q -> 0.5) or the free step dT brings T below any positive bound inside the domain
            lim = c * (DOMAIN_MAX_SR_OVER_FN // 2) / form              # T < c  <=>  wn*dT < c/k; in the domain wn*dT >= pi/1000
            if (lim - _PI_HI).is_const() and (lim - _PI_HI).const_value() >= 0:
                return True
            if (lim - _PI_LO).is_const() and (lim - _PI_LO).const_value() <= 0:
                return False
    return None


def _wn_regime(seen, force=None):
    """oracle of the general regime (wn a positive symbol) that also settles threshold tests on wn: by default the arm for the larger frequencies is taken
    (the test is noted in `seen`); `force` = id of a test node whose small-frequency arm is to be taken instead"""
    def cond(test, ev):
        r = _wn_general(test, ev)
        if r is not None:
            return r
        th = _threshold_test(test, ev)
        if th is None:
            return _sign_test(test, ev)
        T, c, small = th
        if not any(t is test for t, _T, _c, _s in seen):
            seen.append((test, T, c, small))
        take_small = force is not None and force == id(test)
        return small if take_small else not small
    return cond


def _vector(S_, v, what):
    if isinstance(v, tuple):
        return v
    u = unfn(v) if v is not None and not is_unknown(v) and not isinstance(v, DictValue) else None
    if u and u[0] == "idx" and len(u[1]) == 2 and not isinstance(u[1][0], str) and not isinstance(u[1][1], str) and S_.ev.is_array_object(sym_of(u[1][0])):
        # OBJ[key] of a dictionary the function itself fills: the one value stored under that key (created with it, or stored once)
        obj = sym_of(u[1][0])
        ok, key = X.pykey(u[1][1])
        init = S_.ev.env.get("<init:%s>" % obj)
        if ok and isinstance(init, DictValue):
            stored = [init.d[key]] if key in init.d else []
            for _nm, ix, val, _st in S_.cells(obj):
                if is_unknown(ix) or isinstance(ix, (tuple, DictValue)):
                    raise Unsupported(f"{what}: a store into the returned dictionary under an undetermined key")
                if X.pykey(ix) == (True, key):
                    stored.append(val)
            if len(stored) == 1:
                return _vector(S_, stored[0], what)
    n = sym_of(v) if not is_unknown(v) and not isinstance(v, DictValue) else None
    if n is not None and S_.ev.is_array_object(n):
        # an array filled element by element (here or in a helper that returns it)
        got = {}
        init = S_.ev.env.get("<init:%s>" % n)
        if isinstance(init, tuple):
            got = dict(enumerate(init))
        for _nm, ix, val, _st in S_.cells(n):
            if is_unknown(ix):
                raise Unsupported(f"{what}: element store with a non-constant index")
            u = unfn(need(ix))
            if u and u[0] == "slice" and len(u[1]) == 3 and got and sorted(got) == list(range(len(got))):
                # X[1:] = (c1, c2) / X[:] = c on a vector of known length
                try:
                    lo, hi, stp = (None if sym_of(z) == "None" else int(z.const_value()) for z in u[1])
                except Exception:  # noqa
                    raise Unsupported(f"{what}: slice store with non-constant bounds")
                where = list(range(len(got)))[slice(lo, hi, stp)]
                vals = list(val) if isinstance(val, tuple) else [val] * len(where)
                if len(vals) != len(where):
                    raise Unsupported(f"{what}: slice store of {len(vals)} values into {len(where)} elements")
                for k, x in zip(where, vals):
                    got[k] = x
                continue
            if sym_of(need(ix)) == "Ellipsis" and got:
                vals = list(val) if isinstance(val, tuple) else [val] * len(got)
                if len(vals) != len(got):
                    raise Unsupported(f"{what}: store of {len(vals)} values into {len(got)} elements")
                got = dict(enumerate(vals))
                continue
            if not need(ix).is_const() or need(ix).const_value().denominator != 1:
                raise Unsupported(f"{what}: element store with a non-constant index")
            k = int(need(ix).const_value())
            got[k if k >= 0 or not got else len(got) + k] = val
        if got and sorted(got) == list(range(len(got))):
            return tuple(got[k] for k in range(len(got)))
    raise Unsupported(f"{what}: return value is not (b, a) arrays")


def extract_filter(ctx, stype, zero):
    cache = ctx.__dict__.setdefault("_c03_filters", {})
    key = (stype, zero)
    if key in cache:
        r = cache[key]
        if isinstance(r, Exception):
            raise r
        return r
    try:
        r = _extract_filter(ctx, stype, zero)
    except (Unsupported, AnchorError) as e:
        cache[key] = e
        raise
    cache[key] = r
    return r


def threshold_arms(ctx, stype):
    """the threshold tests on wn met while the general branch of the coefficient function `stype` was extracted: [(test node, T, c, small_is_true)]"""
    extract_filter(ctx, stype, zero=False)
    return ctx.__dict__.setdefault("_c03_thresholds", {}).get(stype, [])


def _extract_filter(ctx, stype, zero, force=None):
    fn = ctx.src.func(SRS, stype)
    params = [a.arg for a in fn.args.posonlyargs + fn.args.args]
    if len(params) < 3:
        raise AnchorError(f"{stype}: expected (Q, dT, wn) parameters")
    # the seeds are not Python identifiers: a free name of the source (an unbound `zeta`, say) can never be mistaken for one of them
    zeta = F.sym("<zeta>")
    env = {params[0]: 1 / (2 * zeta), params[1]: F.sym("<dT>"), params[2]: F.const(0) if zero else F.sym("<wn>")}
    seen = []
    S_ = Sem3(ctx, fn, SRS, cond=None if zero else _wn_regime(seen, force), env=env, hooks=(_coef_hook,), sub_hooks=(_coef_sub,))
    if not zero and force is None:
        ctx.__dict__.setdefault("_c03_thresholds", {})[stype] = seen
    if not S_.ev.returns:
        raise AnchorError(f"{stype}: no return")
    ret = S_.ret()
    if is_unknown(ret):
        raise Unsupported(f"{stype}: return value: {ret.why}")
    if not (isinstance(ret, tuple) and len(ret) == 2):
        raise Unsupported(f"{stype}: return value is not (b, a) arrays")
    b, a = (_vector(S_, x, stype) for x in ret)
    back = {"<zeta>": F.sym("zeta"), "<dT>": F.sym("dT"), "<wn>": F.sym("wn")}
    out = []
    for nm, vec in (("b", b), ("a", a)):
        new = []
        for i, x in enumerate(vec):
            need(x, f"{stype} {nm}[{i}]")
            un = sorted(n for n in X.fn_names(x) if n.startswith(("call:", "attr:", "idx", "apply")))
            if un:
                raise Unsupported(f"{stype} {nm}[{i}] uses operations this rule does not model: {un}")
            free = sorted(X.sym_names(x) - set(back) - {"pi"})
            if free:
                raise Unsupported(f"{stype} {nm}[{i}] depends on names that are not bound in the function: {free}")
            new.append(x.subs(back))
        out.append(tuple(new))
    return out[0], out[1], fn


def r1_filters(ctx):
    ref = reference_filters()
    for st in STYPES:
        try:
            b, a, fn = extract_filter(ctx, st, zero=False)
        except Unsupported as e:
            ctx.error(f"{st}: extraction", None, str(e))
            continue
        rb, ra = ref[st]
        if len(b) != 3 or len(a) != 3:
            ctx.fail(f"{st}: general branch must be a second-order section (3 b, 3 a)", fn,
                     {"len_b": len(b), "len_a": len(a)})
            continue
        # transfer-function equality  b/a == rb/ra  coefficientwise after normalising a0
        for i in range(3):
            ok = (a[i] * ra[0]).equals(ra[i] * a[0])
            ctx.check(ok, f"{st}: a[{i}] equals the characteristic polynomial of the exact one-step recurrence", fn,
                      None if ok else {"code": repr(a[i]), "derived": repr(ra[i])})
        for i in range(3):
            ok = (b[i] * ra[0]).equals(rb[i] * a[0])
            ctx.check(ok, f"{st}: b[{i}] equals the ramp-invariant coefficient derived from the ODE", fn,
                      None if ok else {"code": repr(b[i]), "derived": repr(rb[i])})
        # an arm selected by a threshold on the frequency (`B < 5e-3`) rather than by wn == 0: where the test can hold for an oscillator of the documented
        # domain (wn > 0, sr/fn <= 2000) the arm must return the ramp-invariant coefficients too - a limiting-case formula is exact at wn == 0 only
        for test, T, c, _small in threshold_arms(ctx, st):
            adm = _admits_domain(T, c)
            what = f"{st}: the arm selected by a threshold on the frequency returns the ramp-invariant coefficients wherever it is taken inside the documented domain"
            if adm is None:
                ctx.error(what + " - not decided: whether the test can hold inside the domain", test, {"quantity": repr(T), "bound": repr(c)})
                continue
            if not adm:
                ctx.ok(what + " (the threshold lies outside the domain: only wn == 0 selects the arm)", test)
                continue
            try:
                b2, a2, _fn = _extract_filter(ctx, st, zero=False, force=id(test))
            except Unsupported as e:
                ctx.error(what + " - not decided", test, str(e))
                continue
            bad = {}
            if len(b2) != 3 or len(a2) != 3:
                bad["shape"] = [len(b2), len(a2)]
            else:
                for i in range(3):
                    if not (a2[i] * ra[0]).equals(ra[i] * a2[0]):
                        bad[f"a[{i}]"] = {"code": repr(a2[i]), "derived": repr(ra[i])}
                    if not (b2[i] * ra[0]).equals(rb[i] * a2[0]):
                        bad[f"b[{i}]"] = {"code": repr(b2[i]), "derived": repr(rb[i])[:300]}
            ctx.check(not bad, what, test, dict(bad, test_holds_for={"quantity": repr(T), "below": repr(c)}) if bad else None)


def _polymul(p, q):
    out = [F.const(0)] * (len(p) + len(q) - 1)
    for i, x in enumerate(p):
        for j, y in enumerate(q):
            out[i + j] = out[i + j] + x * y
    return out


def r2_zero_limits(ctx):
    """The wn == 0 branch is the wn -> 0 limit of the general branch (as transfer functions)."""
    for st in STYPES:
        try:
            b, a, fn = extract_filter(ctx, st, zero=False)
            b0, a0, _ = extract_filter(ctx, st, zero=True)
        except Unsupported as e:
            ctx.error(f"{st}: extraction", None, str(e))
            continue
        try:
            bl, al = [], []
            for x in b:
                s = F.series(x, "wn", 0)
                if s.val < 0:
                    raise Unsupported("general branch singular at wn -> 0")
                bl.append(s.coef(0))
            for x in a:
                s = F.series(x, "wn", 0)
                if s.val < 0:
                    raise Unsupported("general branch singular at wn -> 0")
                al.append(s.coef(0))
        except Unsupported as e:
            ctx.fail(f"{st}: wn->0 limit exists", fn, str(e))
            continue
        # b_lim(z) * a0(z) == b0(z) * a_lim(z) as polynomials in z^-1
        lhs = _polymul(bl, list(a0))
        rhs = _polymul(list(b0), al)
        n = max(len(lhs), len(rhs))
        lhs += [F.const(0)] * (n - len(lhs))
        rhs += [F.const(0)] * (n - len(rhs))
        ok = all(x.equals(y) for x, y in zip(lhs, rhs))
        ctx.check(ok, f"{st}: wn==0 branch equals the wn->0 limit of the general branch (H_lim * a0 == b0 * a_lim)", fn,
                  None if ok else {"limit_b": [repr(x) for x in bl], "limit_a": [repr(x) for x in al],
                                   "zero_b": [repr(x) for x in b0], "zero_a": [repr(x) for x in a0]})
        # the zero branch must itself be a proper filter (a[0] == 1)
        ok = a0[0].equals(1)
        ctx.check(ok, f"{st}: wn==0 branch is normalised (a[0] == 1)", fn, None if ok else repr(a0[0]), nontrivial=False)


# ---------------------------------------------------------------------------------------------------------------- srs() on symbols
def _opaque_helpers(ctx):
    """module-level helpers that stay opaque in the evaluation of srs(): those that allocate shared memory (their result stands for the array
    they are given) and those that ask the machine for its CPU count (nothing the property speaks about depends on the answer)"""
    cache = ctx.__dict__.setdefault("_c03_opaque", {})
    if "v" not in cache:
        out = set()
        m = ctx.src.mod(SRS)
        for q, f in m.funcs.items():
            if "." in q or "#" in q:
                continue
            for n in ast.walk(f):
                if isinstance(n, ast.Call):
                    last = (dotted(n.func) or "").split(".")[-1]
                    if last in ("Array", "RawArray", "cpu_count", "SharedMemory"):
                        out.add(q)
        cache["v"] = frozenset(out)
    return cache["v"]


def _returns_pair(ctx, v):
    """the value is the result of calling a module-level function every `return` of which is a display of two items (the coefficient functions:
    `return b, a`) - so `*value` in an argument list supplies exactly two arguments"""
    u = unfn(v) if (v is not None and not is_unknown(v) and not isinstance(v, (tuple, DictValue))) else None
    name = None
    if u and u[0] == "apply" and u[1] and not isinstance(u[1][0], str):
        name = sym_of(u[1][0])
    elif u and u[0].startswith("call:"):
        name = u[0][5:]
    if name is None or ctx is None or not ctx.src.has_func(SRS, name):
        return False
    fn = ctx.src.mod(SRS).funcs[name]
    rets = [n for n in ast.walk(fn) if isinstance(n, ast.Return)]
    own = [r for r in rets if not any(isinstance(a, (ast.FunctionDef, ast.Lambda)) and a is not fn and r in ast.walk(a) for a in ast.walk(fn))]
    return bool(own) and all(isinstance(r.value, ast.Tuple) and len(r.value.elts) == 2 and not any(isinstance(e, ast.Starred) for e in r.value.elts) for r in own)


_LFILTER_SIG = ("b", "a", "x", "axis", "zi")      # scipy.signal.lfilter(b, a, x, axis=-1, zi=None): three required


def _star_arity(node, star, kw):
    """number of items the one starred argument of an lfilter call must supply for the call to bind at all (every other count is a TypeError before
    anything is filtered): the required (b, a, x) must be filled by position or keyword, and no parameter may be given twice.  None when the
    count is not determined (several stars, `**`, more than one count possible)"""
    if sum(isinstance(a, ast.Starred) for a in node.args) != 1 or any(k.arg is None for k in node.keywords):
        return None
    if any(k not in _LFILTER_SIG for k in kw):
        return None
    plain = len(node.args) - 1
    ok = []
    for n in range(0, len(_LFILTER_SIG) + 1):
        by_pos = _LFILTER_SIG[:plain + n]
        if plain + n > len(_LFILTER_SIG) or any(k in by_pos for k in kw):
            continue
        if all(r in by_pos or r in kw for r in _LFILTER_SIG[:3]):
            ok.append(n)
    return ok[0] if len(ok) == 1 else None


def _lfilter_hook(records, ctx=None):
    def hook(node, ev):
        d = dotted(node.func) or ""
        if d.split(".")[-1] != "lfilter":
            return NotImplemented
        if getattr(ev, "in_template", 0):
            # inside the generic element of a comprehension (evaluated once, for a placeholder position): a record made here would not be the call of
            # any iteration the rule looks at
            return X.Unknown("lfilter inside a comprehension over a sequence that is not enumerable from the source")
        kw = {k.arg: ev.ev(k.value) for k in node.keywords if k.arg is not None}
        pos = []
        for a in node.args:
            if isinstance(a, ast.Starred):
                v = ev.ev(a.value)
                if isinstance(v, tuple):
                    pos.extend(v)
                elif _returns_pair(ctx, v) or (_star_arity(node, a, kw) == 2 and v is not None and not is_unknown(v) and not isinstance(v, DictValue)):
                    first, second = 0, 1
                    uv = unfn(need(v))
                    if uv and uv[0] == "idx" and len(uv[1]) == 2 and not isinstance(uv[1][0], str) and not isinstance(uv[1][1], str):
                        sl = unfn(uv[1][1])
                        if sl and sl[0] == "slice" and len(sl[1]) == 3 and sym_of(sl[1][0]) == "None" and sym_of(sl[1][1]) == "None" \
                                and not isinstance(sl[1][2], str) and sl[1][2].equals(-1):
                            v, first, second = uv[1][0], 1, 0       # a pair read backwards: (*pair[::-1]) supplies pair[1], pair[0]
                    pos.extend([F.fn("idx", need(v), F.const(first)), F.fn("idx", need(v), F.const(second))])     # lfilter(*coeffunc(Q, dT, w), x, ...)
                else:
                    pos.append(X.Unknown("unpacking of a value whose length the evaluator does not know"))
                    break
            else:
                pos.append(ev.ev(a))
        names = ["b", "a", "x", "axis"]
        got = dict(zip(names, pos))
        got.update({k: v for k, v in kw.items() if k in names})
        extra = [k for k in kw if k not in names]
        x = got.get("x")
        # the same call on the same values (an expression the evaluator visits again: `lfilter(...)[S:]` under a subscript hook) is the same filter output
        key = (id(node), ev.chain, repr([got.get(k) for k in names]), repr(sorted(extra)))
        for r in records:
            if r.get("key") == key:
                return r["sym"]
        if x is None or is_unknown(x) or isinstance(x, (tuple, DictValue)):
            s = F.sym("<lfilter%d>" % len(records))
        else:
            s = F.fn("lfilt", F.const(len(records)), need(x))       # the filtered signal: as many rows as x
        records.append({"sym": s, "b": got.get("b"), "a": got.get("a"), "x": got.get("x"), "axis": got.get("axis"), "node": node, "extra": extra, "key": key})
        return s
    return hook


def _srs_fixed(parallel, params):
    """what the regime fixes beyond the seeded option strings: a 2-D signal array, `sr` given, and which of the serial / parallel code paths runs"""
    def fixed(test, ev):
        v = ev.ev(test)
        if v is None or is_unknown(v) or isinstance(v, (tuple, DictValue)):
            return None
        u = unfn(v)
        if u and u[0] in ("cmp:Eq", "cmp:NotEq", "cmp:Is", "cmp:IsNot") and len(u[1]) == 2 and not any(isinstance(z, str) for z in u[1]):
            a, b = u[1]
            eq = u[0] in ("cmp:Eq", "cmp:Is")
            for x, y in ((a, b), (b, a)):
                ux = unfn(x)
                if ux and ux[0] == "attr:ndim" and y.is_const() and y.const_value() == 1:
                    return not eq
                if sym_of(y) == "None" and sym_of(x) in params:
                    return not eq
                sy = str_of(y)
                if sy in ("yes", "no", "auto") and str_of(x) is None:
                    return (parallel == sy) == eq
        return None
    return fixed


def _peak_function(ctx, key):
    """name of the module-level function `_process_inputs` selects for the peak name `key` (None when it does not resolve to one)"""
    cache = ctx.__dict__.setdefault("_c03_peak", {})
    if key not in cache:
        pi = ctx.src.func(SRS, "_process_inputs")
        pp = [a.arg for a in pi.args.posonlyargs + pi.args.args]
        if len(pp) != 4:
            raise AnchorError("_process_inputs(stype, peak, rolloff, time)")
        S_ = Sem3(ctx, pi, SRS, env={pp[0]: S("absacce"), pp[1]: S(key), pp[2]: S("none"), pp[3]: S("primary")})
        ret = S_.ret()
        v = ret[1] if isinstance(ret, tuple) and len(ret) == 4 else None
        name = sym_of(v) if v is not None and not is_unknown(v) and not isinstance(v, (tuple, DictValue)) else None
        cache[key] = (name if name is not None and name in ctx.src.mod(SRS).funcs else None, v)
    return cache[key][0]


def srs_regime(ctx, st="absacce", ic="zero", time="primary", getresp=False, parallel="no", eqsine=False, rolloff="none", limit=48):
    """evaluate srs() once per explored path of one regime of its options; yields (Sem3, lfilter records)"""
    fn = ctx.src.func(SRS, "srs")
    a = fn.args
    params = [x.arg for x in a.posonlyargs + a.args + a.kwonlyargs]
    opts = {"stype": S(st), "ic": S(ic), "time": S(time), "getresp": TRUE if getresp else FALSE, "parallel": S(parallel),
            "eqsine": TRUE if eqsine else FALSE, "rolloff": S(rolloff), "peak": S("abs")}
    for k in list(opts) + ["sig", "sr", "freq", "Q"]:
        if k not in params:
            raise AnchorError(f"srs: parameter `{k}` of the documented signature")
    records = []
    # the coefficient functions (R1 / R2) and the peak function (R8) are verified on their own: here they stay symbolic
    keep = set(_opaque_helpers(ctx)) | set(STYPES) | {_peak_function(ctx, "abs")}
    for _dec, S_ in explore(ctx, fn, SRS, fixed=_srs_fixed(parallel, set(params)), limit=limit, env=opts, hooks=(_lfilter_hook(records, ctx),),
                            exclude=keep, arrays=("sig", "freq")):
        recs = list(records)
        del records[:]
        yield S_, recs


def _coef_call(rec):
    """the call that produced the (b, a) given to lfilter: {func, Q, dT, wn} when b = C[0], a = C[1], C = func(Q, dT, wn)"""
    b, a = rec.get("b"), rec.get("a")
    if b is None or a is None or is_unknown(b) or is_unknown(a) or isinstance(b, (tuple, DictValue)) or isinstance(a, (tuple, DictValue)):
        return None
    ub, ua = unfn(b), unfn(a)
    if not (ub and ua and ub[0] == "idx" and ua[0] == "idx" and len(ub[1]) == 2 and len(ua[1]) == 2):
        return None
    if isinstance(ub[1][1], str) or isinstance(ua[1][1], str) or not ub[1][0].equals(ua[1][0]):
        return None
    if not (ub[1][1].equals(0) and ua[1][1].equals(1)):
        return {"swapped": True}
    c = unfn(ub[1][0])
    if c and c[0] == "apply" and len(c[1]) == 4 and not any(isinstance(z, str) for z in c[1]):
        return {"func": c[1][0], "Q": c[1][1], "dT": c[1][2], "wn": c[1][3]}
    return None


def _main_filter(recs):
    """the lfilter calls whose coefficients come from a coefficient function (a rolloff pre-filter has constant coefficients)"""
    main = [r for r in recs if _coef_call(r) is not None]
    return main if main else recs


def _uses(S_, rec):
    """values stored anywhere (arrays of the function, arrays reached through helpers or dictionaries) that depend on the filter output"""
    out, seen = [], set()
    for tag, ix, val, st in [(c[0], c[1], c[2], c[3]) for c in S_.ev.cells] + [(d[0], d[1], d[2], d[3]) for d in S_.ev.deep]:
        if val is None or is_unknown(val) or isinstance(val, (tuple, DictValue)) or not X.contains(val, rec["sym"]):
            continue
        k = (id(st), repr(val))
        if k in seen:
            continue
        seen.add(k)
        out.append((val, ix, st))
    return out


def _window(val):
    """stored value -> (kind, history, start): 'peak' for f(history[start:]), 'hist' for history[start:]"""
    kind = "hist"
    u = unfn(val)
    if u and (u[0] == "apply" and len(u[1]) == 2 or u[0].startswith("call:") and len(u[1]) == 1) and not isinstance(u[1][-1], str):
        kind = "peak"
        val = u[1][-1]
        u = unfn(val)
    if u and u[0] == "idx" and len(u[1]) == 2 and not isinstance(u[1][1], str):
        sl = unfn(u[1][1])
        if sl and sl[0] == "tuple" and sl[1] and not any(isinstance(z, str) for z in sl[1]):
            # history[start:, :] / history[start:, ...]: full slices after the first index
            rest = [unfn(z) if sym_of(z) != "Ellipsis" else ("slice", [NONE, NONE, NONE]) for z in sl[1][1:]]
            if all(r and r[0] == "slice" and all(sym_of(q) == "None" for q in r[1]) for r in rest):
                sl = unfn(sl[1][0])
        if sl and sl[0] == "slice" and len(sl[1]) == 3 and sym_of(sl[1][1]) == "None" and sym_of(sl[1][2]) == "None":
            start = F.const(0) if sym_of(sl[1][0]) == "None" else sl[1][0]
            return kind, u[1][0], start
        if sl and sl[0] == "slice" and len(sl[1]) == 3 and sym_of(sl[1][1]) != "None" and sym_of(sl[1][2]) == "None" and not any(isinstance(q, str) for q in sl[1]):
            # history[lo:hi]: the rows from lo on when hi is the number of rows of the history; no rows at all when hi is 0 or lo itself (decided:
            # the window the property names is never empty); any other end is not decided here
            lo = F.const(0) if sym_of(sl[1][0]) == "None" else sl[1][0]
            hi = sl[1][1]
            try:
                if hi.equals(rows_of(u[1][0])):
                    return kind, u[1][0], lo
            except Unsupported:
                pass
            if hi.equals(F.const(0)) or hi.equals(lo):
                return kind, u[1][0], F.fn("empty_window", lo, hi)
        return kind, None, None
    if u is None:
        # lfilter(...)[start:] + offset: the window taken before something is added (the offset is one row, or a value of the window's length); every
        # part that is sliced must be sliced from the same row on
        starts = []

        def f(name, args):
            if name == "idx" and len(args) == 2 and not isinstance(args[0], str) and not isinstance(args[1], str) and (unfn(args[1]) or ("",))[0] in ("slice", "tuple"):
                _k, h, st_ = _window(F.fn("idx", args[0], args[1]))
                if h is not None:
                    starts.append(st_)
                    return h
            return None
        whole = c03_frf.rewrite(val, f)
        if starts and all(x.equals(starts[0]) for x in starts):
            return kind, whole, starts[0]
        if starts:
            return kind, None, None
        return kind, val, F.const(0)
    if not u[0].startswith(("idx", "apply", "call:")):
        return kind, val, F.const(0)
    return kind, None, None


def _opaque_calls(*values):
    """names of calls the evaluator kept opaque inside the values"""
    out = set()
    for v in values:
        if v is None or is_unknown(v) or isinstance(v, DictValue):
            continue
        if isinstance(v, tuple):
            out |= set(_opaque_calls(*v))
            continue
        out |= {n for n in X.fn_names(v) if n.startswith(("call:", "apply"))}
    return sorted(out)


def _check(ctx, ok, text, where, detail=None, values=(), opaque=(), **kw):
    """ctx.check, except that a comparison which fails on values containing a call through something the evaluator could not resolve to a function
    (an unresolved table entry, None) is reported as not decided (exit 2): the mismatch is the checker's, not the code's"""
    if not ok:
        un = X.unresolved(*values)
        if un:
            ctx.error(text + " - not decided: the value goes through a call the evaluator could not resolve", where, un[:3])
            return False
        un = _opaque_calls(*opaque)
        if un:
            ctx.error(text + " - not decided: the value examined is built by calls this rule does not model", where, un[:3])
            return False
        un = X.uninitialised(*values, handles=True)
        if un:
            ctx.error(text + " - not decided: the contents of a freshly allocated array are read where the stores that fill it were not followed", where, un[:3])
            return False
    return ctx.check(ok, text, where, detail, **kw)


WANT = {"absacce": F.const(1), "relacce": F.const(0), "relvelo": F.const(0),
        "reldisp": -1 / (F.sym("wn") ** 2), "pvelo": -1 / F.sym("wn"), "pacce": F.const(-1)}


def _process_ic_steady(ctx, stype):
    fn = ctx.src.func(SRS, "_process_ic")
    params = [a.arg for a in fn.args.posonlyargs + fn.args.args]
    if len(params) != 3:
        raise AnchorError("_process_ic(sig, ic, stype)")
    S_ = Sem3(ctx, fn, SRS, env={params[0]: F.sym("sig"), params[1]: S("steady"), params[2]: S(stype)}, arrays=("sig",))
    if not S_.ev.returns:
        raise AnchorError("_process_ic: no return")
    ret = S_.ret()
    if not isinstance(ret, tuple) or len(ret) != 4:
        raise Unsupported("_process_ic must return (sig, s1, doic, icvals)")
    sig, s1v, doic, icvals = ret
    return sig, s1v, doic, icvals, fn


def _check_addback(ctx, st, site, S_, recs, where, want_func=None):
    """every use of the filter output in this evaluation is  lfilter(...) + DCgain(wn used for the coefficients) * first sample"""
    s1 = F.fn("idx", F.sym("sig"), F.const(0))
    recs = _main_filter(recs)
    if len(recs) != 1:
        ctx.error(f"{st}: {site}: expected one lfilter call on the path, found {len(recs)}", where)
        return
    rec = recs[0]
    cc = _coef_call(rec)
    if cc is None:
        ctx.error(f"{st}: {site}: the (b, a) given to lfilter are not the pair returned by one call coeffunc(Q, dT, wn)", rec["node"],
                  {"b": repr(rec.get("b")), "a": repr(rec.get("a"))})
        return
    if cc.get("swapped"):
        ctx.fail(f"{st}: {site}: lfilter receives the coefficient function's (b, a) in this order", rec["node"], {"b": repr(rec["b"]), "a": repr(rec["a"])},
                 key=f"C03-R3|{st}|{site}")
        return
    uses = _uses(S_, rec)
    wantv = WANT[st].subs({"wn": cc["wn"]}) * s1
    bad, npeak = [], 0
    for val, _ix, stn in uses:
        kind, hist, _start = _window(val)
        if hist is None or (unfn(_start) or ("",))[0] == "empty_window":          # an empty window is R4's / C09-R5's to report; not decided here
            ctx.error(f"{st}: {site}: a use of the filter output this rule does not model", stn, repr(val)[:300])
            return
        npeak += kind == "peak"
        add = hist - rec["sym"]
        if X.contains(add, rec["sym"]) or not add.equals(wantv):
            bad.append({"use": kind, "line": getattr(stn, "lineno", None), "added": repr(add)[:300], "DCgain*s1": repr(wantv)})
    if not npeak:
        peaks = [c[2] for c in list(S_.ev.cells) + list(S_.ev.deep)
                 if c[2] is not None and not is_unknown(c[2]) and not isinstance(c[2], (tuple, DictValue)) and (unfn(c[2]) or ("",))[0] == "apply"]
        if peaks:
            ctx.fail(f"{st}: steady-state add-back in {site} equals DCgain*s1", rec["node"],
                     {"the response given to the peak function does not contain the filter output": repr(peaks[0])[:300]}, key=f"C03-R3|{st}|{site}")
        else:
            ctx.error(f"{st}: {site}: no peak taken from the filter output", where)
        return
    _check(ctx, not bad, f"{st}: steady-state add-back in {site} equals DCgain*s1", rec["node"], bad or None, values=[v for v, _i, _s in uses], key=f"C03-R3|{st}|{site}")
    if want_func is not None:
        f = sym_of(cc["func"])
        if f is None or not ctx.src.has_func(SRS, f):
            ctx.error(f"{st}: {site}: the coefficient function is selected in a way this rule does not model", rec["node"], repr(cc["func"])[:300])
        else:
            ok = ctx.src.mod(SRS).funcs[f] is want_func
            ctx.check(ok, f"{st}: {site} filters with the coefficient function verified under that name", rec["node"], None if ok else f)


def _strip_shared(v):
    """value an initializer binds to a worker global -> the array that was shared (unary wrappers such as frombuffer(copy(V)) removed)"""
    while True:
        u = unfn(v) if (v is not None and not is_unknown(v) and not isinstance(v, (tuple, DictValue))) else None
        if u and u[0].startswith("call:") and len(u[1]) == 1 and not isinstance(u[1][0], str):
            v = u[1][0]
            continue
        return v


def _parallel_setup(ctx, S_):
    """from an evaluation of srs() on its parallel path: (worker FunctionDef, {worker global: value})"""
    m = ctx.src.mod(SRS)
    pool = [c for c in S_.ev.calls if c[0].split(".")[-1] == "Pool"]
    disp = [c for c in S_.ev.calls if c[0].split(".")[-1] in ("imap_unordered", "imap", "map", "map_async", "starmap")]
    if len(pool) != 1 or not disp:
        raise Unsupported("parallel path: expected one Pool(...) and a map over it")
    wname = sym_of(disp[0][1][0]) if disp[0][1] and not isinstance(disp[0][1][0], (tuple, DictValue)) and not is_unknown(disp[0][1][0]) else None
    bound = {}
    ent = S_.ev.lambdas.get(wname) if wname is not None else None
    if ent is not None and ent[0] == "partial" and sym_of(ent[1]) in m.funcs:
        # functools.partial(worker, flag=...): the module-level function, with the bound arguments as part of its environment
        wname = sym_of(ent[1])
        wf = m.funcs[wname]
        names = [a.arg for a in wf.args.posonlyargs + wf.args.args]
        if len(ent[2]) > len(names):
            raise Unsupported("parallel path: functools.partial binds more arguments than the worker takes")
        bound = dict(zip(names, ent[2]))
        bound.update(ent[3])
    if wname is None or wname not in m.funcs:
        raise Unsupported("parallel path: the mapped worker is not a module-level function")
    # multiprocessing.Pool(processes=None, initializer=None, initargs=(), maxtasksperchild=None, context=None): positional or keyword
    kws = dict(zip(("processes", "initializer", "initargs", "maxtasksperchild", "context"), pool[0][1]))
    if any(k in kws for k in pool[0][2]):
        raise Unsupported("parallel path: Pool(...) binds a parameter twice")
    kws.update(pool[0][2])
    init, initargs = kws.get("initializer"), kws.get("initargs")
    iname = sym_of(init) if init is not None and not is_unknown(init) and not isinstance(init, (tuple, DictValue)) else None
    if iname is None or iname not in m.funcs or not isinstance(initargs, tuple):
        raise Unsupported("parallel path: Pool(initializer=<module function>, initargs=<tuple>)")
    ifn = m.funcs[iname]
    ip = [a.arg for a in ifn.args.posonlyargs + ifn.args.args]
    if len(ip) != len(initargs):
        raise Unsupported("parallel path: initializer arity")
    SI = Sem3(ctx, ifn, SRS, env=dict(zip(ip, initargs)), exclude=_opaque_helpers(ctx))
    glob = {}
    for g, v in SI.ev.globals.items():          # every name declared `global` that the initializer - or a helper it calls - binds
        if v is None or is_unknown(v) or isinstance(v, (tuple, DictValue)):
            continue
        v = _strip_shared(v)
        u = unfn(v) if not is_unknown(v) and not isinstance(v, (tuple, DictValue)) else None
        if u and u[0] == "tuple":
            continue            # an array created in shared memory from its shape: an output buffer
        glob[g] = v
    return m.funcs[wname], glob, bound


def _task_argument(S_):
    """value of the argument one task of the pool receives, decoded from the iterable srs() hands to the pool's map: zip(range(LF), repeat(args)) gives
    (<task>, args) - the tuple the worker unpacks, with the option values of the regime in it.  None when the iterable is built another way (the worker is
    then evaluated on a symbolic argument)"""
    disp = [c for c in S_.ev.calls if c[0].split(".")[-1] in ("imap_unordered", "imap", "map", "map_async", "starmap")]
    if not disp or len(disp[0][1]) < 2:
        return None
    k = F.sym("<task>")

    def value(v):
        if isinstance(v, tuple):
            return X.PyTuple(value(x) for x in v)
        u = unfn(v) if (v is not None and not is_unknown(v) and not isinstance(v, DictValue)) else None
        if u and u[0] == "tuple":
            return X.PyTuple(value(x) for x in u[1])
        return v

    def element(v):
        if isinstance(v, X.LazySeq):
            return value(v.element(k))            # ((j, args) for j in range(LF)): the generic element
        if isinstance(v, tuple) or v is None or is_unknown(v) or isinstance(v, DictValue):
            raise Unsupported("iterable of the pool's map")
        u = unfn(v)
        if not u or any(isinstance(a, str) for a in u[1]):
            raise Unsupported("iterable of the pool's map")
        name, args = u
        last = name.split(".")[-1].split(":")[-1]
        if name.startswith("call:") and last == "zip" and args:
            return X.PyTuple(element(a) for a in args)
        if name.startswith("call:") and last in ("range", "count"):
            return k
        if name.startswith("call:") and last == "repeat" and args:
            return value(args[0])
        if name.startswith("call:") and last == "enumerate" and len(args) == 1:
            # enumerate(X): (k, element k of X) - element k of repeat(v, n), zip(...), range(n) is decoded as above; of anything else it stays X[k]
            try:
                return X.PyTuple((k, element(args[0])))
            except Unsupported:
                return X.PyTuple((k, F.fn("idx", args[0], k)))
        raise Unsupported("iterable of the pool's map")
    try:
        return element(disp[0][1][1])
    except Unsupported:
        return None


def _stype_fixed(st):
    """inside a worker the response type arrives through the argument tuple: a comparison of a non-literal with response-type names is decided
    for the type `st`"""
    def fixed(test, ev):
        if isinstance(test, ast.Compare) and len(test.ops) == 1:
            a, b = ev.ev(test.left), ev.ev(test.comparators[0])
            op = test.ops[0]
            if isinstance(op, (ast.Eq, ast.NotEq)):
                for x, y in ((a, b), (b, a)):
                    if isinstance(x, (tuple, DictValue)) or isinstance(y, (tuple, DictValue)) or is_unknown(x) or is_unknown(y):
                        continue
                    if str_of(y) in STYPES and str_of(x) is None:
                        return (str_of(y) == st) == isinstance(op, ast.Eq)
            if isinstance(op, (ast.In, ast.NotIn)) and isinstance(b, tuple) and not isinstance(a, (tuple, DictValue)) and not is_unknown(a) \
                    and str_of(a) is None and b and all((not is_unknown(z)) and (not isinstance(z, tuple)) and str_of(z) in STYPES for z in b):
                return (st in [str_of(z) for z in b]) == isinstance(op, ast.In)
        return None
    return fixed


def _srs_params(ctx):
    a = ctx.src.func(SRS, "srs").args
    return [x.arg for x in a.posonlyargs + a.args + a.kwonlyargs]


def r3_dc_gain(ctx):
    """steady-state add-back == DC gain of the filter times the removed offset s1, at the serial code site and in the worker each parallel
    regime dispatches to"""
    gains = {}
    for st in STYPES:
        try:
            b, a, fn = extract_filter(ctx, st, zero=False)
        except Unsupported as e:
            ctx.error(f"{st}: extraction", None, str(e))
            continue
        sb = b[0] + b[1] + b[2]
        sa = a[0] + a[1] + a[2]
        gains[st] = sb / sa
    for st, g in gains.items():
        ok = g.equals(WANT[st])
        ctx.check(ok, f"{st}: DC gain sum(b)/sum(a) of the coefficient function equals H(s=0)", ctx.src.func(SRS, st),
                  None if ok else {"got": repr(g), "want": repr(WANT[st])})
    s1 = F.fn("idx", F.sym("sig"), F.const(0))
    srsfn = ctx.src.func(SRS, "srs")
    for st in STYPES:
        if st not in gains:
            continue
        try:
            sig, s1v, doic, icvals, pfn = _process_ic_steady(ctx, st)
        except Unsupported as e:
            ctx.error(f"{st}: _process_ic", None, str(e))
            continue
        ok = (not is_unknown(sig)) and not isinstance(sig, (tuple, DictValue)) and need(sig).equals(F.sym("sig") - s1)
        _check(ctx, ok, f"{st}: ic='steady' removes the first sample from the signal", pfn, None if ok else repr(sig), opaque=[sig])
        dv = X.truth(doic)
        if dv is None:
            ctx.error(f"{st}: doic", pfn, repr(doic))
            continue
        if WANT[st].is_zero():
            ctx.check(not dv, f"{st}: zero DC gain => no steady-state add-back (doic == 0)", pfn)
        else:
            ctx.check(dv, f"{st}: non-zero DC gain => steady-state add-back enabled (doic != 0)", pfn)
        # serial code site
        try:
            n = 0
            for S_, recs in srs_regime(ctx, st=st, ic="steady", time="primary", getresp=True, parallel="no"):
                n += 1
                _check_addback(ctx, st, "srs", S_, recs, srsfn, want_func=ctx.src.func(SRS, st))
            if not n:
                ctx.error(f"{st}: srs: no path evaluated", srsfn)
        except Unsupported as e:
            ctx.error(f"{st}: add-back in srs", srsfn, str(e))
        # the worker of each parallel regime, with the globals its initializer binds
        for gr in (True, False):
            try:
                for S_, _recs in srs_regime(ctx, st=st, ic="steady", time="primary", getresp=gr, parallel="yes"):
                    wfn, glob, bound = _parallel_setup(ctx, S_)
                    recs = []
                    wa = wfn.args
                    wp = [a.arg for a in wa.posonlyargs + wa.args if a.arg not in bound]
                    need_ = [p for p, d in zip(wp, [None] * (len(wp) - len(wa.defaults)) + list(wa.defaults)) if d is None] if len(wa.defaults) <= len(wp) else wp
                    task = _task_argument(S_) if len(need_) <= 1 and wp else None
                    env = dict(bound)
                    for a_, d_ in zip((wa.posonlyargs + wa.args)[::-1], list(wa.defaults)[::-1]):
                        # a parameter the pool does not supply keeps its (literal) default
                        if a_.arg not in env and a_.arg != (wp[0] if wp else None) and isinstance(d_, ast.Constant):
                            v_ = d_.value
                            env[a_.arg] = {None: NONE, True: TRUE, False: FALSE}[v_] if v_ is None or isinstance(v_, bool) else \
                                (S(v_) if isinstance(v_, str) else (F.const(v_) if isinstance(v_, int) else F.sym(a_.arg)))
                    if task is not None:
                        # the worker on the argument srs() sends it: the coefficient and peak functions stay symbolic as in srs() itself
                        keep = set(_opaque_helpers(ctx)) | set(STYPES) | {_peak_function(ctx, "abs")}
                        env[wp[0]] = task
                        W = Sem3(ctx, wfn, SRS, cond=_stype_fixed(st), module_state=glob, hooks=(_lfilter_hook(recs, ctx),), exclude=keep, env=env)
                    else:
                        W = Sem3(ctx, wfn, SRS, cond=_stype_fixed(st), module_state=glob, hooks=(_lfilter_hook(recs, ctx),), exclude=_opaque_helpers(ctx), env=env)
                    _check_addback(ctx, st, wfn.name, W, recs, wfn)
                    # the sample step the worker computes its coefficients for, where the evaluation expresses it in what srs() itself holds (the task
                    # argument was decoded): in this regime nothing resamples the signal, so it is 1 / sr of the caller
                    main = _main_filter(recs)
                    cc = _coef_call(main[0]) if len(main) == 1 else None
                    if cc and not cc.get("swapped") and not X.fn_names(cc["dT"]) and X.sym_names(cc["dT"]) <= set(_srs_params(ctx)) - {"freq", "sig"}:
                        ok = (cc["dT"] * F.sym("sr")).equals(1)
                        ctx.check(ok, f"{st}: {wfn.name} computes the filter coefficients for the sample step 1/sr of the signal srs() hands to the pool",
                                  main[0]["node"], None if ok else {"dT": repr(cc["dT"])}, key=f"C03-R3|{st}|{wfn.name}|dT")
            except Unsupported as e:
                ctx.error(f"{st}: add-back in the worker (getresp={gr})", srsfn, str(e))


# ---------------------------------------------------------------------------------------------------------------- window bookkeeping
def _resp_entries(S_, respval):
    """{key: [values stored under that key, in order]} of the dictionary srs() returns"""
    out = {}

    def put(k, v):
        out.setdefault(k, []).append(v)
    if isinstance(respval, DictValue):
        for k, v in respval.d.items():
            put(k, v)
        return out
    n = sym_of(respval) if respval is not None and not is_unknown(respval) and not isinstance(respval, tuple) else None
    if n is None:
        raise Unsupported(f"returned response dictionary: {respval!r}")
    init = S_.ev.env.get("<init:%s>" % n)
    if isinstance(init, DictValue):
        for k, v in init.d.items():
            put(k, v)
    for _nm, ix, val, _st in S_.cells(n):
        k = str_of(ix) if not is_unknown(ix) else None
        if k is not None:
            put(k, val)
    return out


def _alloc_rows(S_, v):
    """empty((r, H, LF)) -> r (an array object created in a helper stands for the expression it was created from)"""
    n = sym_of(v)
    if n is not None and S_.ev.is_array_object(n) and ("<init:%s>" % n) in S_.ev.env:
        v = S_.ev.env["<init:%s>" % n]
    u = unfn(v) if v is not None and not is_unknown(v) and not isinstance(v, (tuple, DictValue)) else None
    if u and u[0] in ("empty", "zeros") and not isinstance(u[1][0], str):
        sh = unfn(u[1][0])
        if sh and sh[0] == "tuple" and len(sh[1]) == 3:
            return sh[1][0]
    return None


def _arange(v, sr):
    """scale * np.arange(a, b) -> (a, b, scale); a slice `[s:]` of such a vector -> (a + s, b, scale); None when the value is not of this form"""
    if v is None or is_unknown(v) or isinstance(v, (tuple, DictValue)):
        return None
    v = need(v)
    u0 = unfn(v)
    if u0 and u0[0] == "idx" and len(u0[1]) == 2 and not isinstance(u0[1][0], str) and not isinstance(u0[1][1], str):
        sl = unfn(u0[1][1])
        if sl and sl[0] == "slice" and len(sl[1]) == 3 and sym_of(sl[1][1]) == "None" and sym_of(sl[1][2]) == "None":
            inner = _arange(u0[1][0], sr)
            if inner is not None:
                return (inner[0] if sym_of(sl[1][0]) == "None" else inner[0] + sl[1][0]), inner[1], inner[2]
        return None
    cands = []
    for at in sorted(v.n.atoms()):
        av = F.Rat(F.Poly.atom(at))
        ua = unfn(av)
        if ua and ((ua[0].split(".")[-1] == "arange" and ua[0].startswith("call:")) or ua[0] == "idx"):
            cands.append(av)
    for av in cands:
        scale = v / av
        if X.contains(scale, av):
            continue
        ua = unfn(av)
        if ua[0] == "idx":
            inner = _arange(av, sr)
            if inner is not None:
                return inner[0], inner[1], inner[2] * scale
            continue
        if all(not isinstance(z, str) for z in ua[1]) and len(ua[1]) in (1, 2):
            return (F.const(0), ua[1][0], scale) if len(ua[1]) == 1 else (ua[1][0], ua[1][1], scale)
    return None


def _facts(ctx, S_, recs):
    """what one serial path of srs() does with the signal: filtered array, its primary / appended parts, sample rate of the coefficients,
    window starts, allocations"""
    recs = _main_filter(recs)
    if len(recs) != 1:
        raise Unsupported(f"expected one lfilter call on the path, found {len(recs)}")
    rec = recs[0]
    x = rec["x"]
    if x is None or is_unknown(x) or isinstance(x, (tuple, DictValue)):
        raise Unsupported(f"signal given to lfilter: {x!r}")
    ux = unfn(x)
    padded = bool(ux and ux[0] == "vstack")
    f = {"rec": rec, "x": x, "padded": padded, "prim": ux[1][0] if padded else x, "pad": ux[1][1] if padded else None}
    cc = _coef_call(rec)
    if cc is None or cc.get("swapped"):
        raise Unsupported("the (b, a) given to lfilter are not the pair returned by one call coeffunc(Q, dT, wn)")
    f["sr"] = 1 / cc["dT"]
    starts = []
    for val, _ix, stn in _uses(S_, rec):
        kind, hist, start = _window(val)
        if hist is None:
            raise Unsupported(f"a use of the filter output this rule does not model: {val!r}"[:300])
        starts.append((kind, start, stn))
    f["starts"] = starts
    f["rows"] = rows_of(x)
    return f


def _shifted(ic):
    """the documented initial-condition rules as values over the parameter `sig` (a 2-D array, time down the rows)"""
    sig = F.sym("sig")
    if ic == "zero":
        return sig
    if ic == "mshift":
        return sig - F.fn("red:mean", sig, F.const(0))
    return sig - F.fn("idx", sig, F.const(0))


def _is_shifted(ic, v):
    """the value is the documented shift of `sig` (the mean over time also as sum / number of rows)"""
    if _shifted(ic).equals(v):
        return True
    sig = F.sym("sig")
    return ic == "mshift" and (sig - F.fn("red:sum", sig, F.const(0)) / F.fn("rows", sig)).equals(v)


_SHIFT_WORDS = {"zero": "as given", "shift": "minus its first sample", "mshift": "minus its mean over time", "steady": "minus its first sample"}


def r4_windows(ctx):
    """primary / residual window bookkeeping of srs(), on values: which rows of which signal are filtered, where the evaluated window starts,
    how long the returned history and time vector are, what is appended - for every time option x rolloff regime, and the frame of the
    appended cycle for every response type x initial-condition rule"""
    fn = ctx.src.func(SRS, "srs")
    serial_rows = {}
    for time in TIMES:
        for rolloff in ("none", "lanczos", "prefilter"):
            tag = f"srs (time={time}, rolloff={rolloff})"
            try:
                paths = []
                for S_, recs in srs_regime(ctx, time=time, rolloff=rolloff, getresp=True):
                    paths.append((S_, _facts(ctx, S_, recs)))
            except Unsupported as e:
                ctx.error(f"{tag}: evaluation", fn, str(e))
                continue
            if not paths:
                ctx.error(f"{tag}: no path", fn)
                continue
            # (1) start of the evaluated window
            bad = []
            for S_, f in paths:
                want = rows_of(f["prim"]) if time == "residual" else F.const(0)
                if not any(k == "peak" for k, _s, _n in f["starts"]):
                    bad.append("no peak taken from the filter output")
                for kind, start, stn in f["starts"]:
                    if not start.equals(want):
                        bad.append({"use": kind, "line": getattr(stn, "lineno", None), "start": repr(start), "expected": repr(want)})
            allx = [f["x"] for _s, f in paths]
            _check(ctx, not bad, f"{tag}: the peak and the stored history are taken from "
                   + ("the first row after the (possibly resampled) input signal" if time == "residual" else "row 0") + " of the filter output", fn, bad or None,
                   values=allx + [s for _s, f in paths for _k, s, _n in f["starts"]])
            # (2) what is filtered
            if time == "primary":
                ok = not any(f["padded"] for _s, f in paths)
                _check(ctx, ok, f"{tag}: the signal is filtered as it is (nothing appended)", fn, values=allx)
            else:
                ok = any(f["padded"] for _s, f in paths)
                _check(ctx, ok, f"{tag}: a cycle of the lowest non-zero frequency is appended to the signal before filtering", fn, values=allx)
                # (3) length of the appended block
                bad = []
                for S_, f in paths:
                    if not f["padded"]:
                        continue
                    try:
                        n = rows_of(f["pad"])
                        want = S_.E("int(np.ceil(SR__ / freq[freq > 0].min()))").subs({"SR__": f["sr"]})
                        if not n.equals(want):
                            bad.append({"rows appended": repr(n), "expected": repr(want)})
                    except Unsupported as e:
                        bad.append(str(e))
                _check(ctx, not bad, f"{tag}: ceil(sample rate of the filtered signal / lowest non-zero frequency) rows are appended", fn, bad or None,
                       values=allx + [f["sr"] for _s, f in paths], opaque=[f["pad"] for _s, f in paths if f["padded"]])
            # (4) returned history, time vector, sample rate
            bad_h, bad_t, bad_sr = [], [], []
            form_h, form_t, form_sr = [], [], []          # an entry that is there, but not in a form this rule reads: not decided
            rows_set, seen, unbound = [], [], []
            for S_, f in paths:
                ret = S_.ret()
                if not (isinstance(ret, tuple) and len(ret) == 2):
                    bad_h.append(f"return value {ret!r}"[:200])
                    continue
                try:
                    ent = _resp_entries(S_, ret[1])
                except Unsupported as e:
                    unbound.append(str(e)[:300])          # the dictionary is built where the evaluator does not follow: not a verdict
                    continue
                start = rows_of(f["prim"]) if time == "residual" else F.const(0)
                seen += [v for k in ("hist", "t", "sr") for v in ent.get(k, [])]
                h0 = ent.get("hist", [None])[0]
                r = _alloc_rows(S_, h0)
                if h0 is None:
                    bad_h.append("resp has no entry 'hist'")
                elif r is None:
                    form_h.append(repr(S_.ev.env.get("<init:%s>" % sym_of(h0), h0))[:200])
                elif not r.equals(f["rows"] - start):
                    bad_h.append({"allocated": repr(S_.ev.env.get("<init:%s>" % sym_of(h0), h0))[:200], "rows of the window": repr(f["rows"] - start)})
                else:
                    rows_set.append(r)
                tv = ent.get("t", [None])[-1]
                t = _arange(tv, f["sr"])
                if tv is None:
                    bad_t.append("resp has no entry 't'")
                elif t is None:
                    form_t.append(repr(tv)[:200])
                elif not (t[0].equals(start) and t[1].equals(f["rows"]) and (t[2] * f["sr"]).equals(1)):
                    bad_t.append({"t": repr(tv)[:200], "expected": f"arange({start!r}, {f['rows']!r}) / {f['sr']!r}"})
                srv = ent.get("sr", [None])[-1]
                if srv is None:
                    bad_sr.append("resp has no entry 'sr'")
                elif is_unknown(srv) or isinstance(srv, (tuple, DictValue)):
                    form_sr.append(repr(srv)[:200])
                elif not need(srv).equals(f["sr"]):
                    bad_sr.append({"resp['sr']": repr(srv), "sample rate of the coefficients": repr(f["sr"])})
            allv = allx + [f["sr"] for _s, f in paths] + seen
            if unbound:
                ctx.error(f"{tag}: the response dictionary srs returns is not built by code this rule can follow", fn, unbound[:2])
                continue
            for bad_, form_, text in ((bad_h, form_h, "resp['hist'] has as many rows as the evaluated window of the filter output"),
                                      (bad_t, form_t, "resp['t'] spans the evaluated window at the sample rate of the filter"),
                                      (bad_sr, form_sr, "resp['sr'] is the sample rate the coefficients were computed for")):
                if form_ and not bad_:
                    ctx.error(f"{tag}: {text} - not decided: the entry is not in a form this rule reads (an allocation np.empty / np.zeros((rows, signals, "
                              "frequencies)), np.arange(first, last) / sr, a value)", fn, form_[:2])
                else:
                    _check(ctx, not bad_, f"{tag}: {text}", fn, bad_ or None, values=allv)
            if rolloff == "none":
                serial_rows[time] = rows_set
    # the same window on the code path that restores the steady-state value (ic='steady' with a response type that has one)
    for time in TIMES:
        tag = f"srs (time={time}, ic=steady)"
        try:
            bad, allx, n = [], [], 0
            for S_, recs in srs_regime(ctx, st="absacce", ic="steady", time=time, getresp=True):
                f = _facts(ctx, S_, recs)
                n += 1
                allx.append(f["x"])
                want = rows_of(f["prim"]) if time == "residual" else F.const(0)
                if not any(k == "peak" for k, _s, _n in f["starts"]):
                    bad.append("no peak taken from the filter output")
                if not any(k == "hist" for k, _s, _n in f["starts"]):
                    bad.append("no history taken from the filter output")
                for kind, start, stn in f["starts"]:
                    if not start.equals(want):
                        bad.append({"use": kind, "line": getattr(stn, "lineno", None), "start": repr(start), "expected": repr(want)})
            if not n:
                ctx.error(f"{tag}: no path", fn)
                continue
            _check(ctx, not bad, f"{tag}: the peak and the stored history are taken from "
                   + ("the first row after the input signal" if time == "residual" else "row 0") + " of the filter output with the steady-state value restored", fn, bad or None,
                   values=allx)
        except Unsupported as e:
            ctx.error(f"{tag}: evaluation", fn, str(e))
    # parallel path: the shared history buffer has the rows of the serial one
    for time in TIMES:
        tag = f"srs (time={time}, parallel)"
        if time not in serial_rows:
            continue
        if not serial_rows[time]:
            ctx.error(f"{tag}: the shared history buffer has the rows of the serial resp['hist'] - not decided: the serial allocation was not read", fn)
            continue
        try:
            got = []
            for S_, _recs in srs_regime(ctx, time=time, rolloff="none", getresp=True, parallel="yes"):
                for name, pos, _kw, _node in S_.ev.calls:
                    if pos and isinstance(pos[0], tuple) and len(pos[0]) == 3 and not any(is_unknown(z) or isinstance(z, tuple) for z in pos[0]):
                        got.append(pos[0][0])
            if not got:
                ctx.error(f"{tag}: no call that is given the (rows, signals, frequencies) shape of a shared history buffer found on the parallel path", fn)
                continue
            ok = all(any(g.equals(r) for r in serial_rows[time]) for g in got) and all(any(g.equals(r) for g in got) for r in serial_rows[time])
            ctx.check(ok, f"{tag}: the shared history buffer has the rows of the serial resp['hist']", fn,
                      None if ok else {"parallel": [repr(g) for g in got], "serial": [repr(r) for r in serial_rows[time]]})
        except Unsupported as e:
            ctx.error(f"{tag}: evaluation", fn, str(e))
    # frame of the appended cycle
    for st in STYPES:
        for ic in ICS:
            tag = f"srs (stype={st}, ic={ic}, time=total)"
            try:
                bad, n, extra, shifted, allx, pads = [], 0, [], [], [], []
                for S_, recs in srs_regime(ctx, st=st, ic=ic, time="total"):
                    f = _facts(ctx, S_, recs)
                    allx.append(f["x"])
                    if not _is_shifted(ic, f["prim"]):
                        shifted.append({"filtered": repr(f["prim"])[:300], "rule": repr(_shifted(ic))})
                    if ic != "steady":
                        # zero initial conditions: the history is the filter output itself
                        for val, _ix, stn in _uses(S_, f["rec"]):
                            _kind, hist, _start = _window(val)
                            if hist is None or not hist.equals(f["rec"]["sym"]):
                                extra.append({"line": getattr(stn, "lineno", None), "value": repr(val)[:300]})
                    if not f["padded"]:
                        continue
                    n += 1
                    pads.append(f["pad"])
                    z = [a for a in (F.Rat(F.Poly.atom(a)) for a in f["pad"].n.atoms()) if (unfn(a) or ("",))[0] == "zeros"]
                    if len(z) != 1:
                        bad.append({"appended": repr(f["pad"])})
                        continue
                    removed = (F.sym("sig") - f["prim"]) if ic == "steady" else F.const(0)
                    if not (f["pad"] + removed).equals(z[0]):
                        bad.append({"appended": repr(f["pad"]), "offset removed from the signal": repr(removed)})
                _check(ctx, not shifted, f"{tag}: the signal that is filtered is the input " + _SHIFT_WORDS[ic], fn, shifted or None, values=allx)
                if not n:
                    ctx.error(f"{tag}: no path appends a cycle", fn)
                    continue
                _check(ctx, not bad, f"{tag}: the appended cycle is zero base acceleration "
                       + ("in the frame of the original signal (zeros minus the offset ic='steady' removed)" if ic == "steady" else "(plain zeros)"), fn, bad or None, values=allx,
                       opaque=pads)
                if ic != "steady":
                    ctx.check(not extra, f"{tag}: nothing is added to the filter output (no steady-state values to restore)", fn, extra or None)
            except Unsupported as e:
                ctx.error(f"{tag}: evaluation", fn, str(e))


# ---------------------------------------------------------------------------------------------------------------- vrs
def _vrs_fixed(fn_given, params):
    def fixed(test, ev):
        v = ev.ev(test)
        if v is None or is_unknown(v) or isinstance(v, (tuple, DictValue)):
            return None
        u = unfn(v)
        if u and u[0] in ("cmp:Eq", "cmp:NotEq", "cmp:Is", "cmp:IsNot") and len(u[1]) == 2 and not any(isinstance(z, str) for z in u[1]):
            a, b = u[1]
            eq = u[0] in ("cmp:Eq", "cmp:Is")
            for x, y in ((a, b), (b, a)):
                ux = unfn(x)
                if ux and ux[0] == "attr:ndim" and y.is_const() and y.const_value() == 1:
                    return not eq                                   # 2-D PSD input
                if sym_of(y) == "None" and sym_of(x) == "Fn":
                    return (not fn_given) == eq
                if sym_of(y) == "None" and sym_of(x) in params:
                    return not eq
        return None
    return fixed


def _psd_hook(records):
    """the PSD interpolated on the integration grid, `psd.interp(spec, grid, linear)`: one symbol, arguments recorded"""
    def hook(node, ev):
        d = dotted(node.func) or ""
        if d.split(".")[-1] != "interp" or len(node.args) + len(node.keywords) < 2:
            return NotImplemented
        pos = [ev.ev(a) for a in node.args]
        kw = {k.arg: ev.ev(k.value) for k in node.keywords if k.arg is not None}
        grid = pos[1] if len(pos) > 1 else kw.get("freq")
        key = (id(node), ev.chain, repr(pos), repr(sorted(kw.items(), key=lambda kv: kv[0])))
        for r in records:
            if r.get("key") == key:
                return r["sym"]
        s = F.sym("<PSD%d>" % len(records))
        records.append({"sym": s, "grid": grid, "node": node, "key": key})
        return s
    return hook


_CONTRACT = F.sym("<contracted axis>")


def _contract_binop(node, a, b, ev):
    """in vrs the matrix product `t @ df` of the integrand rows with the weight vector is the sum over the frequency axis of the element-wise product"""
    if isinstance(node.op, ast.MatMult) and not is_unknown(a) and not is_unknown(b) and not isinstance(a, (tuple, DictValue)) and not isinstance(b, (tuple, DictValue)):
        return F.fn("red:sum", need(a) * need(b), _CONTRACT)
    return NotImplemented


def _contract_call(node, ev):
    d = dotted(node.func) or ""
    if d in ("np.dot", "np.matmul", "np.inner", "numpy.dot", "numpy.matmul", "numpy.inner") and len(node.args) == 2 and not node.keywords:
        a, b = ev.ev(node.args[0]), ev.ev(node.args[1])
        if not is_unknown(a) and not is_unknown(b) and not isinstance(a, (tuple, DictValue)) and not isinstance(b, (tuple, DictValue)):
            return F.fn("red:sum", need(a) * need(b), _CONTRACT)
    if isinstance(node.func, ast.Attribute) and node.func.attr == "dot" and len(node.args) == 1 and not node.keywords and not d.startswith(("np.", "numpy.")):
        a, b = ev.ev(node.func.value), ev.ev(node.args[0])
        if not is_unknown(a) and not is_unknown(b) and not isinstance(a, (tuple, DictValue)) and not isinstance(b, (tuple, DictValue)):
            return F.fn("red:sum", need(a) * need(b), _CONTRACT)
    return NotImplemented


def _real_modulus(v):
    """abs(z) with z a formula in I -> sqrt(z conj(z)) (every other atom is a real quantity): |H|^2 written with a complex transfer function"""
    if v is None or is_unknown(v) or isinstance(v, (tuple, DictValue)) or "abs" not in X.fn_names(v):
        return v

    def f(name, args):
        if name == "abs" and len(args) == 1 and not isinstance(args[0], str) and c03_frf.has_I(args[0]) and "abs" not in X.fn_names(args[0]):
            try:
                return F.sqrt(args[0] * c03_frf.conj(args[0]))
            except Exception:  # noqa
                return None
        return None
    return c03_frf.rewrite(v, f)


def _indep(w, name):
    """w does not depend on the symbol `name` (decided by substitution and cross-multiplied equality)"""
    return w.subs({name: F.sym(name + "#")}).equals(w)


def r6_vrs(ctx):
    """vrs() on values, for Fn given / None x getresp: every stored spectrum value is sqrt(sum_i |T(freq_i / Fn[k])|^2 PSD(freq_i) w_i) with T the
    base-drive transmissibility, PSD interpolated on the same grid and w a weight vector that depends on neither Q nor the oscillator nor the PSD -
    the same one with and without getresp; resp['psd'] is |T|^2 PSD; the Miles estimate squared is (pi/2) fn Q PSD(fn)"""
    fn = ctx.src.func(SRS, "vrs")
    a = fn.args
    params = [x.arg for x in a.posonlyargs + a.args + a.kwonlyargs]
    for k in ("spec", "freq", "Q", "linear", "Fn", "getmiles", "getresp"):
        if k not in params:
            raise AnchorError(f"vrs: parameter `{k}` of the documented signature")
    Q = F.sym("Q")
    zeta = 1 / (2 * Q)
    weights = {}
    nm = 0

    def T2(G, fk):
        p = G / fk
        return (1 + (2 * zeta * p) ** 2) / ((1 - p * p) ** 2 + (2 * zeta * p) ** 2)

    for fn_given in (True, False):
        FnV = F.sym("Fn") if fn_given else F.sym("freq")
        for gr in (True, False):
            tag = f"vrs (Fn {'given' if fn_given else 'None'}, getresp={gr})"
            recs = []
            try:
                paths = []
                for _dec, S_ in explore(ctx, fn, SRS, fixed=_vrs_fixed(fn_given, set(params)), env={"getresp": TRUE if gr else FALSE, "getmiles": TRUE},
                                        hooks=(_psd_hook(recs), _contract_call), binop=_contract_binop):
                    paths.append((S_, list(recs)))
                    del recs[:]
            except Unsupported as e:
                ctx.error(f"{tag}: evaluation", fn, str(e))
                continue
            for S_, prec in paths:
                ret = S_.ret()
                want_len = 3 if gr else 2
                if not (isinstance(ret, tuple) and len(ret) == want_len):
                    ctx.error(f"{tag}: return value", S_.ret_node(), repr(ret)[:300])
                    continue
                if len(prec) != 1 or prec[0]["grid"] is None or is_unknown(prec[0]["grid"]) or isinstance(prec[0]["grid"], (tuple, DictValue)):
                    ctx.error(f"{tag}: expected one interpolation of the PSD specification onto the integration grid", fn, len(prec))
                    continue
                P, G = prec[0]["sym"], prec[0]["grid"]
                pname = sym_of(P)
                zname = sym_of(ret[0]) if not is_unknown(ret[0]) and not isinstance(ret[0], (tuple, DictValue)) else None
                squared = False
                if zname is None and not is_unknown(ret[0]) and not isinstance(ret[0], (tuple, DictValue)):
                    zname = sym_of(need(ret[0]) * need(ret[0]))         # sqrt of an array of sums, taken after the loop
                    squared = zname is not None
                cells = S_.cells(zname) if (zname and S_.ev.is_array_object(zname)) else []
                if not cells and not is_unknown(ret[0]) and not isinstance(ret[0], (tuple, DictValue)):
                    uu = unfn(need(ret[0]) * need(ret[0]))
                    if uu and uu[0] == "red:sum" and not isinstance(uu[1][0], str):
                        # all oscillators at once (broadcasting instead of a loop): the value itself, the oscillator frequency being the generic element of Fn
                        cells, squared = [(None, None, ret[0], S_.ret_node())], False
                if not cells:
                    ctx.error(f"{tag}: the returned spectrum is not an array filled in the function", S_.ret_node(), repr(ret[0])[:200])
                    continue
                for _nm, ix, val, stn in cells:
                    if is_unknown(val) or (ix is not None and is_unknown(ix)) or isinstance(val, (tuple, DictValue)):
                        ctx.error(f"{tag}: stored spectrum value", stn, repr(val)[:300])
                        continue
                    u = unfn(need(val) if squared else need(val) * need(val))
                    if not (u and u[0] == "red:sum" and not isinstance(u[1][0], str)):
                        ctx.error(f"{tag}: stored spectrum value is not sqrt(sum(...))", stn, repr(val)[:300])
                        continue
                    integrand = _real_modulus(u[1][0])
                    kname = sym_of(need(ix)) if ix is not None else None
                    w = integrand / (T2(G, F.fn("idx", FnV, need(ix)) if ix is not None else FnV) * P)
                    ok = not w.is_zero() and _indep(w, "Q") and _indep(w, pname) and (kname is None or _indep(w, kname))
                    _check(ctx, ok, f"{tag}: integrand equals |T|^2 * PSD * w with T the base-drive transmissibility "
                           "(1+(2 zeta p)^2)/((1-p^2)^2+(2 zeta p)^2), p = grid/Fn[k], PSD on the same grid, w independent of Q, of the oscillator and of the PSD", stn,
                           None if ok else {"integrand": repr(integrand)[:500]}, opaque=[c03_frf.abstract(integrand, G, FnV)])
                    if ok:
                        weights.setdefault(fn_given, []).append((gr, w, stn))
                        # the weights are the documented `delta freq_i`: on a uniformly spaced grid every definition of it (forward, backward, central) is the step
                        try:
                            uw = c03_frf.uniform_weights(S_, w, G)
                            h = F.sym("<h>")
                            ok_i = uw["interior"].equals(h)
                            ok_e = all(uw[k].equals(h) or uw[k].equals(h / 2) for k in ("first", "last"))
                            ctx.check(ok_i, f"{tag}: on a uniformly spaced integration grid every interior weight is the step (delta freq_i)", stn,
                                      None if ok_i else {"interior weight": repr(uw["interior"])})
                            ctx.check(ok_e, f"{tag}: on a uniformly spaced integration grid the two end weights are the step (or half of it)", stn,
                                      None if ok_e else {"first": repr(uw["first"]), "last": repr(uw["last"])})
                        except Unsupported as e:
                            ctx.error(f"{tag}: quadrature weights on a uniform grid", stn, str(e))
                if gr:
                    # resp['psd'][k] = |T|^2 PSD
                    try:
                        ent = _resp_entries(S_, ret[2])
                    except Unsupported as e:
                        ctx.error(f"{tag}: resp", S_.ret_node(), str(e))
                        ent = {}
                    fv = ent.get("f", [None])[-1]
                    ok = fv is not None and not is_unknown(fv) and not isinstance(fv, (tuple, DictValue)) and need(fv).equals(need(G))
                    ctx.check(ok, f"{tag}: resp['f'] is the grid the responses are computed on", S_.ret_node(), None if ok else repr(fv)[:200])
                    pv = ent.get("psd", [None])[-1]
                    bname = sym_of(pv) if pv is not None and not is_unknown(pv) and not isinstance(pv, (tuple, DictValue)) else None
                    pc = S_.cells(bname) if (bname and S_.ev.is_array_object(bname)) else []
                    if not pc and pv is not None and not is_unknown(pv) and not isinstance(pv, (tuple, DictValue)) and bname is None:
                        pc = [(None, None, pv, S_.ret_node())]            # computed for all oscillators at once
                    if not pc:
                        ctx.error(f"{tag}: resp['psd'] is not an array filled in the function", S_.ret_node(), repr(pv)[:200])
                    for _nm, ix, val, stn in pc:
                        val = _real_modulus(val)
                        ok = not is_unknown(val) and not (ix is not None and is_unknown(ix)) and not isinstance(val, (tuple, DictValue)) \
                            and need(val).equals(T2(G, F.fn("idx", FnV, need(ix)) if ix is not None else FnV) * P)
                        _check(ctx, ok, f"{tag}: resp['psd'][k] is |T(grid / Fn[k])|^2 * PSD", stn, None if ok else repr(val)[:400],
                               opaque=[c03_frf.abstract(val, G, FnV)] if not is_unknown(val) and not isinstance(val, (tuple, DictValue)) else [])
                # Miles
                zm = ret[1]
                if is_unknown(zm) or isinstance(zm, (tuple, DictValue)):
                    ctx.error(f"{tag}: Miles estimate", S_.ret_node(), repr(zm)[:300])
                    continue
                r = need(zm) * need(zm) / (F.sym("pi") / 2 * Q * FnV)
                u = unfn(r)
                ok, det = False, repr(r)[:400]
                if not fn_given:
                    ok = r.equals(P) and need(G).equals(FnV)              # the PSD interpolated to freq (= Fn)
                elif u and u[0] == "apply" and len(u[1]) >= 2 and not isinstance(u[1][1], str):
                    # an interpolant of (grid, PSD on the grid) evaluated at Fn
                    iu = unfn(u[1][0])
                    ipos = [z for z in iu[1] if not isinstance(z, str) and not (unfn(z) or ("",))[0].startswith("kw:")] if iu else []
                    if len(ipos) >= 2:
                        ok = u[1][1].equals(FnV) and ipos[0].equals(need(G)) and ipos[1].equals(P)
                        if not ok:
                            det = {"interpolant of": repr(ipos[1])[:200], "on": repr(ipos[0])[:200], "evaluated at": repr(u[1][1])[:200]}
                    else:
                        ctx.error(f"{tag}: PSD(fn) of the Miles estimate is obtained in a way this rule does not model", S_.ret_node(), repr(r)[:300])
                        continue
                elif u and u[0].startswith("call:") and _indep(r, "Q"):
                    ctx.error(f"{tag}: PSD(fn) of the Miles estimate is obtained in a way this rule does not model", S_.ret_node(), repr(r)[:300])
                    continue
                ctx.check(ok, f"{tag}: z_miles^2 == (pi/2) fn Q PSD(fn)", S_.ret_node(), None if ok else det)
                nm += 1
    for fn_given, lst in weights.items():
        a_ = [w for g, w, _s in lst if g]
        b_ = [w for g, w, _s in lst if not g]
        if a_ and b_:
            ok = all(x.equals(b_[0]) for x in a_ + b_)
            ctx.check(ok, f"vrs (Fn {'given' if fn_given else 'None'}): getresp and non-getresp loops integrate with the same weights", lst[-1][2],
                      None if ok else {"getresp": repr(a_[0])[:300], "no getresp": repr(b_[0])[:300]})
    if nm < 4:
        raise AnchorError("vrs: expected a Miles estimate in each of the four regimes")
    # without getmiles and getresp the spectrum alone is returned
    for fn_given in (True, False):
        tag = f"vrs (Fn {'given' if fn_given else 'None'}, getmiles=False, getresp=False)"
        try:
            rets = [S_.ret() for _dec, S_ in explore(ctx, fn, SRS, fixed=_vrs_fixed(fn_given, set(params)), env={"getresp": FALSE, "getmiles": FALSE},
                                                     hooks=(_psd_hook([]),))]
        except Unsupported as e:
            ctx.error(f"{tag}: evaluation", fn, str(e))
            continue
        ok = bool(rets) and all(r is not None and not isinstance(r, (tuple, DictValue)) and not is_unknown(r) for r in rets)
        ctx.check(ok, f"{tag}: only the spectrum is returned", fn, None if ok else [repr(r)[:200] for r in rets][:3])


# ---------------------------------------------------------------------------------------------------------------- eqsine
def r7_eqsine(ctx):
    """srs(): with eqsine the returned spectrum - and the returned response history when there is one - is the one computed without it divided
    by Q, exactly once; without it nothing depends on Q but the filter coefficients.  Decided by evaluating srs() in both regimes and
    comparing the returned values and what was stored into them."""
    fn = ctx.src.func(SRS, "srs")
    n = 0
    Q = F.sym("Q")
    for par in ("no", "yes"):
        for gr in (True, False):
            tag = f"srs (getresp={gr}, parallel={par})"
            try:
                out = {}
                for eq in (True, False):
                    res = list(srs_regime(ctx, getresp=gr, eqsine=eq, parallel=par))
                    if len(res) != 1:
                        raise Unsupported(f"{len(res)} paths")
                    out[eq] = res[0][0]
            except Unsupported as e:
                ctx.error(f"{tag}: evaluation", fn, str(e))
                continue
            rT, rF = out[True].ret(), out[False].ret()
            if gr:
                if not (isinstance(rT, tuple) and isinstance(rF, tuple) and len(rT) == 2 and len(rF) == 2):
                    ctx.error(f"{tag}: return value", fn, {"eqsine": repr(rT)[:200], "plain": repr(rF)[:200]})
                    continue
                sT, sF = rT[0], rF[0]
            else:
                sT, sF = rT, rF
            if any(v is None or is_unknown(v) or isinstance(v, (tuple, DictValue)) for v in (sT, sF)):
                ctx.error(f"{tag}: returned spectrum", fn, {"eqsine": repr(sT)[:200], "plain": repr(sF)[:200]})
                continue
            # what was stored into the spectrum array must not depend on eqsine
            def stored(S_):
                return sorted(repr(c[2]) for c in list(S_.ev.cells) + list(S_.ev.deep)
                              if c[2] is not None and not is_unknown(c[2]) and not isinstance(c[2], (tuple, DictValue)) and "lfilt" in X.fn_names(c[2]))
            ok = need(sT).equals(need(sF) / Q) and "Q" not in X.sym_names(need(sF)) and stored(out[True]) == stored(out[False])
            ctx.check(ok, f"{tag}: the returned spectrum is divided by Q once when eqsine is set and not at all otherwise", out[True].ret_node(),
                      None if ok else {"eqsine": repr(sT)[:300], "plain": repr(sF)[:300]})
            n += 1
            if gr:
                cnt = {}
                for eq in (True, False):
                    S_ = out[eq]
                    rv = S_.ret()[1]
                    name = sym_of(rv) if not is_unknown(rv) and not isinstance(rv, (tuple, DictValue)) else None
                    k = 0
                    other = []
                    for _nm, ix, val, _st in (S_.cells(name) if name else []):
                        if is_unknown(ix) or str_of(ix) != "hist" or is_unknown(val) or isinstance(val, (tuple, DictValue)):
                            continue
                        cur = F.fn("idx", F.sym(name), need(ix))
                        if need(val).equals(cur / Q):
                            k += 1
                        elif X.depends(need(val), "Q"):
                            other.append(repr(val)[:200])
                    # a local array bound to resp['hist'] and scaled in place
                    if name:
                        for b in sorted({S_.ev.bname(x) for x in S_.ev.buffers}):
                            init, curv = S_.ev.env.get("<init:%s>" % b), S_.ev.env.get("<cur:%s>" % b)
                            if init is None or curv is None or is_unknown(init) or is_unknown(curv) or isinstance(init, (tuple, DictValue)) or isinstance(curv, (tuple, DictValue)):
                                continue
                            if need(init).equals(F.fn("idx", F.sym(name), S("hist"))):
                                if need(curv).equals(F.sym(b) / Q):
                                    k += 1
                                elif X.depends(need(curv), "Q"):
                                    other.append(repr(curv)[:200])
                    cnt[eq] = (k, other)
                ok = cnt[True] == (1, []) and cnt[False] == (0, [])
                ctx.check(ok, f"{tag}: the returned response history is divided by Q once when eqsine is set and not at all otherwise", out[True].ret_node(),
                          None if ok else {"eqsine": cnt[True], "plain": cnt[False]})
    if n >= 4:
        ctx.ok(f"eqsine rule bound to {n} (getresp, parallel) regimes", fn, nontrivial=False)
    else:
        ctx.error(f"eqsine rule bound to {n} of 4 (getresp, parallel) regimes", fn)       # the checker's reach, not a verdict about the code


# ---------------------------------------------------------------------------------------------------------------- peak selectors
def r8_peak_selectors(ctx):
    """The reported spectrum value is the stated peak statistic of the response history over the time axis (axis 0; one column per signal):
    'abs' max |x|, 'pos' |max x|, 'poss' max x, 'neg' |min x|, 'negs' min x, 'rms' sqrt(mean x^2).  The function `_process_inputs` selects for
    each name is found by evaluating `_process_inputs` with that name; it is then evaluated on symbols (helpers and other selectors followed) and
    compared with the definition (reductions in method or function form, mean or sum / number of time samples)."""
    def call(node, ev):
        d = dotted(node.func) or ""
        if d == "max" and len(node.args) == 2 and isinstance(node.args[1], ast.Constant) and node.args[1].value == 1:
            return ev.ev(node.args[0])          # max(count, 1): the count itself for a non-empty history
        return NotImplemented

    x = F.sym("resp")
    zero = F.const(0)
    mx, mn = F.fn("red:max", x, zero), F.fn("red:min", x, zero)
    nrows = F.fn("rows", x)
    want = {
        "abs": [F.fn("red:max", F.fn("abs", x), zero)],
        "pos": [F.fn("abs", mx)],
        "poss": [mx],
        "neg": [F.fn("abs", mn)],
        "negs": [mn],
        "rms": [F.sqrt(F.fn("red:mean", x * x, zero)), F.sqrt(F.fn("red:sum", x * x, zero) / nrows)],
    }
    words = {"abs": "max |x|", "pos": "|max x|", "poss": "max x", "neg": "|min x|", "negs": "min x", "rms": "sqrt(mean x^2) over the time samples"}
    pi = ctx.src.func(SRS, "_process_inputs")
    pp = [a.arg for a in pi.args.posonlyargs + pi.args.args]
    if len(pp) != 4:
        raise AnchorError("_process_inputs(stype, peak, rolloff, time)")
    sel = {}
    for key in sorted(want):
        name = _peak_function(ctx, key)
        if name is None:
            # not a verdict about the code: a selector the evaluator cannot follow (an unresolved table, a lambda, an imported function)
            ctx.error(f"peak '{key}': the selector `_process_inputs` returns is not a module-level function this rule can evaluate", pi,
                      repr(ctx.__dict__["_c03_peak"][key][1])[:300])
            continue
        sel[key] = name
    if len(sel) == len(want):
        ctx.ok("_process_inputs: each of abs, pos, poss, neg, negs, rms selects a function", pi, sorted(sel))
    for key in sorted(sel):
        fn = ctx.src.func(SRS, sel[key])
        params = [a.arg for a in fn.args.posonlyargs + fn.args.args]
        if len(params) != 1:
            ctx.fail(f"peak '{key}': selector takes the response history only", fn, params)
            continue
        S_ = Sem3(ctx, fn, SRS, hooks=(call,), env={params[0]: x, params[0] + ".size": nrows * F.fn("dim", x, F.const(1))})
        got = S_.ret()
        if got is None or is_unknown(got) or isinstance(got, (tuple, DictValue)):
            ctx.error(f"peak '{key}': value of {sel[key]}", fn, repr(got))
            continue
        # the response history is real: |x| enters the value through even powers only <=> |x|^2 = x^2 may be used
        A = F.sym("<|resp|>")
        g2 = c03_frf.rewrite(need(got), lambda name, args: A if (name == "abs" and len(args) == 1 and not isinstance(args[0], str) and args[0].equals(x)) else None)
        if X.depends(g2, "<|resp|>") and g2.subs({"<|resp|>": -A}).equals(g2):
            got = g2.subs({"<|resp|>": x})
        ok = any(need(got).equals(w) for w in want[key])
        unmodelled = sorted(n for n in X.fn_names(need(got)) if n.startswith(("call:", "attr:", "idx", "apply")))
        if unmodelled and not ok:
            ctx.error(f"peak '{key}': {sel[key]} uses operations this rule does not model", fn, unmodelled)
            continue
        ctx.check(ok, f"peak '{key}' -> {sel[key]}: returns {words[key]} along the time axis (axis 0), one value per signal", fn,
                  None if ok else {"returns": repr(got), "definition": repr(want[key][0])})


RULES = [
    ("C03-R1", r1_filters, 36),
    ("C03-R2", r2_zero_limits, 12),
    ("C03-R3", r3_dc_gain, 40),
    ("C03-R4", r4_windows, 113),
    ("C03-R6", r6_vrs, 22),
    ("C03-R7", r7_eqsine, 7),
    ("C03-R8", r8_peak_selectors, 7),
    ("C03-R9", c03_frf.rule, 50),
]

LEVEL = "other"
EXPLANATION = ("Static, for all Q>0.5, dT, wn: each of the six SRS coefficient functions is evaluated on symbols (helpers followed) and its "
               "second-order section is compared, as exact symbolic expressions, with the ramp-invariant filter derived inside "
               "the checker from the oscillator ODE (homogeneous solution -> particular solution for a linear force -> z-transform "
               "of the one-step recurrence); wn==0 branches are the wn->0 limits; srs() itself is evaluated on symbols once per regime of its "
               "options: steady-state add-back equals DC gain times the removed offset at the serial site and in every worker, window start / "
               "history length / time vector / appended cycle per time option and rolloff regime (window start also on the ic='steady' code path), eqsine division; vrs integrand, response PSD "
               "and Miles closed forms, quadrature weights on a uniform grid; peak selectors; srs_frf per option regime and per uniform world of the "
               "oscillators (all elastic / all rigid): |frf| before the expansion onto the analysis grid, grid = frf_frq + p_peak*srs_frq with p_peak the "
               "maximiser of |H|, response = H(f/fn) |frf|(f) with the base-drive transfer function derived in the checker, peak over the grid, resp "
               "dictionary, scale_by_Q_only, default srs_frq and return tuple. Does not decide lfilter, resampling quality, the vrs quadrature weights on a "
               "non-uniform grid, the interpolation kernel.")
MANIFEST = {
    "text": "Partial claim decided statically for all parameters: (R1) every SRS coefficient function's general branch equals, "
            "as an exact symbolic identity, the ramp-invariant digital filter derived in the checker from the damped-oscillator ODE; "
            "(R2) each wn==0 branch is the wn->0 limit of its general branch; (R3) the steady-state initial-condition add-back in "
            "srs() and in the worker of each parallel regime equals the DC gain of the filter actually applied times the removed offset, and is "
            "absent exactly for the zero-gain types; (R4) for every time option x rolloff regime the evaluated window starts at row 0 / at the first "
            "appended row of the signal that is filtered, resp['hist'], resp['t'], resp['sr'] describe exactly that window, one cycle "
            "ceil(sr/min f) of zeros - in the frame of the original signal for ic='steady' - is appended for total / residual; "
            "(R6) both vrs loops integrate the closed-form transmissibility times the PSD on the same grid with the same weights, resp['psd'] and Miles' "
            "expression; (R7) eqsine = /Q exactly once on the returned spectrum and history; (R8) each peak selector (abs, pos, poss, neg, negs, rms) "
            "returns its stated statistic along the time axis and `_process_inputs` maps each name to the function with that value; "
            "(R9) srs_frf: the FRF that enters the response is |frf| interpolated from frf_frq onto the analysis grid (magnitude before interpolating), "
            "the grid contains frf_frq and p_peak*srs_frq with p_peak a stationary point of |H|^2, the reported value is the maximum over the grid of "
            "|H(f/fn)| |frf|(f) and resp['frfs'] the complex H(f/fn) |frf|(f) with H = (1 + j p/Q)/(1 - p^2 + j p/Q), rigid oscillators get the limit 0, "
            "scale_by_Q_only gives exactly Q |frf| at the oscillator frequencies, srs_frq=None means frf_frq/p_peak (frf_frq with scale_by_Q_only), the "
            "return tuple follows return_srs_frq / getresp; (R6 also) on a uniform grid every interior vrs weight is the step and the end weights the step "
            "or half of it. Not decided: scipy.signal.lfilter realising the recursion, resampling/rolloff quality, vrs quadrature weights on a non-uniform "
            "grid (the docstring does not define delta freq_i), scipy's interp1d.",
    "note": "Trusted: CPython ast, verifier/e2_formula.py exact algebra (self-checks its reference homogeneous solution against the ODE on every run). "
            "Assumes scipy.signal.lfilter implements the difference equation of (b, a).",
    "technique": "symbolic evaluation of the anchored functions per option regime (helpers inlined, constants folded, undecided tests explored) + exact "
                 "symbolic normal forms compared with an ODE-derived reference filter (z-transform of the exact one-step recurrence)",
}
