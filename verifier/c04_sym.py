"""C04-R8 helper: `OP4._is_symmetric` (scipy-sparse arm) evaluated *by value* on a tiny finite world of sparse patterns.

The world: 4x4 matrices with a handful of stored entries (values 1 / 2), given as the (matrix, rows, cols, values) tuple `_get_header_info` hands over
(rows / cols / values as `scipy.sparse.find` returns them; both the column-major and the row-major entry order scipy versions have used).  The
function is interpreted on these by the small concrete interpreter of c04_fmt (only the taken path), extended here by a model of 1-D numpy vectors:
coordinates are touched only through comparisons, boolean / integer-array selection, `lexsort` / `argsort`, equality and counting; values through
`allclose` / `isclose` / equality.  The expected answer is `A == A.T`, computed from the pattern itself.  A construct the interpreter does not know
is `Stop` (the by-value obligation is then not recorded: the symbolic rule decides alone); nothing of pyyeti is imported or run."""
from __future__ import annotations

import ast

from . import c04_fmt as FM
from .c04_fmt import Stop, Raised, Opaque
from .e1_srcmodel import dotted


class Vec:
    """a 1-D numpy vector (ints, floats or bools)"""

    def __init__(self, xs):
        self.xs = list(xs)

    def __len__(self):
        return len(self.xs)

    def __iter__(self):
        return iter(self.xs)

    def __repr__(self):
        return f"Vec({self.xs})"

    def isbool(self):
        return all(isinstance(x, bool) for x in self.xs)


def _pair(a, b):
    """broadcast two operands (vector / scalar) -> lists of equal length"""
    if isinstance(a, Vec) and isinstance(b, Vec):
        if len(a) == len(b):
            return a.xs, b.xs
        if len(a) == 1:
            return a.xs * len(b), b.xs
        if len(b) == 1:
            return a.xs, b.xs * len(a)
        raise Raised(f"operands could not be broadcast together with shapes ({len(a)},) ({len(b)},)")
    if isinstance(a, Vec):
        return a.xs, [b] * len(a)
    return [a] * len(b), b.xs


def _num(x):
    return isinstance(x, (int, float)) and not isinstance(x, Opaque)


PATTERNS = [
    # (name, entries {(row, col): value})
    ("empty", {}),
    ("diagonal only", {(0, 0): 1, (2, 2): 1}),
    ("one mirror pair", {(1, 0): 1, (0, 1): 1}),
    ("two mirror pairs and a diagonal entry", {(1, 0): 1, (0, 1): 1, (3, 2): 1, (2, 3): 1, (1, 1): 1}),
    ("three mirror pairs", {(2, 0): 1, (0, 2): 1, (3, 1): 1, (1, 3): 1, (3, 0): 1, (0, 3): 1}),
    ("anti-diagonal mirror pairs", {(3, 0): 1, (2, 1): 1, (0, 3): 1, (1, 2): 1}),
    ("mirror pairs with values 1 and 2", {(1, 0): 1, (2, 0): 2, (0, 1): 1, (0, 2): 2}),
    ("one mirror pair of value 2", {(2, 1): 2, (1, 2): 2}),
    ("entries at (1,0), (3,2), (0,1), (0,3)", {(1, 0): 1, (3, 2): 1, (0, 1): 1, (0, 3): 1}),
    ("entries at (1,0), (2,0), (0,1), (1,2)", {(1, 0): 1, (2, 0): 1, (0, 1): 1, (1, 2): 1}),
    ("single entry below the diagonal", {(1, 0): 1}),
    ("entries at (1,0), (0,2)", {(1, 0): 1, (0, 2): 1}),
    ("entries at (2,0), (1,2)", {(2, 0): 1, (1, 2): 1}),
    ("entries at (1,0), (2,3)", {(1, 0): 1, (2, 3): 1}),
    ("mirror pair with values 1 and 2", {(1, 0): 1, (0, 1): 2}),
    ("mirror pairs with swapped values", {(1, 0): 1, (2, 0): 2, (0, 1): 2, (0, 2): 1}),
    ("two entries above, two below, one pair mirrored", {(3, 1): 1, (1, 3): 1, (2, 0): 1, (0, 1): 1}),
]


def expected(entries):
    return all(entries.get((c, r), 0) == v for (r, c), v in entries.items())


def triplet(entries, order):
    keys = sorted(entries, key=(lambda rc: (rc[1], rc[0])) if order == "column-major" else (lambda rc: (rc[0], rc[1])))
    return (Vec([k[0] for k in keys]), Vec([k[1] for k in keys]), Vec([float(entries[k]) for k in keys]))


class SymMini(FM.Mini):
    """c04_fmt.Mini + 1-D numpy vectors"""

    def __init__(self, methods, consts=None):
        super().__init__(methods, b"", consts)

    def call_fn(self, fn, args, kwargs):
        # static methods: no `self` to strip (Mini strips a first parameter called self only)
        return super().call_fn(fn, args, kwargs)

    def truth(self, v):
        if isinstance(v, Vec):
            if len(v) > 1:
                raise Raised("The truth value of an array with more than one element is ambiguous")
            return bool(v.xs[0]) if v.xs else False
        return super().truth(v)

    def assign(self, t, v, env):
        if isinstance(t, (ast.Tuple, ast.List)) and isinstance(v, Vec):
            raise Stop("unpacking a vector")
        return super().assign(t, v, env)

    def binop(self, op, a, b):
        if isinstance(a, Vec) or isinstance(b, Vec):
            if isinstance(a, (Opaque, FM.FileV)) or isinstance(b, (Opaque, FM.FileV)):
                raise Stop("arithmetic on an unknown value")
            xs, ys = _pair(a, b)
            if isinstance(op, (ast.BitAnd, ast.BitOr, ast.BitXor)) and not all(isinstance(x, (bool, int)) for x in xs + ys):
                raise Raised("bit operation on floats")
            if isinstance(op, ast.Div):
                raise Stop("division of vectors")
            return Vec([super(SymMini, self).binop(op, x, y) for x, y in zip(xs, ys)])
        if isinstance(op, ast.Div) and _num(a) and _num(b) and b != 0:
            return a / b
        if isinstance(a, float) or isinstance(b, float):
            if isinstance(op, (ast.Add, ast.Sub, ast.Mult)) and _num(a) and _num(b):
                return super().binop(op, a, b)
            raise Stop("float arithmetic")
        return super().binop(op, a, b)

    def cmp(self, op, a, b):
        if (isinstance(a, Vec) or isinstance(b, Vec)) and isinstance(op, (ast.Eq, ast.NotEq, ast.Lt, ast.LtE, ast.Gt, ast.GtE)):
            if isinstance(a, (Opaque, FM.FileV)) or isinstance(b, (Opaque, FM.FileV)) or a is None or b is None:
                raise Stop("comparison with an unknown value")
            if isinstance(a, Vec) and isinstance(b, Vec) and len(a) != len(b) and 1 not in (len(a), len(b)):
                raise Raised("operands could not be broadcast together")
            xs, ys = _pair(a, b)
            return Vec([bool(super(SymMini, self).cmp(op, x, y)) for x, y in zip(xs, ys)])
        if isinstance(a, Vec) or isinstance(b, Vec):
            raise Stop("identity / membership test of a vector")
        return super().cmp(op, a, b)

    # ---------------------------------------------------------------------------------------------------------------- expressions
    def select(self, v, i):
        if isinstance(i, Vec):
            if i.isbool() and (i.xs or not v.xs):
                if len(i) != len(v):
                    raise Raised("boolean index did not match indexed array")
                return Vec([x for x, k in zip(v.xs, i.xs) if k])
            if all(isinstance(k, int) and not isinstance(k, bool) for k in i.xs):
                try:
                    return Vec([v.xs[k] for k in i.xs])
                except IndexError as x:
                    raise Raised(str(x))
            raise Stop("index vector")
        if isinstance(i, (list, tuple)) and all(isinstance(k, int) and not isinstance(k, bool) for k in i) and not isinstance(i, tuple):
            return self.select(v, Vec(i))
        if isinstance(i, int) and not isinstance(i, bool):
            try:
                return v.xs[i]
            except IndexError as x:
                raise Raised(str(x))
        raise Stop("index of a vector")

    def ev(self, e, env):
        if isinstance(e, ast.Compare) and len(e.ops) == 1:
            left, right = self.ev(e.left, env), self.ev(e.comparators[0], env)
            return self.cmp(e.ops[0], left, right)
        if isinstance(e, ast.Subscript):
            v = self.ev(e.value, env)
            if isinstance(v, Vec):
                if isinstance(e.slice, ast.Slice):
                    lo = self.ev(e.slice.lower, env) if e.slice.lower is not None else None
                    hi = self.ev(e.slice.upper, env) if e.slice.upper is not None else None
                    stp = self.ev(e.slice.step, env) if e.slice.step is not None else None
                    if not all(x is None or (isinstance(x, int) and not isinstance(x, bool)) for x in (lo, hi, stp)):
                        raise Stop("slice bounds")
                    return Vec(v.xs[lo:hi:stp])
                return self.select(v, self.ev(e.slice, env))
            if isinstance(v, tuple) and not isinstance(e.slice, ast.Slice):
                i = self.ev(e.slice, env)
                if isinstance(i, int) and not isinstance(i, bool):
                    try:
                        return v[i]
                    except IndexError as x:
                        raise Raised(str(x))
                raise Stop("index")
            if isinstance(v, tuple):
                return super().ev(ast.Subscript(value=ast.Name(id="__v", ctx=ast.Load()), slice=e.slice, ctx=ast.Load()), dict(env, __v=v))
            raise Stop("subscript of an unknown value")
        if isinstance(e, ast.UnaryOp) and not isinstance(e.op, ast.Not):
            v = self.ev(e.operand, env)
            if isinstance(v, Vec):
                if isinstance(e.op, ast.Invert) and v.isbool():
                    return Vec([not x for x in v.xs])
                if isinstance(e.op, ast.USub) and not v.isbool():
                    return Vec([-x for x in v.xs])
                raise Stop("unary operator on a vector")
            if isinstance(v, float) and isinstance(e.op, ast.USub):
                return -v
            return super().ev(ast.UnaryOp(op=e.op, operand=ast.Name(id="__v", ctx=ast.Load())), dict(env, __v=v))
        if isinstance(e, ast.Attribute) and not (isinstance(e.value, ast.Name) and e.value.id in ("self", "np", "numpy", "sp", "scipy", "OP4")):
            v = self.ev(e.value, env)
            if isinstance(v, Vec):
                if e.attr == "size":
                    return len(v)
                if e.attr == "shape":
                    return (len(v),)
                if e.attr == "ndim":
                    return 1
                if e.attr == "T":
                    return v
            raise Stop(f"attribute .{e.attr}")
        return super().ev(e, env)

    def _vec(self, x):
        if isinstance(x, Vec):
            return x
        if isinstance(x, (list, tuple)) and all(_num(k) for k in x):
            return Vec(x)
        raise Stop("array argument")

    def call(self, e, env):
        if any(isinstance(a, ast.Starred) for a in e.args) or any(k.arg is None for k in e.keywords):
            raise Stop("star arguments")
        d = dotted(e.func) or ""
        if isinstance(e.func, ast.Attribute) and isinstance(e.func.value, ast.Name) and e.func.value.id in ("self", "OP4") and e.func.attr in self.methods:
            return super().call(e, env)
        head, _, name = d.rpartition(".")
        if d == "isinstance" and len(e.args) == 2 and not e.keywords:
            v = self.ev(e.args[0], env)
            tn = dotted(e.args[1]) or ""
            if isinstance(v, (Opaque, FM.FileV)):
                raise Stop("isinstance of an unknown value")
            if tn == "tuple":
                return isinstance(v, tuple)
            if tn == "list":
                return isinstance(v, list)
            if tn in ("np.ndarray", "numpy.ndarray"):
                return isinstance(v, Vec)
            raise Stop(f"isinstance(..., {tn})")
        if d in ("sp.issparse", "scipy.sparse.issparse", "sparse.issparse", "issparse") and len(e.args) == 1:
            v = self.ev(e.args[0], env)
            if isinstance(v, (tuple, Vec)):
                return False
            raise Stop("issparse of an unknown value")
        if head in ("np", "numpy"):
            args = [self.ev(a, env) for a in e.args]
            kw = {k.arg: self.ev(k.value, env) for k in e.keywords}
            return self.np_call(name, args, kw)
        if isinstance(e.func, ast.Attribute) and not (isinstance(e.func.value, ast.Name) and e.func.value.id in ("struct", "int")):
            recv = self.ev(e.func.value, env)
            if isinstance(recv, Vec):
                args = [self.ev(a, env) for a in e.args]
                kw = {k.arg: self.ev(k.value, env) for k in e.keywords}
                m = e.func.attr
                if m in ("all", "any", "sum", "argsort", "tolist", "copy", "astype", "nonzero", "min", "max"):
                    if m == "tolist" and not args and not kw:
                        return list(recv.xs)
                    if m == "copy" and not args:
                        return Vec(recv.xs)
                    if m == "astype":
                        raise Stop(".astype")
                    return self.np_call(m, [recv] + args, kw)
                raise Stop(f"method .{m} of a vector")
            if isinstance(recv, (Opaque, FM.FileV)):
                raise Stop(f"method .{e.func.attr} of an unknown value")
        if d in ("len", "zip", "sorted", "list", "tuple", "set", "sum", "all", "any", "enumerate", "reversed", "min", "max", "bool", "abs") and not e.keywords:
            args = [self.ev(a, env) for a in e.args]
            if any(isinstance(a, Vec) for a in args):
                if d == "abs":
                    return self.np_call("abs", args, {})
                if d == "bool":
                    return self.truth(args[0])
                args = [list(a.xs) if isinstance(a, Vec) else a for a in args]
                if any(isinstance(a, (Opaque, FM.FileV)) for a in args):
                    raise Stop(f"{d}() of an unknown value")
                try:
                    return FM.BUILTINS[d](*args)
                except (ValueError, TypeError) as x:
                    raise Raised(f"{type(x).__name__}: {x}")
            if d == "abs" and len(args) == 1 and _num(args[0]):
                return abs(args[0])
        return super().call(e, env)

    def np_call(self, name, args, kw):
        if any(isinstance(a, (Opaque, FM.FileV)) for a in list(args) + list(kw.values())):
            raise Stop(f"np.{name} of an unknown value")
        if name in ("count_nonzero", "sum") and len(args) == 1 and not kw:
            v = self._vec(args[0])
            return sum(1 for x in v.xs if x) if name == "count_nonzero" else sum(v.xs)
        if name in ("all", "any", "alltrue") and len(args) == 1 and not kw:
            if isinstance(args[0], bool):
                return args[0]
            v = self._vec(args[0])
            return all(v.xs) if name != "any" else any(v.xs)
        if name in ("min", "max", "amin", "amax") and len(args) == 1 and not kw:
            v = self._vec(args[0])
            if not v.xs:
                raise Raised("zero-size array to reduction operation")
            return (min if "min" in name else max)(v.xs)
        if name == "lexsort" and len(args) == 1 and not kw:
            keys = args[0]
            if isinstance(keys, Vec) or not isinstance(keys, (tuple, list)) or not keys:
                raise Stop("np.lexsort keys")
            keys = [self._vec(k) for k in keys]
            n = len(keys[0])
            if any(len(k) != n for k in keys):
                raise Raised("all keys need to be the same shape")
            return Vec(sorted(range(n), key=lambda i: tuple(k.xs[i] for k in reversed(keys))))
        if name == "argsort" and len(args) == 1 and set(kw) <= {"kind"}:
            v = self._vec(args[0])
            if kw.get("kind") not in (None, "stable", "mergesort") and len(set(v.xs)) != len(v.xs):
                raise Stop("unstable argsort with ties")
            if "kind" not in kw and len(set(v.xs)) != len(v.xs):
                raise Stop("unstable argsort with ties")
            return Vec(sorted(range(len(v)), key=lambda i: v.xs[i]))
        if name in ("array_equal", "array_equiv") and len(args) == 2 and not kw:
            a, b = self._vec(args[0]), self._vec(args[1])
            return len(a) == len(b) and all(x == y for x, y in zip(a.xs, b.xs))
        if name in ("allclose", "isclose") and len(args) >= 2 and set(kw) <= {"rtol", "atol"}:
            rtol = args[2] if len(args) > 2 else kw.get("rtol", 1e-05)
            atol = args[3] if len(args) > 3 else kw.get("atol", 1e-08)
            if len(args) > 4 or not _num(rtol) or not _num(atol) or not (0 <= rtol < 0.3 and 0 <= atol < 0.3):
                raise Stop("tolerances")      # a tolerance that wide is the symbolic rule's business
            if not isinstance(args[0], Vec) and not isinstance(args[1], Vec):
                if _num(args[0]) and _num(args[1]):
                    r = abs(args[0] - args[1]) <= atol + rtol * abs(args[1])
                    return r
                raise Stop("allclose arguments")
            xs, ys = _pair(args[0], args[1])
            if isinstance(args[0], Vec) and isinstance(args[1], Vec) and len(args[0]) != len(args[1]) and 1 not in (len(args[0]), len(args[1])):
                raise Raised("operands could not be broadcast together")
            out = [abs(x - y) <= atol + rtol * abs(y) for x, y in zip(xs, ys)]
            return all(out) if name == "allclose" else Vec(out)
        if name in ("abs", "absolute", "fabs") and len(args) == 1 and not kw:
            if _num(args[0]):
                return abs(args[0])
            return Vec([abs(x) for x in self._vec(args[0]).xs])
        if name in ("logical_and", "logical_or") and len(args) == 2 and not kw:
            xs, ys = _pair(*[a if isinstance(a, Vec) or isinstance(a, bool) else self._vec(a) for a in args])
            return Vec([(bool(x) and bool(y)) if name == "logical_and" else (bool(x) or bool(y)) for x, y in zip(xs, ys)])
        if name == "logical_not" and len(args) == 1 and not kw:
            return Vec([not x for x in self._vec(args[0]).xs])
        if name in ("nonzero", "flatnonzero", "where") and len(args) == 1 and not kw:
            r = Vec([i for i, x in enumerate(self._vec(args[0]).xs) if x])
            return r if name == "flatnonzero" else (r,)
        if name in ("asarray", "array", "ascontiguousarray") and len(args) == 1 and not kw:
            return Vec(self._vec(args[0]).xs)
        if name in ("equal", "not_equal", "greater", "less", "greater_equal", "less_equal") and len(args) == 2 and not kw:
            op = {"equal": ast.Eq, "not_equal": ast.NotEq, "greater": ast.Gt, "less": ast.Lt, "greater_equal": ast.GtE, "less_equal": ast.LtE}[name]()
            return self.cmp(op, args[0], args[1])
        raise Stop(f"np.{name}")


def run_world(methods, fn, consts=None):
    """-> ("stop", reason) | ("done", [(pattern name, entries, expected, {order: answer | ("raise", text)})])"""
    rows = []
    for name, entries in PATTERNS:
        exp = expected(entries)
        got = {}
        for order in ("column-major", "row-major"):
            r, c, v = triplet(entries, order)
            m = SymMini(methods, consts)
            try:
                a = m.call_fn(fn, [(Opaque("m0"), r, c, v)], {})
            except Stop as x:
                return "stop", f"{name}: {x}"
            except Raised as x:
                got[order] = ("raise", str(x))
                continue
            except RecursionError:
                return "stop", "recursion"
            if isinstance(a, Vec):
                if len(a) != 1:
                    return "stop", f"{name}: the function returns a vector"
                a = a.xs[0]
            if isinstance(a, (Opaque, FM.FileV)) or a is None or isinstance(a, (tuple, list, str, bytes)):
                return "stop", f"{name}: returned value {a!r}"
            got[order] = bool(a)
        rows.append((name, entries, exp, got))
    return "done", rows
