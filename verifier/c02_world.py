"""C02 helper -- what an array holds at one *class of frequencies* (a finite-world evaluation of the frequency selections).

The rigid-body velocity and displacement are v = a / (i W), d = -a / W^2 wherever W != 0 and zero at 0 Hz.  How the code restricts the
computation to the non-zero frequencies is immaterial: a boolean mask `freqw != 0`, its index form, `~(freqw == 0)`, `abs(freqw) > 0`, a vector
of integration factors that is filled under the mask and multiplied in, `np.where(mask, x, 0)`, an array of its own that is filled on the
selected columns, a masked write into the result.  So the rule does not read the *shape* of the code: it asks what the rows hold in each of
three worlds of one frequency column -

    pos : W > 0        neg : W < 0        zero : W == 0

A selection is a comparison of a quantity proportional to freq or freq^2 (or its absolute value) with a constant; in a world it is true, false
or *mixed* (true for some frequencies of the world, false for others: `freqw != 1`, `freqw > 3`).  Values are replayed through the stores of
the trace in program order; a store under a selection applies where the selection is true, does not apply where it is false, and under a
mixed selection both the old and the new content occur in the world.  The result is the finite set of formulas that occur in the world.

Everything that cannot be decided this way raises Unsupported (the rule then reports an analysis error, never a verdict)."""
from __future__ import annotations

from fractions import Fraction

from . import e2_formula as F
from .core import Unsupported
from .e2_eval import is_unknown, need
from .sem import unfn
from . import c02_sem as S

FREQ = F.sym("freq")
WORLDS = ("pos", "neg", "zero")
MIXED = "mixed"


def _unwrap_axis(ix):
    """ax<k>(M) -> (k, M);  axL(M) -> (-1, M);  M -> (0, M)"""
    u = unfn(ix) if ix is not None and not is_unknown(ix) else None
    if u is not None and u[0] == "axL" and len(u[1]) == 1 and not isinstance(u[1][0], str):
        return -1, u[1][0]
    if u is not None and u[0].startswith("ax") and u[0][2:].isdigit() and len(u[1]) == 1 and not isinstance(u[1][0], str):
        return int(u[0][2:]), u[1][0]
    return 0, ix


def _range_of(x, world):
    """the set of values a quantity proportional to freq / freq^2 (or the absolute value of one) takes in a world: '+', '-', '0'; None: not such a
    quantity"""
    if x is None or is_unknown(x) or isinstance(x, tuple):
        return None
    u = unfn(x)
    if u is not None and u[0] in ("abs", "call:abs", "call:np.abs", "call:np.absolute", "call:np.fabs") and len(u[1]) == 1 and not isinstance(u[1][0], str):
        r = _range_of(u[1][0], world)
        return None if r is None else ("0" if r == "0" else "+")
    try:
        xe = S.erase_idx(x)
        if xe.is_zero():
            return None
        for n in (1, 2):
            q = xe / (FREQ ** n)
            if not q.diff("freq").is_zero():
                continue
            q = q.subs({"pi": F.const(Fraction(355, 113))})          # (only the sign of the factor is used)
            if not q.is_const() or q.const_value() == 0:
                return None
            if world == "zero":
                return "0"
            sgn = 1 if q.const_value() > 0 else -1
            if n == 1 and world == "neg":
                sgn = -sgn
            return "+" if sgn > 0 else "-"
    except Exception:  # noqa  (complex factors, atoms without a derivative, ...)
        return None
    return None


_FLIP = {"Gt": "Lt", "Lt": "Gt", "GtE": "LtE", "LtE": "GtE", "Eq": "Eq", "NotEq": "NotEq"}


def _cmp_on(rng, op, c):
    """truth of `x <op> c` for x ranging over rng ('+': (0, inf), '-': (-inf, 0), '0': {0}): True | False | MIXED"""
    if rng == "0":
        return {"Eq": 0 == c, "NotEq": 0 != c, "Gt": 0 > c, "Lt": 0 < c, "GtE": 0 >= c, "LtE": 0 <= c}[op]
    inside = (c > 0) if rng == "+" else (c < 0)          # c is one of the values x takes
    if op == "Eq":
        return MIXED if inside else False
    if op == "NotEq":
        return MIXED if inside else True
    if rng == "-":
        # mirror: x in (-inf, 0), x op c  <=>  -x in (0, inf), -x flip(op) -c
        return _cmp_on("+", _FLIP[op], -c)
    # rng '+': x in (0, inf)
    if op in ("Gt", "GtE"):
        return True if (c < 0 or (c == 0 and op == "Gt") or (c == 0 and op == "GtE")) else MIXED
    if op in ("Lt", "LtE"):
        return False if c <= 0 else MIXED
    raise Unsupported(f"comparison {op}")


def mask_truth(M, world):
    """True | False | MIXED for a frequency selection in a world; None: not a frequency selection the rule can read"""
    u = unfn(M) if M is not None and not is_unknown(M) and not isinstance(M, tuple) else None
    if u is None:
        return None
    name, args = u
    if any(isinstance(a, str) for a in args):
        return None
    if name in ("invert", "not", "call:np.logical_not") and len(args) == 1:
        r = mask_truth(args[0], world)
        return None if r is None else (MIXED if r == MIXED else (not r))
    if name in ("mask:BitAnd", "mask:BitOr", "bool:And", "bool:Or") and len(args) >= 2:
        rs = [mask_truth(a, world) for a in args]
        if any(r is None for r in rs):
            return None
        stop = name.endswith(("Or", "BitOr"))
        if any(r is stop for r in rs):
            return stop
        return (not stop) if all(r is (not stop) for r in rs) else MIXED
    if name.startswith("cmp:") and len(args) == 2 and name[4:] in _FLIP:
        op = name[4:]
        a, b = args
        if b.is_const():
            x, c = a, b.const_value()
        elif a.is_const():
            x, c, op = b, a.const_value(), _FLIP[op]
        else:
            return None
        rng = _range_of(x, world)
        if rng is None:
            if c == 0 and op in ("Eq", "NotEq"):
                # `mask != 0` (np.flatnonzero(mask) is evaluated to that), `mask == False`
                r = mask_truth(x, world)
                if r is not None:
                    return r if op == "NotEq" or r == MIXED else (not r)
            return None
        return _cmp_on(rng, op, c)
    if name in ("call:.astype", "call:bool", "call:np.asarray") and args:
        return mask_truth(args[0], world)
    # truthiness of the quantity itself (np.flatnonzero(x) is evaluated to `x != 0` by the evaluator; `x.astype(bool)`)
    return None


class World:
    """content of arrays of one evaluated path in one world"""

    def __init__(self, run, world):
        self.run = run
        self.tr = run.trace
        self.world = world
        self.letters = {i: x for x, i in run.ids.items()}
        self.selections = []      # (base value, axis, selection value, node, is_store): every frequency selection met on the way

    # ---- values
    def value(self, val, before, node=None, depth=0):
        """the set (list of distinct formulas) a value takes in this world, subscripts erased"""
        if depth > 10:
            raise Unsupported("values nested too deeply")
        if val is None or is_unknown(val) or isinstance(val, tuple):
            raise Unsupported(f"a value that is not known ({val!r})")
        val = need(val)
        # every atom that has several possible contents multiplies the variants: substitute atom by atom
        choices = []          # [(atom key, [alternatives])]

        def scan(kind, name, args):
            if kind == "s" and name in self.tr.idents and name not in self.tr.loop_syms and name not in self.letters and (self.tr.cells_of(name) or name in self.tr.created):
                alts = self.array(name, before, depth + 1)
                choices.append((("s", name), alts))
            elif kind == "fn" and name == "idx" and len(args) == 2 and not isinstance(args[0], str) and not isinstance(args[1], str):
                ax, M = _unwrap_axis(args[1])
                t = mask_truth(M, self.world)
                if t is not None:
                    self.selections.append((args[0], ax, M, node, False))
                nm = S.sym_name(args[0])
                if nm in self.letters and t is None:
                    alts = self.rows(self.letters[nm], args[1], before, depth + 1)
                    choices.append((("idx", S.vkey(F.fn("idx", args[0], args[1]))), alts))
            elif kind == "fn" and name in ("call:np.where", "call:numpy.where") and len(args) == 3 and not any(isinstance(a, str) for a in args):
                t = mask_truth(args[0], self.world)
                if t is None:
                    raise Unsupported(f"np.where on a condition that is not a frequency selection ({args[0]!r})")
            return NotImplemented
        S.rewrite(val, scan)
        combos = [{}]
        for key, alts in choices:
            if key in combos[0]:
                continue
            combos = [{**c, key: a} for c in combos for a in alts]
            if len(combos) > 16:
                raise Unsupported("too many variants of one value")
        out = []
        for combo in combos:
            out.append(self._subst(val, combo))
        res = []
        for v in out:
            if not any(_same(v, w) for w in res):
                res.append(v)
        return res

    def _subst(self, val, combo):
        """top-down substitution (an atom of `combo` is replaced as a whole, its arguments are not visited)"""
        memo = {}

        def poly(p):
            res = F.const(0)
            for m, c in p.t.items():
                term = F.const(c)
                for a, e in m:
                    term = term * (atom(a) ** e)
                res = res + term
            return res

        def rat_of(k):
            return poly(F._poly_from_key(k[1])) / poly(F._poly_from_key(k[2]))

        def atom(a):
            if a in memo:
                return memo[a]
            d = F.atom_desc(a)
            r = None
            if d[0] == "s":
                r = combo.get(("s", d[1]))
                if r is None:
                    r = F.Rat(F.Poly.atom(a))
            elif d[0] in ("exp", "sin", "cos", "sqrt"):
                r = {"exp": F.exp, "sin": F.sin, "cos": F.cos, "sqrt": F.sqrt}[d[0]](poly(F._poly_from_key(d[1])))
            elif d[0] == "fn":
                raw = [k if isinstance(k, str) else F.Rat(F._poly_from_key(k[1]), F._poly_from_key(k[2])) for k in d[2]]
                if d[1] == "idx" and len(raw) == 2 and not isinstance(raw[0], str) and not isinstance(raw[1], str):
                    k = ("idx", S.vkey(F.fn("idx", raw[0], raw[1])))
                    if k in combo:
                        r = combo[k]
                    else:
                        r = rat_of(d[2][0])          # the selection itself is erased
                elif d[1] in ("call:np.where", "call:numpy.where") and len(raw) == 3 and not any(isinstance(x, str) for x in raw):
                    t = mask_truth(raw[0], self.world)
                    if t is True:
                        r = rat_of(d[2][1])
                    elif t is False:
                        r = rat_of(d[2][2])
                    else:
                        raise Unsupported("np.where on a selection that is neither true nor false for all frequencies of one sign")
                else:
                    r = F.fn(d[1], *[k if isinstance(k, str) else rat_of(k) for k in d[2]])
            else:
                raise Unsupported(f"atom {d}")
            memo[a] = r
            return r
        return poly(val.n) / poly(val.d)

    # ---- arrays
    def array(self, ident, before, depth=0):
        """what a local array (np.zeros & co., filled through stores) holds in this world just before the clock `before`"""
        init = self.tr.init.get(ident)
        if init is None:
            cur = [F.sym(ident)]
        elif is_unknown(init) or isinstance(init, tuple):
            raise Unsupported(f"`{ident}` is created from a value that is not known")
        elif S.sym_name(init) == ident:
            cur = [F.sym(ident)]
        else:
            cur = self.value(init, before, None, depth + 1) if not need(init).is_const() and S.sym_name(init) != "<uninitialised memory>" else [need(init)]
        for c in self.tr.cells_of(ident):
            if before is not None and c[4] >= before:
                continue
            cur = self._apply(cur, c, None, depth)
        return cur

    def rows(self, letter, ix, before, depth=0):
        """what the rows `ix` of a result array hold in this world just before the clock `before`"""
        ident = self.run.ids[letter]
        init = self.tr.init.get(ident)
        cur = [F.const(0)] if (init is not None and not is_unknown(init) and not isinstance(init, tuple) and need(init).is_zero()) else [F.fn("idx", F.sym(ident), ix)]
        for c in self.tr.cells_of(ident):
            if before is not None and c[4] >= before:
                continue
            cur = self._apply(cur, c, ix, depth)
        return cur

    def _apply(self, cur, cell, rows, depth):
        """the content after one store.  `rows`: the row selection asked for (None: a local array - every store concerns it)"""
        ident, ix, val, node, clk = cell
        if ix is not None and is_unknown(ix):
            raise Unsupported(f"a store into `{ident}` under an index that is not known")
        sel = None          # frequency selection of the store (None: every column)
        if ix is None:
            pass
        elif rows is not None:
            if _same(ix, rows):
                pass
            else:
                u = unfn(ix)
                parts = [a for a in u[1] if not isinstance(a, str)] if u is not None and u[0] == "tuple" else None
                if parts and len(parts) == 2 and _same(parts[0], rows):
                    sel = (1, parts[1])
                elif parts and len(parts) == 2 and S.sym_name(parts[0]) == ":":
                    sel = (1, parts[1])          # all rows, selected columns
                else:
                    ax, M = _unwrap_axis(ix)
                    if mask_truth(M, self.world) is not None and ax != 0:
                        sel = (ax, M)            # all rows, selected columns
                    else:
                        return cur               # other rows
        else:
            ax, M = _unwrap_axis(ix)
            u = unfn(ix)
            if u is not None and u[0] == "tuple":
                parts = [a for a in u[1] if not isinstance(a, str)]
                if len(parts) == 2 and S.sym_name(parts[0]) == ":":
                    ax, M = 1, parts[1]
                else:
                    raise Unsupported(f"a store into `{ident}` under `{ix!r}`")
            sel = (ax, M)
        t = True
        if sel is not None:
            t = mask_truth(sel[1], self.world)
            if t is None:
                raise Unsupported(f"a store into `{ident}` under a selection that is not a comparison of the frequency with a constant (`{sel[1]!r}`)")
            self.selections.append((F.sym(ident), sel[0], sel[1], node, True))
        if t is False:
            return cur
        # an update written in terms of the array itself (`x *= f`): applied to each thing it held
        new = []
        me = F.sym(ident)
        for old in cur:
            v = val
            if ix is None and ident in S_symbols(val):
                v = S.rewrite(need(val), lambda kind, name, args, old=old: old if kind == "s" and name == ident else NotImplemented)
            for x in self.value(v, clk, node, depth + 1):
                if not any(_same(x, y) for y in new):
                    new.append(x)
        if t is True:
            return new
        return cur + [x for x in new if not any(_same(x, y) for y in cur)]


def S_symbols(v):
    out = set()
    if v is None or is_unknown(v) or isinstance(v, tuple):
        return out

    def f(kind, name, args):
        if kind == "s":
            out.add(name)
        return NotImplemented
    try:
        S.rewrite(v, f)
    except Unsupported:
        pass
    return out


def _same(a, b):
    try:
        return need(a).equals(need(b))
    except Exception:  # noqa
        return False
