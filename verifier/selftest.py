"""Thorough tier: test the checkers both ways on scratch copies of /repo.

* break recipes   -- one instance of one rule is broken by a position-independent text edit scoped to a function
                     (and every seeded patch under /verif/seeded/<id>/patch.diff that belongs to the property);
                     the copy must still byte-compile and the named rule must report a violation.
* neutral recipes -- behaviour-preserving edits (rename a local, introduce a temporary, commute a sum, reformat);
                     no rule may fail or lose its binding.

Scratch copies live under a mkdtemp outside /repo and /verif and are removed on exit.
A recipe that no longer applies is an error of the self-test (reported in the evidence), not of the property.
"""
from __future__ import annotations

import json
import os
import py_compile
import shutil
import subprocess
import tempfile
from concurrent.futures import ProcessPoolExecutor

from . import core

# (property, kind, expected rules (any of), file, old, new, description)
RECIPES = [
    # ---- C01
    ("C01", "break", ["C01-R1"], "pyyeti/ode/_utilities.py", "Ap[pvundr] = t0 * (ex * ((beta + h * _wo2) * sn + w * cs) - w)",
     "Ap[pvundr] = t0 * (ex * ((beta + h * _wo2) * sn - w * cs) - w)", "sign of the w*cos term in the under-damped Ap"),
    ("C01", "break", ["C01-R1"], "pyyeti/ode/_utilities.py", "B[pvcrit] = (t0 / beta) * (hbeta - 2 + ex * (2 + hbeta))",
     "B[pvcrit] = (t0 / beta) * (hbeta - 2 + ex * (2 - hbeta))", "critical B"),
    ("C01", "break", ["C01-R1"], "pyyeti/ode/_utilities.py", "G[pvover] = esinh / w", "G[pvover] = ecosh / w", "over-damped G"),
    ("C01", "break", ["C01-R1"], "pyyeti/ode/_utilities.py", "Bp[pvvelo] = ibm * (1 + ibh * (ex - 1))", "Bp[pvvelo] = ibm * (1 - ibh * (ex - 1))", "damped-rb Bp"),
    ("C01", "break", ["C01-R1"], "pyyeti/ode/_utilities.py", "A = (h * h / 3) * F / m", "A = (h * h / 6) * F / m", "undamped rb A"),
    ("C01", "break", ["C01-R1b"], "pyyeti/ode/_utilities.py", "pvrb_damped = (abs(C) > 1e-5 / np.sqrt(h)) & pvrb", "pvrb_damped = (abs(b) > 2e-5 / np.sqrt(h)) & pvrb",
     "regime selector on raw b"),
    ("C01", "break", ["C01-R1b"], "pyyeti/ode/solveunc.py", "Be[el] = Fe[el] * ilamh - ilam - ilamh", "Be[el] = Fe[el] * ilamh - ilam + ilamh", "complex-path Be"),
    ("C01", "break", ["C01-R3"], "pyyeti/ode/_base_ode_class.py", "d[self.el, 0] = F0[self.el] / self.k[self._el]", "d[self.el, 0] = F0[self.el] / self.k[self.el]",
     "static ic: full-set index into non-rf stiffness"),
    ("C01", "break", ["C01-R3"], "pyyeti/ode/_base_ode_class.py", "mrb = self.m[self._rb]", "mrb = self.m[self.rb]", "revert F5"),
    ("C01", "break", ["C01-R3"], "pyyeti/ode/solveunc.py", "get_su_coef(self.m, self.b, self.k, h, self._rb)", "get_su_coef(self.m, self.b, self.k, h, self.rb)", "revert F7"),
    ("C01", "break", ["C01-R4"], "pyyeti/ode/_base_ode_class.py", "                d0 = la.solve(self.phi, d0)\n", "                pass\n", "revert F4 (d0)"),
    ("C01", "break", ["C01-R3"], "pyyeti/ode/solveexp2.py", "self.E_vd = E[:ksize, ksize:].copy()", "self.E_vd = E[ksize:, :ksize].copy()", "state halves swapped"),
    ("C01", "neutral", [], "pyyeti/ode/_utilities.py", "t0 = 1 / (h * _k * w)\n            t1 = (_w2 - beta * beta) / _wo2",
     "t0 = 1 / (w * h * _k)\n            t1 = (-beta * beta + _w2) / _wo2", "commuted products / sums"),
    ("C01", "neutral", [], "pyyeti/ode/_utilities.py", "            hbeta = h * beta\n            F[pvcrit] = ex * (1 + hbeta)",
     "            hbeta = beta * h\n            one_hb = 1 + hbeta\n            F[pvcrit] = ex * one_hb", "temporary introduced"),
    ("C01", "break", ["C01-R6"], "pyyeti/ode/_base_ode_class.py", "                    B = b @ v[kdof]", "                    B = self.bo @ v[kdof]", "equilibrium acceleration: diagonal damping dropped"),
    ("C01", "break", ["C01-R6"], "pyyeti/ode/_base_ode_class.py", "                    a[kdof] = la.lu_solve(self.invm, F - B - K, check_finite=False)",
     "                    a[kdof] = la.lu_solve(self.invm, F - B + K, check_finite=False)", "equilibrium acceleration: stiffness sign (coupled arm)"),
    ("C01", "break", ["C01-R6"], "pyyeti/ode/_base_ode_class.py", "                    bo[i, i] = 0.0  # off diagonal damping", "                    pass", "bo keeps its diagonal"),
    ("C01", "neutral", [], "pyyeti/ode/_base_ode_class.py", "                    bo[i, i] = 0.0  # off diagonal damping", "                    np.fill_diagonal(bo, 0.0)", "other zeroing idiom"),
    ("C01", "break", ["C01-R7"], "pyyeti/ode/_base_ode_class.py", "                rb[self.nonrf[_rb]] = True", "                rb[_rb] = True", "auto-detected rb modes: non-rf positions used as full-set positions"),
    ("C01", "break", ["C01-R7"], "pyyeti/ode/_base_ode_class.py", "            _rb = np.nonzero(vec[self.nonrf])[0]", "            _rb = np.nonzero(vec)[0]", "given rb modes: full-set positions published as non-rf positions"),
    ("C01", "break", ["C01-R7"], "pyyeti/ode/_base_ode_class.py", "        el[self.nonrf[_el]] = True", "        el[_el] = True", "elastic set built from non-rf positions"),
    ("C01", "break", ["C01-R7"], "pyyeti/ode/_base_ode_class.py", "                krf = k[self.rf]\n                k = k[self.nonrf]", "                krf = k[self.nonrf]\n                k = k[self.nonrf]", "rf stiffness taken from the non-rf rows"),
    ("C01", "break", ["C01-R7"], "pyyeti/ode/_utilities.py", "        ibm = 1 / beta if m is None else 1 / (beta * m[pvvelo])", "        ibm = 1 / beta if m is None else 1 / (beta * m[pvdisp])", "mass of another mode in the damped rigid-body coefficients"),
    ("C01", "neutral", [], "pyyeti/ode/_base_ode_class.py", "        el[self.nonrf[_el]] = True", "        el_full = self.nonrf[_el]\n        el[el_full] = True", "temporary for the composed index"),
    ("C01", "break", ["C01-R8"], "pyyeti/ode/solveexp1.py", "                d0 = d[:, j] = E @ d0 + PQF[:, j - 1]", "                d0 = d[:, j] = E @ d0 + PQF[:, j]", "SolveExp1: force term of the next interval"),
    ("C01", "break", ["C01-R8"], "pyyeti/ode/solveexp1.py", "                PQF = self.P @ force[:, :-1] + self.Q @ force[:, 1:]", "                PQF = self.P @ force[:, :-1] + self.Q @ force[:, :-1]", "SolveExp1: Q multiplies the wrong sample"),
    ("C01", "break", ["C01-R8"], "pyyeti/ode/solveexp1.py", "            E, P, Q = expmint.getEPQ(A, h, order)", "            E, P, Q = expmint.getEPQ(A, h)", "SolveExp1: hold order not forwarded"),
    ("C01", "break", ["C01-R8"], "pyyeti/ode/solveexp1.py", "v=force + self.A @ d", "v=force - self.A @ d", "SolveExp1: returned derivative"),
    ("C01", "neutral", [], "pyyeti/ode/solveexp1.py", "                d0 = d[:, j] = E @ d0 + PQF[:, j - 1]", "                nxt = PQF[:, j - 1] + E @ d0\n                d[:, j] = nxt\n                d0 = nxt", "SolveExp1: temporary, commuted"),
    ("C01", "break", ["C01-R9"], "pyyeti/ode/solveexp2.py", "                    D[:, i + 1] = E_dd @ d0 + E_dv @ v0 + PQF[ksize:, i]", "                    D[:, i + 1] = E_dd @ d0 - E_dv @ v0 + PQF[ksize:, i]", "SolveExp2: sign of the velocity coupling"),
    ("C01", "break", ["C01-R9"], "pyyeti/ode/solveexp2.py", "                    V[:, i + 1] = E_vd @ d0 + E_vv @ v0 + PQF[:ksize, i]", "                    V[:, i + 1] = E_vd @ d0 + E_vv @ v0 + PQF[ksize:, i]", "SolveExp2: force half of the displacement rows used for velocity"),
    ("C01", "break", ["C01-R9"], "pyyeti/ode/solveexp2.py", "                    PQF = self.P @ imf[:, :-1] + self.Q @ imf[:, 1:]", "                    PQF = self.P @ imf[:, 1:] + self.Q @ imf[:, :-1]", "SolveExp2: P and Q samples swapped"),
    ("C01", "break", ["C01-R9", "C01-R3"], "pyyeti/ode/solveexp2.py", "            self.E_dv = E[ksize:, :ksize].copy()", "            self.E_dv = E[:ksize, ksize:].copy()", "SolveExp2: block taken from the transposed position"),
    ("C01", "break", ["C01-R9"], "pyyeti/ode/solveexp2.py", "            E, P, Q = expmint.getEPQ(A, h, order, half=True)", "            E, P, Q = expmint.getEPQ(A, h, order)", "SolveExp2: full-width P, Q"),
    ("C01", "break", ["C01-R9"], "pyyeti/ode/solveexp2.py", "                    imf = self.invm * force[kdof]", "                    imf = force[kdof]", "SolveExp2: mass not applied on the diagonal path"),
    ("C01", "neutral", [], "pyyeti/ode/solveexp2.py", "                    D[:, i + 1] = E_dd @ d0 + E_dv @ v0 + PQF[ksize:, i]", "                    d_next = E_dv @ v0 + E_dd @ d0\n                    D[:, i + 1] = d_next + PQF[ksize:, i]", "SolveExp2: temporary"),
    ("C01", "break", ["C01-R10"], "pyyeti/ode/solveunc.py", "            pc.F,\n            pc.G,\n            pc.A,\n            pc.B,\n            pc.Fp,", "            pc.F,\n            pc.G,\n            pc.B,\n            pc.A,\n            pc.Fp,", "A and B handed over in each other's place"),
    ("C01", "break", ["C01-R10"], "pyyeti/ode/solveunc.py", "            V[:, i] = vi = Fp * di + Gp * vi + ABFpi\n            D[:, i] = di = din\n            fki = fki1", "            V[:, i] = vi = Fp * di + Gp * vi + ABFpi\n            D[:, i] = di = din", "order 1: the previous force sample is never advanced"),
    ("C01", "break", ["C01-R10"], "pyyeti/ode/solveunc.py", "        AB = A + B\n        ABp = Ap + Bp", "        AB = A + B\n        ABp = Ap - Bp", "order 0: velocity force coefficient"),
    ("C01", "neutral", [], "pyyeti/ode/solveunc.py", "            ABFi = A * fki + B * fki1\n            ABFpi = Ap * fki + Bp * fki1\n            din = F * di + G * vi + ABFi", "            din = G * vi + F * di + (B * fki1 + A * fki)\n            ABFpi = Bp * fki1 + Ap * fki", "order 1: temporaries removed, commuted"),
    ("C01", "break", ["C01-R11"], "pyyeti/ode/solveunc.py", "                    AF = A * (rbforce[:, :-1] + rbforce[:, 1:] / 2)", "                    AF = A * (rbforce[:, :-1] / 2 + rbforce[:, 1:])", "complex path rb: weights of the two force samples swapped"),
    ("C01", "break", ["C01-R11"], "pyyeti/ode/solveunc.py", "                    AFp = (2 * Ap) * rbforce[:, :-1]", "                    AFp = Ap * rbforce[:, :-1]", "complex path rb, order 0: velocity increment halved"),
    ("C01", "break", ["C01-R11"], "pyyeti/ode/solveunc.py", "            di = y[:, 0] = ur_inv_v @ v[kdof, 0] + ur_inv_d @ d[kdof, 0]", "            di = y[:, 0] = ur_inv_d @ v[kdof, 0] + ur_inv_v @ d[kdof, 0]", "complex path: state halves swapped in the modal initial state"),
    ("C01", "break", ["C01-R11"], "pyyeti/ode/solveunc.py", "                ABF = Ae[:, None] * w[:, :-1] + Be[:, None] * w[:, 1:]", "                ABF = Ae[:, None] * w[:, 1:] + Be[:, None] * w[:, :-1]", "complex path: Ae and Be samples swapped"),
    ("C01", "break", ["C01-R11"], "pyyeti/ode/solveunc.py", "                d[kdof, 1:] = rur_d @ ry - iur_d @ iy", "                d[kdof, 1:] = rur_d @ ry + iur_d @ iy", "complex path: real part of ur y"),
    ("C01", "neutral", [], "pyyeti/ode/solveunc.py", "                    di = drb[:, i + 1] = di + G * vi + AF[:, i]\n                    vi = vrb[:, i + 1] = vi + AFp[:, i]", "                    d_new = AF[:, i] + di + G * vi\n                    v_new = AFp[:, i] + vi\n                    drb[:, i + 1] = d_new\n                    vrb[:, i + 1] = v_new\n                    di, vi = d_new, v_new", "complex path rb: temporaries"),
    # ---- C02
    ("C02", "break", ["C02-R1"], "pyyeti/ode/solveunc.py", "                    - self.m[_el][:, None] @ fw2\n", "                    + self.m[_el][:, None] @ fw2\n", "mass term sign"),
    ("C02", "break", ["C02-R2"], "pyyeti/ode/solveunc.py", "            a[el] = d[el] * -(freqw2)", "            a[el] = d[el] * (freqw2)", "a = -W^2 d sign"),
    ("C02", "break", ["C02-R2"], "pyyeti/ode/_base_ode_class.py", "                v[rf] = d[rf] * (1j * freqw)", "                v[rf] = d[rf] * (1j * freqw2)", "rf velocity"),
    ("C02", "break", ["C02-R3"], "pyyeti/ode/freqdirect.py", '        if "v" not in incrb:\n            v[self.rb] = 0', '        if "a" not in incrb:\n            v[self.rb] = 0', "incrb gating"),
    ("C02", "break", ["C02-R4"], "pyyeti/ode/solveunc.py", "self.b[_el][:, None] @ fw) + self.k[_el][:, None] - fw2", "self.b[el][:, None] @ fw) + self.k[_el][:, None] - fw2",
     "full-set index into non-rf damping"),
    ("C02", "break", ["C02-R5"], "pyyeti/ode/_utilities.py", "                frf += drmv @ sol.v", "                frf += drmv @ sol.d", "solvepsd tuple position"),
    ("C02", "break", ["C02-R6"], "pyyeti/ode/solveunc.py", "                    v_rb[:, pvnz] = (-1j / freqw[pvnz]) * a_rb[:, pvnz]\n                    v[rb] = v_rb",
     "                    v[rb, pvnz] = (-1j / freqw[pvnz]) * a_rb[:, pvnz]", "revert F15 (v)"),
    ("C02", "neutral", [], "pyyeti/ode/freqdirect.py", "H = (1j * b)[:, None] @ Omega + k[:, None] - m[:, None] @ Omega**2",
     "H = k[:, None] - m[:, None] @ Omega**2 + (1j * b)[:, None] @ Omega", "reordered sum"),
    ("C02", "break", ["C02-R7"], "pyyeti/ode/_utilities.py", "    for i in range(rpsd):\n        # solve for unit frequency response function for i'th force:\n",
     "    for i in range(rpsd):\n        if not t_frc[:, i].any():\n            continue\n        # solve for unit frequency response function for i'th force:\n", "forces that load no equation are skipped (their direct term is lost)"),
    ("C02", "neutral", [], "pyyeti/ode/_utilities.py", "    for i in range(rpsd):\n        # solve for unit frequency response function for i'th force:\n",
     "    for i in range(rpsd):\n        if not forcepsd[i].any():\n            continue\n        # solve for unit frequency response function for i'th force:\n", "forces with a vanishing PSD are skipped"),
    ("C02", "break", ["C02-R8"], "pyyeti/ode/freqdirect.py", "                d[kdof, i] = la.solve(Hi, force[:, i])", "                d[kdof, i] = la.solve(Hi, force[:, i], assume_a=('sym' if (self.k == self.k.T).all() else 'gen'))", "symmetric driver justified by k only"),
    ("C02", "break", ["C02-R9"], "pyyeti/ode/solveunc.py", "        if 2 * pc.ur_inv_v.shape[1] > pc.ur_d.shape[1]:", "        if pc.lam.shape[0] == self.ksize:", "_addconj recognises the half set by one particular size"),
    ("C02", "neutral", [], "pyyeti/ode/solveunc.py", "        if 2 * pc.ur_inv_v.shape[1] > pc.ur_d.shape[1]:", "        if pc.ur_d.shape[1] != 2 * pc.ur_inv_v.shape[1]:", "negated equality"),
    # ---- C03
    ("C03", "break", ["C03-R1"], "pyyeti/srs.py", "        beta2 = (E2 + Sz - C) / f", "        beta2 = (E2 - Sz - C) / f", "relvelo beta2"),
    ("C03", "break", ["C03-R1"], "pyyeti/srs.py", "        beta1 = 2 * (Sb - C)\n        beta2 = E2 - Sb", "        beta1 = 2 * (Sb + C)\n        beta2 = E2 - Sb", "absacce beta1"),
    ("C03", "break", ["C03-R2"], "pyyeti/srs.py", "b = np.array([-1.0, -4.0, -1.0]) * dT**2 / 6", "b = np.array([-1.0, -4.0, -1.0]) * dT**2 / 3", "reldisp wn==0"),
    ("C03", "break", ["C03-R3"], "pyyeti/srs.py", "        resphist += ICVALS_ / WN_[j]\n    else:\n        # stype == 'pacce' or 'absacce'\n        resphist += ICVALS_\n    SRSmax_[j] = methfunc(resphist[S:])\n    HIST_",
     "        resphist += ICVALS_ / WN_[j] ** 2\n    else:\n        # stype == 'pacce' or 'absacce'\n        resphist += ICVALS_\n    SRSmax_[j] = methfunc(resphist[S:])\n    HIST_", "pvelo add-back in one worker"),
    ("C03", "break", ["C03-R4"], "pyyeti/srs.py", "    S = M if ptr == 2 else 0", "    S = M if ptr == 1 else 0", "residual window start"),
    ("C03", "break", ["C03-R6"], "pyyeti/srs.py", "            t = ((1 + p2z2) / ((1 - p**2) ** 2 + p2z2)) * psdfull.T", "            t = ((1 + p2z2) / ((1 - p**2) ** 2 - p2z2)) * psdfull.T", "vrs transmissibility"),
    ("C03", "neutral", [], "pyyeti/srs.py", "        f = dT * wn * wn * wn\n        q = (2 * zeta * zeta - 1) / sqz\n        beta0 = ((1 - C) / Q - q * S - wn * dT) / f",
     "        f = wn**3 * dT\n        q = (2 * zeta**2 - 1) / sqz\n        beta0 = (-q * S + (1 - C) / Q - wn * dT) / f", "powers / order rewritten"),
    ("C03", "break", ["C03-R8"], "pyyeti/srs.py", "    return np.sqrt((resp**2).mean(axis=0))", "    return np.sqrt((resp**2).sum(axis=0) / resp.size)", "rms divided by the total number of elements"),
    ("C03", "break", ["C03-R8"], "pyyeti/srs.py", "def _negmeth(resp):\n    return abs(resp.min(axis=0))", "def _negmeth(resp):\n    return abs(resp).min(axis=0)", "neg = |min x|, not min |x|"),
    ("C03", "break", ["C03-R8"], "pyyeti/srs.py", '        "pos": _posmeth,\n        "neg": _negmeth,', '        "pos": _negmeth,\n        "neg": _posmeth,', "peak table entries swapped"),
    ("C03", "neutral", [], "pyyeti/srs.py", "    return np.sqrt((resp**2).mean(axis=0))", "    sq = resp * resp\n    return np.sqrt(np.sum(sq, axis=0) / resp.shape[0])", "rms as sum / number of samples"),
    ("C03", "neutral", [], "pyyeti/srs.py", "def _absmeth(resp):\n    return abs(resp).max(axis=0)", "def _absmeth(resp):\n    return np.amax(abs(resp), axis=0)", "function form of the reduction"),
    # ---- C04
    ("C04", "break", ["C04-R3"], "pyyeti/nastran/op4.py", '            f.write(f"{c + 1:8}{s + 1:8}{elems:8}\\n")', '            f.write(f"{c + 1:8}{s:8}{elems:8}\\n")', "dense column header first row"),
    ("C04", "break", ["C04-R3"], "pyyeti/nastran/op4.py", "            nwords = 2 * ind.shape[0] + 2 * sum(ind[:, 1]) * multiplier\n            reclen",
     "            nwords = ind.shape[0] + 2 * sum(ind[:, 1]) * multiplier\n            reclen", "bigmat binary nwords"),
    ("C04", "break", ["C04-R3"], "pyyeti/nastran/op4.py", "                r = int(line[r_slice]) - 1  # irow-1\n                elems -= L + 2", "                r = int(line[r_slice]) - 1  # irow-1\n                elems -= L + 1", "bigmat ascii consumption"),
    ("C04", "break", ["C04-R2"], "pyyeti/nastran/op4.py", "                f_slice = slice(32, 40)\n                t_slice = slice(40, 48)", "                f_slice = slice(32, 40)\n                t_slice = slice(40, 46)", "I16 header slice"),
    ("C04", "break", ["C04-R4"], "pyyeti/nastran/op4.py", "        bigmat = rows < 0 or rows >= self._rows4bigmat", "        bigmat = rows < 0 or rows > self._rows4bigmat", "skipper bigmat boundary"),
    ("C04", "neutral", [], "pyyeti/nastran/op4.py", "            IS = (r0 + 1) + ((L + 1) << 16)\n            f.write(colTrailer.pack(IS))", "            IS = ((L + 1) << 16) + (r0 + 1)\n            f.write(colTrailer.pack(IS))", "commuted sum"),
    ("C04", "break", ["C04-R8"], "pyyeti/nastran/op4.py", "            sortu = np.lexsort((ru, cu))", "            sortu = np.lexsort((cu, ru))", "upper triangle sorted in the lower triangle's order"),
    ("C04", "break", ["C04-R8"], "pyyeti/nastran/op4.py", "                and np.all(rl[sortl] == cu[sortu])", "                and np.all(rl[sortl] == ru[sortu])", "rows compared with rows"),
    ("C04", "neutral", [], "pyyeti/nastran/op4.py", "            sortl = np.lexsort((cl, rl))\n            sortu = np.lexsort((ru, cu))", "            order_low = np.lexsort((cl, rl))\n            order_upp = np.lexsort((ru, cu))\n            sortl, sortu = order_low, order_upp", "renamed sort vectors"),
    ("C04", "break", ["C04-R9"], "pyyeti/nastran/op4.py", "            V.append(Y[j] + 1j * Y[j + 1])", "            V.append(np.asarray(Y[j : j + 2]).view(complex)[0])", "native complex view of file-order bytes"),
    # ---- C05
    ("C05", "break", ["C05-R1", "C05-R3"], "pyyeti/rainflow/py_rain.py", "            if X < Y:\n                break\n            if j == 2:\n                # /* step 5 from [1]: */\n                # /* [count Y as half cycle] */\n                n += 1\n                rf[n, 0] = Y / 2\n                rf[n, 1] = (pts[0] + pts[1]) / 2\n                rf[n, 2] = 0.5\n                pts[0]",
     "            if X <= Y:\n                break\n            if j == 2:\n                # /* step 5 from [1]: */\n                # /* [count Y as half cycle] */\n                n += 1\n                rf[n, 0] = Y / 2\n                rf[n, 1] = (pts[0] + pts[1]) / 2\n                rf[n, 2] = 0.5\n                pts[0]", "tie handling in _rainflow1"),
    ("C05", "break", ["C05-R1", "C05-R5"], "pyyeti/rainflow/c_rain.c", "          *os++ = cycle_index[j-2];\n          *os++ = cycle_index[j-1];", "          *os++ = cycle_index[j-2];\n          *os++ = cycle_index[j];", "C offsets"),
    ("C05", "break", ["C05-R4"], "pyyeti/rainflow/py_rain.py", "    return rf[: L - fullcyclesp1]\n", "    return rf[: L - fullcyclesp1 + 1]\n", "returned slice"),
    ("C05", "break", ["C05-R4"], "pyyeti/rainflow/py_rain.py", "    # not getting offsets:\n    pts = np.empty(L)\n    rf = np.empty((L - 1, 3))", "    # not getting offsets:\n    pts = np.empty(L)\n    rf = np.empty((L - 2, 3))", "output one row short"),
    ("C05", "break", ["C05-R4"], "pyyeti/rainflow/c_rain.c", "    pts = calloc(L, sizeof(double));\n    if (pts == NULL) goto fail;", "    pts = calloc(L-1, sizeof(double));\n    if (pts == NULL) goto fail;", "C work buffer one short"),
    ("C05", "break", ["C05-R4"], "pyyeti/rainflow/c_rain.c", "      PyObject* stop = PyLong_FromSsize_t(L-fullcyclesp1);\n      PyObject* slice = PySlice_New(NULL, stop, NULL);\n      srf = (PyArrayObject *)PyObject_GetItem((PyObject *)rf_array, slice);\n      Py_DECREF(stop);", "      PyObject* stop = PyLong_FromSsize_t(L-fullcyclesp1-1);\n      PyObject* slice = PySlice_New(NULL, stop, NULL);\n      srf = (PyArrayObject *)PyObject_GetItem((PyObject *)rf_array, slice);\n      Py_DECREF(stop);", "C returned slice"),
    ("C05", "break", ["C05-R4"], "pyyeti/rainflow/c_rain.c", "    free(pts);\n\n#ifdef USE_FASTER_RAINFLOW_ROUTINE\n    if (fullcyclesp1 > 1) {", "    free(pts);\n\n#ifdef USE_FASTER_RAINFLOW_ROUTINE\n    if (fullcyclesp1 > 2) {", "C slice guard: one full cycle returns an unfilled row"),
    ("C05", "break", ["C05-R4"], "pyyeti/rainflow/py_rain.py", "    os = np.empty((L - 1, 2), np.int64)", "    os = np.empty((L - 2, 2), np.int64)", "offsets one row short"),
    ("C05", "neutral", [], "pyyeti/rainflow/py_rain.py", "    os = np.empty((L - 1, 2), np.int64)", "    os = np.empty((L, 2), np.int64)", "over-allocated output (sliced anyway)"),
    ("C05", "break", ["C05-R7"], "pyyeti/rainflow/py_rain.py", "    if L < 2:\n        raise ValueError", "    if L < 1:\n        raise ValueError", "length refusal"),
    ("C05", "neutral", [], "pyyeti/rainflow/py_rain.py", "        rf[n, 1] = (A + B) / 2\n        rf[n, 2] = 0.5\n        A = B\n\n    return rf[: L - fullcyclesp1]\n", "        rf[n, 1] = (B + A) / 2\n        rf[n, 2] = 0.5\n        A = B\n\n    return rf[: L - fullcyclesp1]\n", "commuted addition"),
    # ---- C06
    ("C06", "break", ["C06-R1"], "pyyeti/cb.py", "        f = b[qb] @ v - m[qb] @ a", "        f = b[qb] @ v + m[qb] @ a", "interior load sign"),
    ("C06", "break", ["C06-R1"], "pyyeti/cb.py", "        frc = m[bset] @ accel + b[bset] @ veloc + k[bb] @ displ[bset]", "        frc = m[bset] @ accel + b[bset] @ veloc + k[bb] @ displ[qset]", "wrong partition in boundary force"),
    ("C06", "break", ["C06-R2"], "pyyeti/cb.py", "    D[b[rot]] = massconv * lengthconv**2", "    D[b[rot]] = massconv * lengthconv", "rotation force factor"),
    ("C06", "break", ["C06-R2"], "pyyeti/cb.py", "        massconv = 175.12683524637913", "        massconv = 175.12683524637", "truncated constant"),
    ("C06", "break", ["C06-R3"], "pyyeti/cb.py", "            M = M[np.ix_(pv, pv)]", "            M = M[np.ix_(pv, b)]", "asymmetric permutation"),
    # ---- C07
    ("C07", "break", ["C07-R1"], "pyyeti/expmint.py", "p = (332640.0, 15120.0, 10080.0, 420.0, 42.0, 1.0)", "p = (332640.0, 15120.0, 10080.0, 420.0, 24.0, 1.0)", "pade5 P coefficient"),
    ("C07", "break", ["C07-R1"], "pyyeti/expmint.py", "            14675286699176463360000.0,", "            14675286699176563360000.0,", "degree-9 _geti2 literal (one digit, relative change 7e-9)"),
    ("C07", "break", ["C07-R1"], "pyyeti/expmint.py", "        B4 = self.A4 * 2 ** (-4 * s)\n        B6 = self.A6 * 2 ** (-6 * s)\n        U2 = mf._smart_matrix_product(\n            B6, b[13]", "        B4 = self.A4 * 2 ** (-3 * s)\n        B6 = self.A6 * 2 ** (-6 * s)\n        U2 = mf._smart_matrix_product(\n            B6, b[13]", "scaling of B4"),
    ("C07", "break", ["C07-R2"], "pyyeti/expmint.py", "    if norm1 <= 2.097847961257068:", "    if norm1 <= 20.97847961257068:", "getEPQ switch"),
    ("C07", "break", ["C07-R3"], "pyyeti/expmint.py", "        I += I.dot(E)\n        E = E.dot(E)", "        E = E.dot(E)\n        I += I.dot(E)", "squaring order"),
    ("C07", "break", ["C07-R4"], "pyyeti/expmint.py", "        P = I2 / h\n        Q = I - P\n    else:\n        E, P = expmint(A, h)", "        P = I2 / h\n        Q = I + P\n    else:\n        E, P = expmint(A, h)", "getEPQ1 Q"),
    ("C07", "neutral", [], "pyyeti/expmint.py", "        U = b[3] * self.A3 + b[1] * self.A\n        V = b[2] * self.A2 + b[0] * self.ident", "        U = b[1] * self.A + b[3] * self.A3\n        V = b[0] * self.ident + b[2] * self.A2", "commuted"),
    ("C07", "break", ["C07-R5"], "pyyeti/ssmodel.py", "            A, P, Q = expmint.getEPQ(self.A, h, 1, B=self.B)\n            B = P + A.dot(Q)",
     "            A, P, Q = expmint.getEPQ(self.A, h, 1, B=self.B)\n            B = Q + A.dot(P)", "c2d foh: P and Q exchanged in z.B"),
    ("C07", "break", ["C07-R5"], "pyyeti/ssmodel.py", "            E, P, Q = expmint.getEPQ(A, h, 0)\n            P /= 2.0", "            E, P, Q = expmint.getEPQ(A, h, 0)",
     "d2c zoha: averaging factor dropped"),
    ("C07", "break", ["C07-R5"], "pyyeti/ssmodel.py", "D = self.D - self.C.dot(QB)", "D = self.D + self.C.dot(QB)", "d2c tustin: feed-through sign"),
    ("C07", "break", ["C07-R5"], "pyyeti/ssmodel.py", "            B = la.solve(self.A - I, A.dot(self.B))", "            B = la.solve(self.A + I, A.dot(self.B))", "d2c zoh: input matrix"),
    ("C07", "break", ["C07-R5"], "pyyeti/ssmodel.py", "            I = np.eye(self.A.shape[0])\n            q = la.lu_factor(k * I - self.A)",
     "            k = k / 2\n            I = np.eye(self.A.shape[0])\n            q = la.lu_factor(k * I - self.A)", "c2d tustin: bilinear constant"),
    ("C07", "neutral", [], "pyyeti/ssmodel.py", "            B = P + A.dot(Q)\n            C = self.C.copy()\n            D = self.C.dot(Q) + self.D\n            return SSModel(A, B, C, D, h, method)\n\n        if method == \"foh\":",
     "            B = P + A.dot(Q)\n            C = self.C.copy()\n            D = self.C.dot(P) + self.D\n            return SSModel(A, B, C, D, h, method)\n\n        if method == \"foh\":",
     "c2d zoha: Q is P (same object), either name may be used"),
    ("C07", "neutral", [], "pyyeti/expmint.py", "            14675286699176463360000.0,", "            1.467528669917646336e22,", "same double written with fewer digits"),
    # ---- C08
    ("C08", "break", ["C08-R1"], "pyyeti/ode/solveunc.py", "                        dmpfrc0 = dmpfrc1 if i_last == i - 1 else bo @ vi\n                        i_last = i\n                        _f0 = F0k - dmpfrc0", "                        dmpfrc0 = dmpfrc1 if i_last == i - 1 else bo @ vi\n                        _f0 = F0k - dmpfrc0", "i_last update dropped"),
    ("C08", "break", ["C08-R2"], "pyyeti/ode/solveunc.py", "                        V[:, i] = Fp * di + Gp * vi + Ap * F0k + Bp * F1k", "                        V[:, i] = Fp * di + Gp * vi + Ap * F1k + Bp * F1k", "generator velocity step"),
    ("C08", "break", ["C08-R3"], "pyyeti/ode/solveunc.py", "                        D[:, i] += B * F1k\n                        V[:, i] += Bp * F1k", "                        D[:, i] += B * F1k\n                        V[:, i] += B * F1k", "add-on velocity coefficient"),
    ("C08", "break", ["C08-R4"], "pyyeti/ode/solveunc.py", "                tmp = B * (np.eye(self.ksize) - alpha * pc.Bp)", "                tmp = B * (np.eye(self.ksize) + alpha * pc.Bp)", "get_f2x sign"),
    ("C08", "break", ["C08-R2"], "pyyeti/ode/solveexp2.py", "                    D[:, i] = E_dd @ d0 + E_dv @ v0 + PQF[ksize:]\n                    V[:, i] = E_vd @ d0 + E_vv @ v0 + PQF[:ksize]\n                    if unc:", "                    D[:, i] = E_dd @ d0 + E_dv @ v0 + PQF[:ksize]\n                    V[:, i] = E_vd @ d0 + E_vv @ v0 + PQF[ksize:]\n                    if unc:", "SE2 generator halves"),
    ("C08", "break", ["C08-R2c"], "pyyeti/ode/solveunc.py", "                        AF = A * (F0rb + 0.5 * F1rb)", "                        AF = A * (F0rb + F1rb)", "complex generator: rb ramp weight"),
    ("C08", "break", ["C08-R2c"], "pyyeti/ode/solveunc.py", "                A = 1.5 * A", "                A = 1.0 * A", "complex generator: zero-order rb factor"),
    ("C08", "break", ["C08-R2c"], "pyyeti/ode/solveunc.py", "                    AF = (1.5 * A) * rbforce[:, :-1]", "                    AF = (1.0 * A) * rbforce[:, :-1]", "complex batch: zero-order rb factor"),
    ("C08", "break", ["C08-R2c"], "pyyeti/ode/solveunc.py", "            if order == 0:\n                Ae = Ae + Be", "            if order == 0:\n                Ae = Ae", "complex generator: zero-order elastic coefficient"),
    ("C08", "break", ["C08-R3c"], "pyyeti/ode/solveunc.py", "                        AF = A * 0.5 * F1rb", "                        AF = A * F1rb", "complex generator add-on: rb displacement weight"),
    ("C08", "break", ["C08-R3c"], "pyyeti/ode/solveunc.py", "                        yn = Be * w1", "                        yn = Ae * w1", "complex generator add-on: elastic coefficient"),
    ("C08", "break", ["C08-R3c"], "pyyeti/ode/solveunc.py", "                flexr = (0.5 * pc.A) * flexr", "                flexr = pc.A * flexr", "_get_f2x_complex_unc: rb displacement flexibility"),
    ("C08", "neutral", [], "pyyeti/ode/solveunc.py", "                        AF = A * (F0rb + 0.5 * F1rb)", "                        AF = A * (0.5 * F1rb + F0rb)", "complex generator: commuted sum"),
    # ---- C09
    ("C09", "break", ["C09-R1", "C09-R5"], "pyyeti/fdepsd.py", "        Count_[j, jj] = np.sum(count[pv])", "        Count_[jj, j] = np.sum(count[pv])", "task index axis"),
    ("C09", "break", ["C09-R5"], "pyyeti/fdepsd.py", "    ASV_[2, j] = np.var(resphist, ddof=1)", "    ASV_[2, j] = np.var(resphist, ddof=0)", "worker != serial"),
    ("C09", "break", ["C09-R2", "C09-R1"], "pyyeti/srs.py", "    resphist = signal.lfilter(b, a, SIG_, axis=0)\n    SRSmax_[j] = methfunc(resphist[S:])\n\n", "    SIG_ -= 0.0\n    resphist = signal.lfilter(b, a, SIG_, axis=0)\n    SRSmax_[j] = methfunc(resphist[S:])\n\n", "worker mutates shared input"),
    ("C09", "break", ["C09-R4"], "pyyeti/srs.py", "            func = _dosrs_ic if getresp else _dosrs_nohist_ic", "            func = _dosrs_nohist_ic if getresp else _dosrs_ic", "worker selection"),
    ("C09", "break", ["C09-R3"], "pyyeti/srs.py", "                for _ in pool.imap_unordered(func, zip(range(LF), it.repeat(args, LF))):\n                    pass\n            SRSmax = np.frombuffer(SRSmax[0]).reshape(SRSmax[1])\n            if getresp:\n                HIST = np.frombuffer(HIST[0]).reshape(HIST[1])\n                resp[\"hist\"] = HIST\n        else:\n            dT = 1 / sr\n            for j in range(LF):\n                b, a = coeffunc(Q, dT, wn[j])\n                resphist = signal.lfilter(b, a, sig, axis=0)\n                if stype",
     "                for _ in pool.imap_unordered(func, zip(range(LF - 1), it.repeat(args, LF))):\n                    pass\n            SRSmax = np.frombuffer(SRSmax[0]).reshape(SRSmax[1])\n            if getresp:\n                HIST = np.frombuffer(HIST[0]).reshape(HIST[1])\n                resp[\"hist\"] = HIST\n        else:\n            dT = 1 / sr\n            for j in range(LF):\n                b, a = coeffunc(Q, dT, wn[j])\n                resphist = signal.lfilter(b, a, sig, axis=0)\n                if stype", "task list short by one"),
    # ---- C10
    ("C10", "break", ["C10-R5"], "pyyeti/cyclecount.py", "                if mn <= bb[0] or mx > bb[-1]:", "                if mn < bb[0] or mx > bb[-1]:", "right=True lower edge"),
    ("C10", "break", ["C10-R5"], "pyyeti/cyclecount.py", "                if mn < bb[0] or mx >= bb[-1]:", "                if mn < bb[0] or mx > bb[-1]:", "right=False upper edge"),
    ("C10", "break", ["C10-R6"], "pyyeti/locate.py", "    pv = np.hstack((True, abs(m) > stol))", "    pv = np.hstack((True, abs(m) >= stol))", "tolerance strictness"),
    ("C10", "break", ["C10-R1"], "pyyeti/fdepsd.py", "        Df8[j] = (BinAmps[j] ** b8).dot(BinCount[j])", "        Df8[j] = (BinAmps[j] ** b4).dot(BinCount[j])", "exponent/label"),
    ("C10", "break", ["C10-R1"], "pyyeti/fdepsd.py", "        Gmax = np.sqrt(np.vstack((G4, G8, G12)) * (Q * lnN0) / (4 * pi * freq))", "        Gmax = np.sqrt(np.vstack((G4, G8, G12)) * (Q * lnN0) / (2 * pi * freq))", "pvelo Miles consistency"),
    ("C10", "break", ["C10-R3"], "pyyeti/fdepsd.py", "    BinCount = np.hstack((Count[:, :-1] - Count[:, 1:], Count[:, -1:]))", "    BinCount = np.hstack((Count[:, :-1] - Count[:, 1:], Count[:, :1]))", "telescoping"),
    # ---- C11
    ("C11", "break", ["C11-R3"], "pyyeti/nastran/op4.py", "                r = IS - ((L + 1) << 16) - 1  # irow-1\n                nwords -= L + 1  # words left", "                r = (IS & 0x7FFF) - 1  # irow-1\n                nwords -= L + 1  # words left", "15-bit mask"),
    ("C11", "break", ["C11-R1"], "pyyeti/nastran/op4.py", '                self._str_sr_fromfile = np.dtype(self._endian + "f4")', '                self._str_sr_fromfile = np.dtype(self._endian + "f8")', "32-bit single dtype"),
    ("C11", "break", ["C11-R1"], "pyyeti/nastran/op2.py", '            frmu = self._intstru.replace("i", "I").replace("q", "Q")', '            frmu = self._intstru.replace("i", "I")', "revert F9"),
    ("C11", "break", ["C11-R2"], "pyyeti/nastran/op4.py", "                self._bytes_iii = 24", "                self._bytes_iii = 12", "declared size"),
    ("C11", "break", ["C11-R4"], "pyyeti/nastran/op2.py", "            self._fileh.seek(reclen + 4, 1)\n            key = self._getkey()\n        self._skipkey(2)", "            self._fileh.seek(reclen, 1)\n            key = self._getkey()\n        self._skipkey(2)", "skipop2record misses the end marker"),
    ("C11", "break", ["C11-R6"], "pyyeti/nastran/op2.py", "                i += n\n", "                i += key\n", "cursor increment"),
    # ---- C12
    ("C12", "break", ["C12-R1"], "pyyeti/nastran/bulk.py", '            field = f"{value:8.4f}"\n        elif value < 10000.0:', '            field = f"{value:8.5f}"\n        elif value < 10000.0:', "precision of one rung"),
    ("C12", "break", ["C12-R1"], "pyyeti/nastran/bulk.py", '        elif value < 100000.0:\n            field = f"{value:16.10f}"', '        elif value < 200000.0:\n            field = f"{value:16.10f}"', "rung boundary"),
    ("C12", "break", ["C12-R1b"], "pyyeti/nastran/bulk.py", "        elif value <= -99999999999999.5:\n            field = _format_scientific16(value)\n            return field\n", "", "revert F14"),
    ("C12", "break", ["C12-R2"], "pyyeti/nastran/bulk.py", '    python_value = f"{value:8.11e}"', '    python_value = f"{value:8.5e}"', "first-stage precision"),
    ("C12", "break", ["C12-R2"], "pyyeti/nastran/bulk.py", "    leftover = 5 - len(exp2)\n", "    leftover = 6 - len(exp2)\n", "scientific8 width"),
    ("C12", "break", ["C12-R3"], "pyyeti/nastran/bulk.py", '        if i > 0 and i % 8 == 0:\n            f.write("\\n+       ")', '        if i > 0 and i % 8 == 0:\n            f.write("\\n-       ")', "continuation head"),
    ("C12", "neutral", [], "pyyeti/nastran/bulk.py", "    exp2 = str(exponent).strip(\"-+\")\n    value2 = float(svalue)\n\n    leftover = 5 - len(exp2)", "    exp2 = str(exponent).strip(\"-+\")\n    value2 = float(svalue)\n\n    leftover = -len(exp2) + 5", "reordered"),
    # ---- C13
    ("C13", "break", ["C13-R2"], "pyyeti/nastran/bulk.py", "        rows = npts // 4\n        r = rows * 4\n        if rows:\n            writer.vecwrite(", "        rows = npts // 4\n        r = rows * 4\n        if True:\n            writer.vecwrite(", "revert F3 (small field)"),
    ("C13", "break", ["C13-R1"], "pyyeti/nastran/bulk.py", "        rows = npts // 4\n        r = rows * 4", "        rows = (npts - 1) // 4\n        r = rows * 4", "leftover pairs"),
    ("C13", "break", ["C13-R3"], "pyyeti/nastran/bulk.py", "            if np.allclose(m.transpose(), m):\n                form = 6", "            if np.allclose(m.conj().transpose(), m):\n                form = 6", "hermitian test"),
    ("C13", "break", ["C13-R1"], "pyyeti/nastran/bulk.py", '                "{:<8s}{:16d}{:16d}{:16.8e}{:16.8e}*\\n".format(', '                "{:<8s}{:16d}{:16d}{:16.9e}{:16.9e}*\\n".format(', "coord card precision"),
    # ---- C14
    ("C14", "break", ["C14-R1"], "pyyeti/nastran/n2p.py", "                theta = math.atan2(g[1], g[0])\n                result.append(np.array([R, theta * 180 / math.pi, g[2]]))", "                theta = math.atan2(g[0], g[1])\n                result.append(np.array([R, theta * 180 / math.pi, g[2]]))", "atan2 argument order"),
    ("C14", "break", ["C14-R1"], "pyyeti/nastran/n2p.py", "                    s * math.sin(a[2] * a2r),\n                    math.cos(a[1] * a2r),", "                    s * math.sin(a[2] * a2r),\n                    math.cos(a[2] * a2r),", "spherical z component"),
    ("C14", "break", ["C14-R2"], "pyyeti/nastran/n2p.py", "            if abs(loc2[1]) + abs(loc2[0]) > 1e-8:\n                th = math.atan2(loc2[1], loc2[0])", "            if abs(loc2[1]) > 1e-8:\n                th = math.atan2(loc2[1], loc2[0])", "cylindrical guard"),
    ("C14", "break", ["C14-R3"], "pyyeti/nastran/n2p.py", "    rbmodes[2::6, 4] = -grids[:, 0]", "    rbmodes[2::6, 4] = grids[:, 0]", "cross-product sign"),
    ("C14", "break", ["C14-R3"], "pyyeti/nastran/n2p.py", "    elif np.any(refpoint != [0, 0, 0]):", "    elif np.all(refpoint != [0, 0, 0]):", "reference shift guard"),
    # ---- C15
    ("C15", "break", ["C15-R1"], "pyyeti/frclim.py", "            AM[:, j, :] = la.inv(Acc[:, j, :])", "            AM[:, :, j] = la.inv(Acc[:, j, :])", "axis roles"),
    ("C15", "break", ["C15-R2"], "pyyeti/frclim.py", "        Mr = la.solve(Ms + Ml, Ms)", "        Mr = la.solve(Ms + Ml, Ml)", "ntfl body"),
    ("C15", "break", ["C15-R2"], "pyyeti/frclim.py", "    TAM = SAM + LAM", "    TAM = SAM - LAM", "TAM"),
    # ---- C16
    ("C16", "break", ["C16-R1"], "pyyeti/cla/_utilities.py", "        j = nan_argmax(abs(curext.ext[:, 0]), abs(mm.ext[:, 0])).nonzero()[0]", "        j = nan_argmax(abs(curext.ext), abs(mm.ext)).nonzero()[0]", "revert F8 (max)"),
    ("C16", "break", ["C16-R1"], "pyyeti/cla/_utilities.py", "    curext.ext[j, 1] = mm.ext[j, 1]\n        _put_time(curext, mm, j, 1, 1)", "    curext.ext[j, 1] = mm.ext[j, 1]\n        _put_time(curext, mm, j, 0, 1)", "abscissa column"),
    ("C16", "break", ["C16-R1"], "pyyeti/cla/dr_results.py", "        res.mn_x[:, j] = mm.ext_x[:, 1]", "        res.mn_x[:, j] = mm.ext_x[:, 0]", "_store_maxmin column"),
    ("C16", "break", ["C16-R2"], "pyyeti/cla/_utilities.py", "        return (v2 < v1) | (np.isnan(v1) & ~np.isnan(v2))", "        return (v2 < v1) | (np.isnan(v2) & ~np.isnan(v1))", "nan_argmin NaN rule"),
    ("C16", "break", ["C16-R3"], "pyyeti/cla/dr_results.py", "                res.srs.ext[q] = np.fmax(res.srs.ext[q], srs_cur)", "                res.srs.ext[q] = np.fmax.reduce(res.srs.srs[q][: j + 1], axis=0)", "slot-dependent envelope"),
    ("C16", "break", ["C16-R4"], "pyyeti/cla/dr_event.py", "    solout.a = solout.a.copy()", "    solout.a = solout.a", "caller's array mutated"),
    ("C16", "break", ["C16-R5"], "pyyeti/cla/dr_event.py", "        solout.a[:nrb] *= ruf * suf", "        solout.a[:nrb] *= ruf * duf", "rb factor"),
    ("C16", "break", ["C16-R6"], "pyyeti/cla/dr_event.py", "        genforce[elastic_norb] = m[elastic, None] * sol.a[elastic]", "        genforce[elastic_norb] = m[elastic_norb, None] * sol.a[elastic]", "non-rb index into full mass"),
    ("C16", "break", ["C16-R6"], "pyyeti/cla/dr_event.py", "        solout.d_dynamic[elastic] = -avterm / kel[elastic_norb]\n        solout.d = solout.d_static + solout.d_dynamic\n        return solout", "        solout.d_dynamic[elastic] = -avterm / kel[elastic_norb]\n        return solout", "exit without d"),
    # ---- C17
    ("C17", "break", ["C17-R2"], "pyyeti/ode/solvenewmark.py", "        A1 = 2 * mterm - self.k / 3", "        A1 = 2 * mterm + self.k / 3", "A1"),
    ("C17", "break", ["C17-R2"], "pyyeti/ode/solvenewmark.py", "        u_1 = d0 - v0 * h", "        u_1 = d0 + v0 * h", "u_-1"),
    ("C17", "break", ["C17-R1"], "pyyeti/ode/solvenewmark.py", "                    De = 3 * F[:, -1] + A1 @ D[:, -1] + A0 @ D[:, -2]", "                    De = 2 * F[:, -1] + A1 @ D[:, -1] + A0 @ D[:, -2]", "last step (coupled arm)"),
    ("C17", "break", ["C17-R3"], "pyyeti/ode/solvenewmark.py", "            V[:, -1] = (De - D[:, -2]) / h2", "            V[:, -1] = (De - D[:, -1]) / h2", "last velocity"),
    ("C17", "break", ["C17-R4"], "pyyeti/ode/_base_ode_class.py", "        elif cd_as_force:\n            unc += 1\n            cdforces = True", "        elif cd_as_force:\n            unc += 1\n            cdforces = True\n        if cd_as_force:\n            cdforces = True", "cdforces for diagonal damping"),
    ("C17", "break", ["C17-R5"], "pyyeti/ode/solveunc.py", "                    self.pc.alpha = la.solve(tmp.T, self.bo.T).T", "                    self.pc.alpha = la.solve(tmp, self.bo)", "alpha side (text shape)"),
    # ---- C18
    ("C18", "break", ["C18-R1"], "pyyeti/nastran/n2p.py", "    t = l | r | (1 << 23)", "    t = l | q | (1 << 23)", "t-set members"),
    ("C18", "break", ["C18-R1"], "pyyeti/nastran/n2p.py", "    q = 1 << 22", "    q = 1 << 23", "q bit"),
    ("C18", "break", ["C18-R1b"], "pyyeti/nastran/op2.py", "uset[sset] = uset[sset] & ~np.array(2, uset.dtype)", "uset[sset] = uset[sset] & ~np.array(4, uset.dtype)", "cleared bit"),
    ("C18", "break", ["C18-R2"], "pyyeti/nastran/n2p.py", "    pv = pvminor[pvmajor]", "    pv = pvmajor[pvminor]", "mksetpv result"),
    ("C18", "break", ["C18-R3"], "pyyeti/nastran/n2p.py", "    pvi[pvi == i.size] -= 1\n    pv = i[pvi]\n\n    chk", "    pv = i[pvi]\n\n    chk", "clamp deleted"),
    ("C18", "break", ["C18-R3"], "pyyeti/locate.py", "    out_dtype = np.result_type(haystack.dtype, needles.dtype)", "    out_dtype = haystack.dtype", "lossy key type"),
    ("C18", "break", ["C18-R4"], "pyyeti/nastran/n2p.py", "    if (edof[:, 1] > 6).any():\n        raise ValueError(\"found DOF > 6?\")\n", "", "expanddof guard"),
    ("C06", "break", ["C06-R4"], "pyyeti/cb.py", "        v2[z_m, :] = psi @ v\n", "        v2[z_m, :] = -(psi @ v)\n", "expansion of massless rows with the wrong sign"),
    ("C06", "break", ["C06-R4"], "pyyeti/cb.py", "        k = k[xx] + k[xz] @ psi\n", "        k = k[xx] - k[xz] @ psi\n", "reduced stiffness is not the Schur complement"),
    ("C06", "break", ["C06-R4"], "pyyeti/cb.py", "        psi = linalg.solve(-k[zz], k[zx])\n        k = k[xx] + k[xz] @ psi\n        m = m[xx]", "        psi = linalg.solve(-k[zz], k[zx])\n        k = k[xx] + k[xz] @ psi\n        m = m[zz]", "reduced mass partition"),
    ("C06", "break", ["C06-R4"], "pyyeti/cb.py", "        v2[z, :] = 0.0\n", "        v2[nz, :] = 0.0\n", "zero rows at the kept DOF"),
    ("C06", "neutral", [], "pyyeti/cb.py", "        psi = linalg.solve(-k[zz], k[zx])\n        k = k[xx] + k[xz] @ psi\n", "        psi = linalg.solve(k[zz], k[zx])\n        k = k[xx] - k[xz] @ psi\n        psi = -psi\n", "other sign convention, consistently"),
    ("C19", "break", ["C19-R4"], "pyyeti/psd.py", "        if FL[0] < FLin[0]:\n            FL[0] = FLin[0]", "        if FL[0] < FLin[0]:\n            FL[0] = F[0]", "outer band clamped to the centre frequency"),
    ("C19", "break", ["C19-R4"], "pyyeti/psd.py", "    ms = cau - cal", "    ms = cal - cau", "mean square sign"),
    ("C19", "break", ["C19-R4"], "pyyeti/psd.py", "    Fa = np.hstack((FLin[0], FUin))", "    Fa = np.hstack((FLin[0], F[1:], FUin[-1]))", "cumulative curve tabulated at centre frequencies"),
    ("C19", "break", ["C19-R4"], "pyyeti/psd.py", "        cau[:, i] = np.interp(FU, Fa, ca[:, i])", "        cau[:, i] = np.interp(FU, F, ca[1:, i])", "upper edges interpolated over another table"),
    ("C19", "neutral", [], "pyyeti/psd.py", "    ms = cau - cal\n    psdoct = ms * (1 / (FU - FL).reshape(-1, 1))", "    band_ms = -cal + cau\n    widths = (FU - FL).reshape(-1, 1)\n    ms = band_ms\n    psdoct = (1 / widths) * ms", "temporaries, commuted"),
    ("C05", "break", ["C05-R9"], "pyyeti/cyclecount.py", "    rf = rain.rainflow(peaks, getoffsets)\n", "    rf = rain.rainflow(np.asarray(peaks)[findap(np.asarray(peaks))], getoffsets)\n", "wrapper filters the reversals"),
    ("C05", "break", ["C05-R9"], "pyyeti/cyclecount.py", "        rf, os = rain.rainflow(peaks, getoffsets)\n", "        rf, os = rain.rainflow(peaks, False)\n", "offsets not requested"),
    ("C06", "break", ["C06-R5"], "pyyeti/cb.py", "    mg = rbg.T @ mbb @ rbg", "    mg = rbg.T @ mbb @ rbe[bset]", "geometry mass built with another mode set"),
    ("C06", "break", ["C06-R5"], "pyyeti/cb.py", '    _wrtground(f, uset, rbfe, rbe.T @ rbfe, "eigensolution")', '    _wrtground(f, uset, rbfe, rbs.T @ rbfe, "eigensolution")', "eigensolution grounding energy with the stiffness modes"),
    ("C06", "break", ["C06-R5"], "pyyeti/cb.py", "    _wrtdist(f, ds, dg, de, ttl)", "    _wrtdist(f, ds, de, dg, ttl)", "cg distances listed in another order than the header"),
    ("C06", "break", ["C06-R5"], "pyyeti/cb.py", "        effmass_percent = effmass * (100 / np.diag(mg))", "        effmass_percent = effmass * (100 / np.diag(ms))", "percentage of another set's total mass"),
    ("C06", "break", ["C06-R5"], "pyyeti/cb.py", "    rbfg = kbb @ rbg", "    rbfg = k @ rbg", "boundary-size modes multiplied into the full stiffness"),
    ("C06", "neutral", [], "pyyeti/cb.py", "    ms = rbs.T @ m @ rbs\n    mg = rbg.T @ mbb @ rbg\n    me = rbe.T @ m @ rbe", "    m_rbs = m @ rbs\n    ms = rbs.T @ m_rbs\n    me = rbe.T @ (m @ rbe)\n    mg = (rbg.T @ mbb) @ rbg", "temporaries, re-association, reordering"),
    # ---- C20
    ("C20", "break", ["C20-R5"], "pyyeti/stats.py", "            if _func(a, 1 - c, r - 1, 1 - p) >= 0:\n                # `r` samples (the fewest possible) already meet the confidence\n                return a\n", "", "revert F16"),
    ("C20", "break", ["C20-R1"], "pyyeti/stats.py", "    return nct.ppf(c, n - 1, pnonc) / sn", "    return nct.ppf(c, n, pnonc) / sn", "degrees of freedom"),
    ("C20", "break", ["C20-R1"], "pyyeti/stats.py", "    pnonc = sn * norm.ppf(p)\n    return nct.ppf(c, n - 1, pnonc) / sn", "    pnonc = sn * norm.ppf(c)\n    return nct.ppf(p, n - 1, pnonc) / sn", "coverage and confidence swapped"),
    ("C20", "break", ["C20-R2"], "pyyeti/stats.py", "        den = spi * (np.exp(-(lhi**2) / 2) + np.exp(-(llo**2) / 2))", "        den = spi * (np.exp(-(lhi**2) / 2) - np.exp(-(llo**2) / 2))", "Newton derivative"),
    ("C20", "break", ["C20-R2"], "pyyeti/stats.py", "        llo = sn - rold", "        llo = -sn - rold", "lower integration limit"),
    ("C20", "break", ["C20-R2"], "pyyeti/stats.py", "    while np.any(abs(r - rold) > tol) and loops < MAXLOOPS:", "    while np.all(abs(r - rold) > tol) and loops < MAXLOOPS:", "array convergence test"),
    ("C20", "break", ["C20-R3"], "pyyeti/stats.py", "    chi = chi2.ppf(1 - c, n - 1)", "    chi = chi2.ppf(c, n - 1)", "chi-square tail"),
    ("C20", "break", ["C20-R3"], "pyyeti/stats.py", "    r = _getr(n, p, tol)\n    return np.sqrt", "    r = _getr(n, c, tol)\n    return np.sqrt", "coverage root computed for the confidence"),
    ("C20", "break", ["C20-R4"], "pyyeti/stats.py", "        return binom.sf(r - 1, n, 1 - p)", "        return binom.sf(r, n, 1 - p)", "rank off by one in the confidence arm"),
    ("C20", "break", ["C20-R4"], "pyyeti/stats.py", "        r.flat = [binom.ppf(1 - c, n, 1 - p) for (c, n, p) in b]", "        r.flat = [binom.ppf(c, n, 1 - p) for (c, n, p) in b]", "rank arm tail"),
    ("C20", "break", ["C20-R4"], "pyyeti/stats.py", "        return np.ceil(n).astype(int)", "        return np.floor(n).astype(int)", "sample size rounded down"),
    ("C20", "break", ["C20-R4"], "pyyeti/stats.py", "            return p - (1 - betainc(s + 1, n - s, pr))", "            return p - (1 - betainc(s, n - s, pr))", "incomplete beta shape"),
    ("C20", "break", ["C20-R5"], "pyyeti/stats.py", "            while _func(b, 1 - c, r - 1, 1 - p) < 0 and loops < 30:", "            while _func(b, 1 - c, r, 1 - p) < 0 and loops < 30:", "bracket probe with other parameters"),
    ("C20", "neutral", [], "pyyeti/stats.py", "    pnonc = sn * norm.ppf(p)\n    return nct.ppf(c, n - 1, pnonc) / sn", "    zp = norm.ppf(p)\n    dof = n - 1\n    return nct.ppf(c, dof, zp * sn) / sn", "temporaries renamed / introduced"),
    ("C20", "neutral", [], "pyyeti/stats.py", "    chi = chi2.ppf(1 - c, n - 1)", "    chi = chi2.isf(c, n - 1)", "isf form of the same quantile"),
    ("C20", "neutral", [], "pyyeti/stats.py", "        return binom.sf(r - 1, n, 1 - p)", "        return 1 - binom.cdf(r - 1, n, 1 - p)", "cdf form of the same tail"),
    ("C20", "neutral", [], "pyyeti/stats.py", "        num = norm.cdf(lhi) - norm.cdf(llo) - prob\n        den = spi * (np.exp(-(lhi**2) / 2) + np.exp(-(llo**2) / 2))", "        den = (np.exp(-lhi * lhi / 2) + np.exp(-llo * llo / 2)) * spi\n        num = -prob - norm.cdf(llo) + norm.cdf(lhi)", "reordered"),
    # ---- C19
    ("C19", "break", ["C19-R1"], "pyyeti/psd.py", "                intarea = (f2 * p2 - f1 * p1) / (s + 1.0)", "                intarea = (f2 * p2 - f1 * p1) / (s - 1.0)", "general area formula"),
    ("C19", "break", ["C19-R1"], "pyyeti/psd.py", "                intarea = p1 * f1 * np.log(f2 / f1)", "                intarea = p1 * f2 * np.log(f2 / f1)", "limit formula"),
    ("C19", "break", ["C19-R1"], "pyyeti/psd.py", "    for i in range(Freq.size - 1):\n        f1 = Freq[i]", "    for i in range(Freq.size - 2):\n        f1 = Freq[i]", "segment coverage"),
    ("C19", "break", ["C19-R2"], "pyyeti/psd.py", "        psdfull = ifunc(np.log(freq))", "        psdfull = ifunc(freq)", "log of the query"),
    ("C19", "break", ["C19-R3"], "pyyeti/dsp.py", "    updata = updata[..., M:]\n", "    updata = updata[..., M + 1:]\n", "lag removal"),
]


def all_recipes(prop):
    """recipes of one property: the table above plus an optional per-property module verifier/recipes_cXX.py (RECIPES in the same format)"""
    out = [r for r in RECIPES if r[0] == prop]
    try:
        import importlib
        m = importlib.import_module(f"verifier.recipes_{prop.lower()}")
        out += [r for r in m.RECIPES if r[0] == prop]
    except ImportError:
        pass
    return out


def _copy_tree(dst):
    src = core.REPO
    shutil.copytree(os.path.join(src, "pyyeti"), os.path.join(dst, "pyyeti"),
                    ignore=shutil.ignore_patterns("tests", "__pycache__", "*.so", "*.op2", "*.op4", "*.pch", "*.mat", "*.p"))
    for f in ("setup.py",):
        if os.path.exists(os.path.join(src, f)):
            shutil.copy(os.path.join(src, f), os.path.join(dst, f))


def _run_variant(args):
    prop, kind, expect, rel, old, new, desc, patchfile, base = args
    import importlib
    tmp = tempfile.mkdtemp(prefix="vsf_", dir=base)
    try:
        _copy_tree(tmp)
        if patchfile:
            r = subprocess.run(["patch", "-p1", "-s", "--no-backup-if-mismatch", "-i", patchfile], cwd=tmp, capture_output=True, text=True)
            if r.returncode != 0:
                return dict(prop=prop, kind=kind, desc=desc, status="recipe-error", detail="patch does not apply: " + (r.stdout + r.stderr)[-200:])
            changed = [l[6:].strip() for l in open(patchfile) if l.startswith("+++ b/")]
        else:
            p = os.path.join(tmp, rel)
            s = open(p).read()
            if s.count(old) != 1:
                return dict(prop=prop, kind=kind, desc=desc, status="recipe-error", detail=f"text to replace occurs {s.count(old)} times in {rel}")
            open(p, "w").write(s.replace(old, new))
            changed = [rel]
        for c in changed:
            if c.endswith(".py"):
                try:
                    py_compile.compile(os.path.join(tmp, c), doraise=True, cfile=os.path.join(tmp, "x.pyc"))
                except py_compile.PyCompileError as e:
                    return dict(prop=prop, kind=kind, desc=desc, status="recipe-error", detail=f"variant does not compile: {e}"[:200])
        mod = importlib.import_module(f"verifier.{prop.lower()}")
        ctx = core.run_rules(prop, mod.RULES, "thorough", 0, repo=tmp)
        oks, knowns, viols, errs = core.summarize(ctx)
        failed_rules = sorted({o.rule for o in viols})
        err_rules = sorted({o.rule for o in errs})
        if kind == "break":
            hit = [r for r in failed_rules if r in expect] if expect else failed_rules
            status = "detected" if hit else ("detected-other-rule" if failed_rules else ("analysis-error-only" if err_rules else "missed"))
        elif kind == "neutral-patch":
            # independently written behaviour-preserving refactorings (tools/neutral_eval.py): reported, never an error of the thorough run
            status = "patch-silent" if not failed_rules and not err_rules else "patch-alarm"
        else:
            status = "silent" if not failed_rules and not err_rules else "false-alarm"
        first = viols[0].instance[:160] if viols else (errs[0].instance[:160] if errs else "")
        return dict(prop=prop, kind=kind, desc=desc, status=status, failed_rules=failed_rules, error_rules=err_rules, first=first, expect=expect)
    finally:
        shutil.rmtree(tmp, ignore_errors=True)


def thorough(ctx):
    """called by core.run_property in the thorough tier"""
    prop = ctx.prop
    base = tempfile.mkdtemp(prefix="verif_selftest_")
    try:
        jobs = []
        for r in all_recipes(prop):
            jobs.append((r[0], r[1], r[2], r[3], r[4], r[5], r[6], None, base))
        sd = os.path.join(core.VERIF, "seeded")
        if os.path.isdir(sd):
            for d in sorted(os.listdir(sd)):
                mp = os.path.join(sd, d, "meta.json")
                pf = os.path.join(sd, d, "patch.diff")
                if os.path.exists(mp) and os.path.exists(pf):
                    try:
                        meta = json.load(open(mp))
                    except Exception:  # noqa
                        continue
                    if meta.get("property") == prop and meta.get("valid_seed"):
                        jobs.append((prop, "break", [], "", "", "", f"seeded change {d}", pf, base))
        nd = os.path.join(core.VERIF, "neutral")
        if os.path.isdir(nd):
            for d in sorted(os.listdir(nd)):
                pf = os.path.join(nd, d, "patch.diff")
                if d.startswith(prop + "-N") and os.path.exists(pf):
                    jobs.append((prop, "neutral-patch", [], "", "", "", f"stored refactoring {d}", pf, base))
        results = []
        if jobs:
            with ProcessPoolExecutor(max_workers=min(16, len(jobs))) as ex:
                results = list(ex.map(_run_variant, jobs))
        n_break = sum(1 for r in results if r["kind"] == "break")
        det = sum(1 for r in results if r["status"] in ("detected", "detected-other-rule"))
        n_neutral = sum(1 for r in results if r["kind"] == "neutral")
        silent = sum(1 for r in results if r["status"] == "silent")
        n_patch = sum(1 for r in results if r["kind"] == "neutral-patch")
        patch_silent = sum(1 for r in results if r["status"] == "patch-silent")
        problems = [r for r in results if r["status"] in ("missed", "false-alarm", "recipe-error", "analysis-error-only", "patch-alarm")]
        # a false alarm on a neutral variant, or a broken instance that goes unnoticed, makes the thorough run fail as analysis-broken
        ctx.rule = "selftest"
        for r in results:
            if r["status"] == "false-alarm":
                ctx.error(f"self-test: behaviour-preserving variant `{r['desc']}` raised an alarm", None, r)
            elif r["status"] == "missed" and not r["desc"].startswith("seeded change"):
                ctx.error(f"self-test: broken variant `{r['desc']}` was not detected", None, r)
            elif r["status"] == "recipe-error":
                ctx.note(f"self-test recipe no longer applies: {r['desc']}: {r.get('detail')}")
            elif r["status"] == "patch-alarm":
                ctx.note(f"stored refactoring still raises an alarm (checker defect, not a property verdict): {r['desc']}: {r.get('failed_rules')} {r.get('error_rules')}")
        return {
            "summary": f"{det}/{n_break} broken variants detected, {silent}/{n_neutral} behaviour-preserving variants silent"
                       + (f", {patch_silent}/{n_patch} stored refactoring patches silent" if n_patch else ""),
            "refactoring_patches": n_patch, "refactoring_patches_silent": patch_silent,
            "variants": len(results), "broken_variants": n_break, "detected": det, "neutral_variants": n_neutral, "silent": silent,
            "not_ok": [{k: v for k, v in r.items() if k in ("desc", "status", "failed_rules", "error_rules", "detail")} for r in problems],
            "detected_list": [{"desc": r["desc"], "rules": r.get("failed_rules")} for r in results if r["status"].startswith("detected")],
        }
    finally:
        shutil.rmtree(base, ignore_errors=True)
