"""E1 -- the parsed program: modules, functions by qualified name, parents,
positions, digests.  Anchors are looked up by qualified name and by shape, never
by line number."""
from __future__ import annotations

import ast
import hashlib
import os

from .core import AnchorError


class Module:
    def __init__(self, repo, rel):
        self.rel = rel
        self.path = os.path.join(repo, rel)
        if not os.path.exists(self.path):
            raise AnchorError(f"file {rel} not found")
        with open(self.path, "rb") as f:
            raw = f.read()
        self.digest = hashlib.sha256(raw).hexdigest()[:16]
        self.source = raw.decode("utf-8")
        self.tree = ast.parse(self.source, filename=self.path)
        from . import e1_names
        self.renamed = e1_names.recover(self.tree, rel)     # [(function, {current local name: reference name})]
        from . import e1_canon
        e1_canon.canon(self.tree, rel)
        self.funcs = {}
        self.classes = {}
        self._index(self.tree, "", None)

    def _index(self, node, prefix, parent):
        for child in ast.iter_child_nodes(node):
            if isinstance(child, (ast.expr_context, ast.operator, ast.unaryop, ast.cmpop, ast.boolop)):
                continue        # CPython shares one instance of these between all trees: never hang a tree on them
            child._vparent = node
            child._vmod = self
            if isinstance(child, (ast.FunctionDef, ast.AsyncFunctionDef)):
                q = prefix + child.name
                child._vqual = q
                # keep the first definition under a name; later duplicates get a suffix
                k = q
                i = 2
                while k in self.funcs:
                    k = f"{q}#{i}"
                    i += 1
                self.funcs[k] = child
                self._index(child, q + ".", child)
            elif isinstance(child, ast.ClassDef):
                q = prefix + child.name
                child._vqual = q
                self.classes[q] = child
                self._index(child, q + ".", child)
            else:
                self._index(child, prefix, parent)

    def seg(self, node):
        return ast.get_source_segment(self.source, node)


class SrcModel:
    def __init__(self, repo):
        self.repo = repo
        self.mods = {}
        self.funcs_consulted = set()

    def mod(self, rel) -> Module:
        m = self.mods.get(rel)
        if m is None:
            m = self.mods[rel] = Module(self.repo, rel)
        return m

    def func(self, rel, qual) -> ast.FunctionDef:
        m = self.mod(rel)
        f = m.funcs.get(qual)
        if f is None:
            raise AnchorError(f"function {qual} not found in {rel}")
        self.funcs_consulted.add(f"{rel}:{qual}")
        return f

    def has_func(self, rel, qual):
        return qual in self.mod(rel).funcs

    def cls(self, rel, qual) -> ast.ClassDef:
        m = self.mod(rel)
        c = m.classes.get(qual)
        if c is None:
            raise AnchorError(f"class {qual} not found in {rel}")
        return c

    def where(self, node):
        m = getattr(node, "_vmod", None)
        ln = getattr(node, "lineno", "?")
        q = qualname_of(node)
        if m is None:
            return f"?:{ln}"
        return f"{m.rel}:{ln}" + (f" ({q})" if q else "")

    def seg(self, node):
        m = getattr(node, "_vmod", None)
        if m is None:
            return ast.unparse(node)
        return m.seg(node)

    def consulted(self):
        return {rel: m.digest for rel, m in sorted(self.mods.items())}

    def all_py(self, sub="pyyeti", tests=False):
        out = []
        root = os.path.join(self.repo, sub)
        for d, dn, fn in os.walk(root):
            dn[:] = [x for x in dn if x != "__pycache__" and (tests or x != "tests")]
            for f in sorted(fn):
                if f.endswith(".py"):
                    out.append(os.path.relpath(os.path.join(d, f), self.repo))
        return sorted(out)


def qualname_of(node):
    n = node
    while n is not None:
        q = getattr(n, "_vqual", None)
        if q is not None:
            return q
        n = getattr(n, "_vparent", None)
    return ""


def parent(node):
    return getattr(node, "_vparent", None)


def ancestors(node):
    n = parent(node)
    while n is not None:
        yield n
        n = parent(n)


def enclosing_stmt(node):
    n = node
    while n is not None and not isinstance(n, ast.stmt):
        n = parent(n)
    return n


def walk_no_nested(node):
    """ast.walk that does not descend into nested function/class definitions."""
    stack = list(ast.iter_child_nodes(node))[::-1]
    while stack:
        n = stack.pop()
        yield n
        if isinstance(n, (ast.FunctionDef, ast.AsyncFunctionDef, ast.ClassDef, ast.Lambda)):
            continue
        stack.extend(list(ast.iter_child_nodes(n))[::-1])


def dotted(node):
    """Name / Attribute chain -> 'a.b.c' or None."""
    parts = []
    n = node
    while isinstance(n, ast.Attribute):
        parts.append(n.attr)
        n = n.value
    if isinstance(n, ast.Name):
        parts.append(n.id)
        return ".".join(reversed(parts))
    return None


def norm(node):
    """Position-independent text of a node."""
    return ast.unparse(node)


def find_stmts(func, pred):
    return [n for n in walk_no_nested(func) if isinstance(n, ast.stmt) and pred(n)]


def find_nodes(root, typ, pred=None, nested=False):
    it = ast.walk(root) if nested else walk_no_nested(root)
    return sorted(
        (n for n in it if isinstance(n, typ) and (pred is None or pred(n))),
        key=lambda n: (getattr(n, "lineno", 0), getattr(n, "col_offset", 0)),
    )


def utext(node):
    """normalised code text of a node: unparsed, docstrings dropped, blanks removed (so a formula quoted in a docstring can
    never satisfy a rule)"""
    import copy

    if isinstance(node, (ast.FunctionDef, ast.AsyncFunctionDef, ast.ClassDef, ast.Module)):
        node = copy.copy(node)
        body = list(node.body)
        if body and isinstance(body[0], ast.Expr) and isinstance(body[0].value, ast.Constant) and isinstance(body[0].value.value, str):
            body = body[1:] or [ast.Pass()]
        new = []
        for b in body:
            if isinstance(b, (ast.FunctionDef, ast.AsyncFunctionDef, ast.ClassDef)):
                b2 = copy.copy(b)
                bb = list(b2.body)
                if bb and isinstance(bb[0], ast.Expr) and isinstance(bb[0].value, ast.Constant) and isinstance(bb[0].value.value, str):
                    bb = bb[1:] or [ast.Pass()]
                b2.body = bb
                new.append(b2)
            else:
                new.append(b)
        node.body = new
    return ast.unparse(node).replace(" ", "")
