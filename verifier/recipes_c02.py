"""C02 self-test recipes added with the value-level rewrite (same tuple format as selftest.RECIPES):
break recipes for the obligations that are new, neutral recipes for refactorings the rules are meant to be blind to."""

UNC = "pyyeti/ode/solveunc.py"
FD = "pyyeti/ode/freqdirect.py"
BASE = "pyyeti/ode/_base_ode_class.py"
UTIL = "pyyeti/ode/_utilities.py"

RECIPES = [
    # ---- break
    ("C02", "break", ["C02-R3"], BASE, "            if not istime and not rf_disp_only:", "            if not istime:", "rf_disp_only ignored"),
    ("C02", "break", ["C02-R3"], UNC, '            if "a" in incrb:\n                a[rb] = a_rb', '            if "v" in incrb:\n                a[rb] = a_rb',
     "rigid-body acceleration gated by the wrong letter"),
    ("C02", "break", ["C02-R3"], FD, "        d, v, a, force = self._init_dva(\n            force,\n            d0=None,\n            v0=None,\n            static_ic=False,\n            istime=False,\n            freq=freq,\n            rf_disp_only=rf_disp_only,",
     "        d, v, a, force = self._init_dva(\n            force,\n            d0=None,\n            v0=None,\n            static_ic=False,\n            istime=False,\n            freq=freq,\n            rf_disp_only=False,",
     "FreqDirect does not hand rf_disp_only on"),
    ("C02", "break", ["C02-R5"], UTIL, "            if drmv is not None:\n                frf += drmv @ sol.v", "            if drma is not None:\n                frf += drmv @ sol.v",
     "velocity recovery guarded by the acceleration matrix"),
    ("C02", "break", ["C02-R5"], UTIL, "            psd[j] += forcepsd[i] * abs(frf) ** 2", "            psd[j] += forcepsd[j] * abs(frf) ** 2", "PSD of the wrong force"),
    ("C02", "break", ["C02-R5"], UTIL, "                frf += drmf[:, i : i + 1] @ unitforce", "                frf += drmf[:, j : j + 1] @ unitforce", "direct term of the wrong force"),
    ("C02", "break", ["C02-R1"], FD, "                Hi = 1j * b * O + k - m * O**2", "                Hi = 1j * b * O + k - m * O", "FreqDirect coupled: mass term power"),
    ("C02", "break", ["C02-R1"], FD, "            Omega = 2 * np.pi * freq\n            if m is None:", "            Omega = np.pi * freq\n            if m is None:", "FreqDirect coupled: Hz to rad/s"),
    ("C02", "break", ["C02-R1"], UNC, "            H = np.ones((n, 1)) @ (1.0j * freqw[None, :]) - pc.lam[:, None]", "            H = np.ones((n, 1)) @ (1.0j * freqw[None, :]) + pc.lam[:, None]",
     "modal denominator sign"),
    ("C02", "break", ["C02-R1"], UNC, "            w = pc.ur_inv_v @ imf", "            w = pc.ur_inv_d @ imf", "displacement columns of the inverse eigenvectors"),
    ("C02", "break", ["C02-R2"], UNC, "                    v_rb[:, pvnz] = (-1j / freqw[pvnz]) * a_rb[:, pvnz]", "                    v_rb[:, pvnz] = (1j / freqw[pvnz]) * a_rb[:, pvnz]",
     "rigid-body velocity sign"),
    ("C02", "break", ["C02-R2"], UNC, "                    d_rb = np.zeros(a_rb.shape, d.dtype)", "                    d_rb = np.ones(a_rb.shape, d.dtype)", "0 Hz rigid-body displacement not zero"),
    ("C02", "break", ["C02-R2"], FD, "        v[kdof] = 1j * Omega * d[kdof]", "        v[kdof] = 1j * Omega * a[kdof]", "velocity derived from the acceleration"),
    ("C02", "break", ["C02-R9"], UNC, "            self._addconj()\n            pc = self.pc\n            kdof = self.kdof", "            pc = self.pc\n            kdof = self.kdof",
     "full conjugate set not restored before the modal sum"),
    ("C02", "break", ["C02-R4"], UNC, "                        a_rb = self.invm[self._rb] * force[rb]", "                        a_rb = self.invm[rb] * force[rb]",
     "full-set index into the non-rf inverse mass"),
    ("C02", "break", ["C02-R2"], BASE, "        return SimpleNamespace(d=d, v=v, a=a, f=freq)", "        return SimpleNamespace(d=d, v=a, a=v, f=freq)", "v and a swapped in the returned solution"),
    ("C02", "break", ["C02-R2"], BASE, "            v = self.phi @ v\n            a = self.phi @ a\n        return SimpleNamespace(d=d, v=v, a=a, f=freq)",
     "            v = self.phi @ v\n        return SimpleNamespace(d=d, v=v, a=a, f=freq)", "pre_eig: acceleration not transformed back"),
    ("C02", "break", ["C02-R2"], UNC, "        return self._solution_freq(d, v, a, freq)", "        return self._solution_freq(d, a, v, freq)", "SolveUnc.fsolve hands v and a over swapped"),
    # ---- neutral
    ("C02", "neutral", [], UNC, "                pvnz = freqw != 0", "                pvnz = ~(freqw == 0)", "mask as negated equality"),
    ("C02", "neutral", [], UNC, '            if "d" in incrb or "v" in incrb:', '            if not ("d" not in incrb and "v" not in incrb):', "De Morgan on the incrb test"),
    ("C02", "neutral", [], FD, "        a[kdof] = -(Omega**2) * d[kdof]\n        v[kdof] = 1j * Omega * d[kdof]",
     "        d_k = d[kdof]\n        jw = 1j * Omega\n        v[kdof] = jw * d_k\n        a[kdof] = jw * (jw * d_k)", "v, a through a read-back temporary and (i W)^2"),
    ("C02", "neutral", [], UNC, "            a[el] = d[el] * -(freqw2)", "            a[el] = -(freqw * freqw) * d[el]", "W^2 as a product"),
    ("C02", "neutral", [], UTIL, "            psd[j] += forcepsd[i] * abs(frf) ** 2", "            psd[j] = psd[j] + abs(frf) ** 2 * forcepsd[i]", "accumulation spelled out"),
    ("C02", "neutral", [], UTIL, "        sumpsd = psd[j][:, :-1] + psd[j][:, 1:]\n        rms[j] = np.sqrt(np.sum((freqstep * sumpsd), axis=1) / 2)",
     "        rms[j] = np.sqrt(np.sum(freqstep * (psd[j][:, 1:] + psd[j][:, :-1]) / 2, axis=1))", "trapezoid with the half inside the sum"),
    ("C02", "neutral", [], UNC, "        if 2 * pc.ur_inv_v.shape[1] > pc.ur_d.shape[1]:\n            # ur_inv = np.hstack((pc.ur_inv_v, pc.ur_inv_d))\n            lam, ur, ur_inv = addconj(",
     "        if pc.ur_d.shape[1] < 2 * pc.ur_inv_v.shape[1]:\n            # ur_inv = np.hstack((pc.ur_inv_v, pc.ur_inv_d))\n            lam, ur, ur_inv = addconj(", "_addconj guard with swapped operands"),
    ("C02", "neutral", [], FD, "                d[kdof, i] = la.solve(Hi, force[:, i])", '                d[kdof, i] = la.solve(Hi, force[:, i], assume_a="gen")', "explicit general driver"),
    ("C02", "neutral", [], UNC, "            d[kdof] = pc.ur_d @ (w / H)\n            a[kdof] = d[kdof] * -(freqw2)\n            v[kdof] = d[kdof] * (1j * freqw)",
     "            d_el = pc.ur_d @ (w / H)\n            d[kdof] = d_el\n            a[kdof] = d_el * -(freqw2)\n            v[kdof] = d_el * (1j * freqw)", "v, a from the un-stored displacement"),
]
