"""C14 rule R5: rbcoords (the least-squares rigid-body fit) recovers the grid locations.

Rigid-body modes of a grid at position p (relative to the reference point) whose displacement system is rotated against the reference by the
3x3 matrix M (local from reference) are  blockdiag(M, M) @ [[I, S(p)], [0, I]]  with S(p) = -[p x] = [[0, z, -y], [-z, 0, x], [y, -x, 0]].
rbcoords is *run* (verifier/c14_np.py) on such blocks:

  * on symbols: a grid in a general frame (Euler-angle matrix), a grid in the reference frame, a grid whose rows are zero (q-set) and a second
    general frame, each at its own symbolic position.  Row j of the returned coordinates must be p_j - so each grid is solved with its own
    block, in its own frame - and the two reported deviations must vanish for exactly rigid modes.  Tests the function makes on the data are
    answered at a generic point (frames far from every special orientation), so this part speaks about the generic route only.
  * at exact witness frames (rational rotations by tan(angle/2) = 10^-2 ... 10^-6 about an axis, about two axes, about a general axis; half and
    quarter turns; a cyclic permutation): every test has a truth value there (closeness tests are the comparisons numpy makes, tolerances
    included), the solve is exact, so the recovered position of a correct implementation is exact.  A route that bypasses the fit for such a
    frame returns M S(p) read as S(p): the location is off by (off-diagonal terms) x distance.  This is the typestate part: a node may bypass the
    fit only under a test that establishes M == identity or bounds the off-diagonal terms; a tolerance on the diagonal (or the trace) does not,
    because diag(R) = 1 - O(angle^2) while the error is O(angle).  Used only to refute: a frame at which a test cannot be decided is exit 2.

What counts as "recovered": the witness comparison allows 1e-7 x max(1, |p|) - two orders tighter than numpy's default notion of closeness
(rtol 1e-5), the one this code base tests with.  The smallest witness tilt has off-diagonal terms 2e-6 (location error 2e-6 x distance), so a
bypass is reported exactly when it is taken for a frame that is at least that far from the reference frame: guards that bound every
off-diagonal term by 1e-6 or less are silent whatever they look like, a tolerance d on the diagonal alone is reported from d = 2e-12 on."""
from __future__ import annotations

import ast
from fractions import Fraction

from . import e2_formula as F
from . import c14_sem as G
from . import c14_np as N
from .c14_geo import N2P, O_, I_, _euler, _rb_block, _returns, _decide, _show, _opaque_in, _point_truth
from .core import Unsupported

_ID3 = ((I_, O_, O_), (O_, I_, O_), (O_, O_, I_))
_Z3 = ((O_, O_, O_),) * 3
_TOL = Fraction(1, 10 ** 7)


def node_block(M, p):
    """the 6x6 rows of one grid: blockdiag(M, M) @ [[I, S(p)], [0, I]]"""
    rb = _rb_block(*p)
    return tuple(G.matmul(M, tuple(rb[:3]))) + tuple(G.matmul(M, tuple(rb[3:])))


def _rot(axis, t):
    """exact rotation about a coordinate axis with tan(angle / 2) = t (t = None: half turn)"""
    if t is None:
        c, s = Fraction(-1), Fraction(0)
    else:
        t = Fraction(t)
        c, s = (1 - t * t) / (1 + t * t), 2 * t / (1 + t * t)
    if axis == "z":
        return ((c, -s, 0), (s, c, 0), (0, 0, 1))
    if axis == "x":
        return ((1, 0, 0), (0, c, -s), (0, s, c))
    return ((c, 0, s), (0, 1, 0), (-s, 0, c))


def _mm(A, B):
    return tuple(tuple(sum(Fraction(A[i][k]) * Fraction(B[k][j]) for k in range(3)) for j in range(3)) for i in range(3))


def _witness_frames():
    out = []
    for k in range(2, 7):
        t = Fraction(1, 10 ** k)
        out.append((f"rotation about z, tan(angle/2) = 1e-{k}", _rot("z", t)))
        out.append((f"rotation about x, tan(angle/2) = 1e-{k}", _rot("x", t)))
        out.append((f"rotations about z, x, z with tan(angle/2) = 1e-{k}, 5e-{k + 1}, -3.3e-{k + 1}",
                    _mm(_mm(_rot("z", t), _rot("x", t / 2)), _rot("z", -t / 3))))
    for ax in "xyz":
        out.append((f"half turn about {ax}", _rot(ax, None)))
    out.append(("quarter turn about z", _rot("z", 1)))
    out.append(("cyclic permutation of the axes (120 deg about (1, 1, 1))", ((0, 1, 0), (0, 0, 1), (1, 0, 0))))
    out.append(("the reference frame itself", ((1, 0, 0), (0, 1, 0), (0, 0, 1))))
    return out


def _fconst(M):
    return tuple(tuple(F.const(Fraction(x)) for x in r) for r in M)


def _asked_about(run, limit=8):
    """text and outcome of the tests a run made (for the report; the decision is made on values)"""
    seen, out = set(), []
    for node, dec in run.sh.tests:
        t = f"`{ast.unparse(node)[:90]}` is {dec}"
        if t not in seen:
            seen.add(t)
            out.append(t)
    return out[:limit]


def r5_rbcoords(ctx):
    fn = ctx.src.func(N2P, "rbcoords")

    # ------------------------------------------------------------------------------------------ on symbols (the generic route)
    tags = ("A", None, "zero", "B")
    pos = [tuple(F.sym(f"p{j}{k}") for k in "xyz") for j in range(len(tags))]
    frames, point = [], {}
    trip = {"A": ((Fraction(3, 5), Fraction(4, 5)), (Fraction(5, 13), Fraction(12, 13)), (Fraction(8, 17), Fraction(15, 17))),
            "B": ((Fraction(-20, 29), Fraction(21, 29)), (Fraction(7, 25), Fraction(24, 25)), (Fraction(-4, 5), Fraction(3, 5)))}
    for j, tag in enumerate(tags):
        if tag in ("A", "B"):
            frames.append(_euler(tag))
            for nm, (sn, cs) in zip(("al", "be", "ga"), trip[tag]):
                point[G.atom_id(F.sin(F.sym(nm + tag)))] = sn
                point[G.atom_id(F.cos(F.sym(nm + tag)))] = cs
        elif tag == "zero":
            frames.append(_Z3)
        else:
            frames.append(_ID3)
        for k, c in enumerate(pos[j]):
            point[G.atom_id(c)] = Fraction(7 * k - 5, 3) + 2 * j + 1
    rows = []
    for M, p in zip(frames, pos):
        rows.extend(node_block(M, p))
    want = tuple(p if tag != "zero" else (O_, O_, O_) for p, tag in zip(pos, tags))
    log = []
    try:
        runs = N.explore(ctx, N2P, fn, positional=[N.as_arr(tuple(rows))], truth=_point_truth(point, log))
    except Unsupported as e:
        ctx.error("rbcoords (rigid-body modes of grids in general frames, on symbols): evaluation", fn, str(e))
        runs = []
    runs = _returns(ctx, runs, "rbcoords (6n x 6 rigid-body modes)", fn) if runs else []
    pairs = []
    for r in runs:
        ret = r.ret
        if not (isinstance(ret, tuple) and len(ret) == 3 and isinstance(ret[0], N.Arr)):
            ctx.error("rbcoords: the result is (coordinates, maximum deviation, maximum percent deviation)", fn, _show(ret, 200))
            pairs = []
            break
        c = ret[0].nested()
        if G.any_unknown(c) or _opaque_in(c):
            ctx.error("rbcoords: the recovered coordinates are understood values", fn, {"coordinates": _show(c, 300), "not understood": _opaque_in(c)})
            pairs = []
            break
        pairs.append(((ret[0], ret[1], ret[2]), r))
    if pairs:
        ok = all(v[0].shape == (len(tags), 3) for v, _ in pairs)
        ctx.check(ok, "rbcoords: one [x, y, z] row per block of six rows", fn, None if ok else {"shape": list(pairs[0][0][0].shape), "grids": len(tags)})
        if ok:
            def coords(v):
                return v[0].nested()
            for j, tag in enumerate(tags):
                if tag == "zero":
                    continue
                what = "a general frame (its own 3x3 block M, translational rows)" if tag else "the frame of the reference"
                _decide(ctx, pairs, lambda v, j=j: G.same(coords(v)[j], want[j]),
                        f"rbcoords: grid {j + 1} of {len(tags)}, in {what}: the recovered location is the least-squares solution of "
                        "M R = (rotational columns of the grid's own translational rows), read as R = [[0, z, -y], [-z, 0, x], [y, -x, 0]] - "
                        "the location of that grid relative to the reference point", fn,
                        lambda v, j=j: {"recovered": _show(coords(v)[j], 500), "location": _show(want[j], 120)})
            _decide(ctx, pairs, lambda v: all(x.is_zero() for x in coords(v)[tags.index("zero")]),
                    "rbcoords: a grid whose rows are zero (q-set) gets zero coordinates (documented) - the fit does not fail on it", fn,
                    lambda v: _show(coords(v)[tags.index("zero")], 200))

            def zero(x):
                return G.is_rat(x) and x.is_zero()
            _decide(ctx, pairs, lambda v: zero(v[1]) and zero(v[2]),
                    "rbcoords: for exactly rigid modes both reported deviations (absolute, percent) vanish", fn,
                    lambda v: {"maxdev": _show(v[1], 200), "maxerr": _show(v[2], 200)})

    # ------------------------------------------------------------------------------------------ witness frames (exact numbers)
    pa = (Fraction(300), Fraction(-7, 2), Fraction(1100, 4))
    pb = (Fraction(-2), Fraction(5), Fraction(9, 4))
    Mb = _mm(_rot("z", Fraction(1, 2)), _rot("x", Fraction(1, 3)))
    bad, und, crashes, n_ok = [], [], [], 0
    scale = max(abs(c) for c in pa)
    for name, M in _witness_frames():
        rows = node_block(_fconst(M), tuple(F.const(c) for c in pa)) + node_block(_fconst(Mb), tuple(F.const(c) for c in pb))
        wlog = []
        try:
            wruns = N.explore(ctx, N2P, fn, positional=[N.as_arr(rows)], truth=_point_truth({}, wlog))
        except Unsupported as e:
            und.append(f"{name}: {e}")
            continue
        for r in wruns:
            if r.pyerror:
                (crashes if r.sure else und).append(f"{name}: {r.pyerror}")
                continue
            if r.raised:
                (bad if r.sure else und).append({"frame": name, "outcome": "a `raise` statement is reached"} if r.sure else f"{name}: raise in an undecided regime")
                continue
            ret = r.ret
            try:
                got = G.conc(N.to_nested(ret[0]), {})
            except (G.Undecided, TypeError, IndexError) as e:
                und.append(f"{name}: result {e}")
                continue
            n_ok += 1
            for g, p, which in ((got[0], pa, "the grid in the witness frame"), (got[1], pb, "the other grid")):
                err = max(abs(Fraction(x) - y) for x, y in zip(g, p))
                if err > _TOL * max(1, scale):
                    offd = max(abs(Fraction(M[i][j])) for i in range(3) for j in range(3) if i != j)
                    dg = max(abs(1 - Fraction(M[i][i])) for i in range(3))
                    rec = {"frame": name, "wrong": which, "largest off-diagonal term of M": f"{float(offd):.3g}", "largest |1 - diagonal term|": f"{float(dg):.3g}",
                           "error of the recovered location": f"{float(err):.3g} at distance {float(scale):.3g}", "tests made": _asked_about(r)}
                    if r.sure:
                        bad.append(rec)
                    else:
                        und.append(f"{name}: wrong location in a regime that was not shown to be reachable")
    if crashes:
        ctx.fail("rbcoords: the function returns (no run-time error) for grids in the witness frames", fn, {"exceptions": crashes[:4]})
    if und and not bad:
        ctx.error("rbcoords: evaluation at the witness frames", fn, und[:6])
    if n_ok or bad:
        ctx.check(not bad, "rbcoords: a grid bypasses the least-squares fit only under a test that establishes that its 3x3 block is the identity or "
                  "bounds the off-diagonal terms (witness frames: exact rotations by 1e-2 ... 1e-6, half / quarter turns, a permutation; location "
                  "to 1e-7 x distance; a tolerance on the diagonal or the trace does not bound them: diag = 1 - O(angle^2), the error is O(angle) x distance)", fn,
                  None if not bad else {"counterexamples": bad[:3], "frames that fail": len(bad),
                                        "consequence": "the recovered location is off by (off-diagonal terms) x (distance from the reference point)"})
